from props_common import COMMON_TRUSTED

CONFIG = {
    "areas": ["ctx", "auth"],
    "lean": ["VProps.C09"],
    "sources": ["VProps/C09.lean", "VModel/Auth.lean", "VModel/Event.lean", "VModel/GoJson.lean"],
    "theorems": ["V.C09.update_eq_freshOf", "V.C09.inv_freshOf", "V.C09.verdicts_history_independent", "V.C09.allowedFresh_eq", "V.C09.freshOf_congr"],
    "rule": "ctx: one reused allowerContext (hook) fed 3-12 steps: update to one of 1-3 providers (different create / power-levels / "
            "join-rules events, unparseable variants, missing create), AddEvent+update as state resolution does, checks of restricted "
            "joins with/without authoriser, power-level and join-rule events, messages; the spec stream is the verdict of a FRESH check "
            "against the current provider; non-trivial = a sequence with at least two checks; auth: as C07",
    "nontrivial": lambda op, impl: impl.count(",") >= 1 or "\t" in op,
    "trusted": COMMON_TRUSTED + ["hook export_verif.go exposes newAllowerContext/update/allowed unchanged"],
    "assumptions": ["events are identified by their event ID in the model (pointer identity in Go); distinct generated events have distinct IDs"],
}
