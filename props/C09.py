from props_common import COMMON_TRUSTED

CONFIG = {
    "areas": ["ctx", "auth", "stateres"],
    # "as state resolution does": the resolvers are the one place where the library reuses a checker; their results are compared with
    # the specification of C10, which checks every event afresh against exactly the state it needs
    "op_filter": {"stateres": ["stateres.resolve", "stateres.resolve_old"]},
    "lean": ["VProps.C09"],
    "sources": ["VProps/C09.lean", "VModel/Auth.lean", "VModel/Event.lean", "VModel/GoJson.lean", "VModel/AuthNeeded.lean",
                "VProofs/AuthNeeded.lean", "VProofs/AuthNeededProviders.lean"],
    "theorems": ["V.C09.update_eq_freshOf", "V.C09.inv_freshOf", "V.C09.verdicts_history_independent", "V.C09.allowedFresh_eq", "V.C09.freshOf_congr",
                 "V.C09.verdict_needs_only_needed", "V.C09.verdict_needs_only_needed_exact", "V.C09.insertion_order_irrelevant", "V.C09.unrelated_state_irrelevant", "V.C09.unrelated_state_added", "V.C09.add_auth_events_sufficient", "V.C09.ofEvents_sameRoom"],
    "rule": "ctx: one reused allowerContext (hook) fed 3-12 steps: update to one of 1-3 providers (different create / power-levels / "
            "join-rules events, unparseable variants, missing create), AddEvent+update as state resolution does, checks of restricted "
            "joins with/without authoriser, power-level and join-rule events, messages; the spec stream is the verdict of a FRESH check "
            "against the current provider; non-trivial = a sequence with at least two checks; ctx.needed: the random room states of area auth "
            "(every event class, restricted joins, third-party invites with real signatures) with unrelated same-room state added: the REAL "
            "Allowed on the full provider, on the reversed + extended provider and on the provider restricted to StateNeededForAuth(e).Tuples(); "
            "spec stream = the model's verdict on the restricted provider, three times; auth: as C07",
    "nontrivial": lambda op, impl: impl.count(",") >= 1 or "\t" in op,
    "trusted": COMMON_TRUSTED + ["hook export_verif.go exposes newAllowerContext/update/allowed unchanged"],
    "assumptions": ["events are identified by their event ID in the model (pointer identity in Go); distinct generated events have distinct IDs"],
}
