from props_common import COMMON_TRUSTED

CONFIG = {
    "areas": ["ctx", "auth", "stateres"],
    # "as state resolution does": the resolvers are the one place where the library reuses a checker; their results are compared with
    # the specification of C10, which checks every event afresh against exactly the state it needs
    "op_filter": {"stateres": ["stateres.resolve", "stateres.resolve_old"]},
    "lean": ["VProps.C09"],
    "sources": ["VProps/C09.lean", "VModel/Auth.lean", "VModel/Event.lean", "VModel/GoJson.lean", "VModel/AuthNeeded.lean",
                "VProofs/AuthNeeded.lean", "VProofs/AuthNeededProviders.lean"],
    "theorems": ["V.C09.update_eq_freshOf", "V.C09.inv_freshOf", "V.C09.verdicts_history_independent", "V.C09.allowedFresh_eq", "V.C09.freshOf_congr",
                 "V.C09.verdict_needs_only_needed", "V.C09.verdict_needs_only_needed_exact", "V.C09.insertion_order_irrelevant", "V.C09.unrelated_state_irrelevant", "V.C09.unrelated_state_added", "V.C09.add_auth_events_sufficient", "V.C09.ofEvents_sameRoom",
                 "V.C09.allowedFresh_eq_noValid", "V.C09.check_eq_allowed", "V.C09.reused_checker_eq_allowed", "V.C09.sameEvent_eq"],
    "rule": "ctx: one reused allowerContext (hook) fed 3-12 steps: update to one of 1-3 providers (different create / power-levels / "
            "join-rules events, unparseable variants, missing create), AddEvent+update as state resolution does, checks of restricted "
            "joins with/without authoriser, power-level and join-rule events, messages; foreign pattern: rounds of Clear / AddEvent / "
            "update / check in which some rounds also add an event of ANOTHER room, every check made through the reused checker (a-step) "
            "and by the standalone Allowed on the same provider object (f-step); the spec stream is the verdict of the standalone "
            "`Allowed` (Valid() gate included) on a FRESH provider holding the events the provider holds now; non-trivial = a sequence with at least two checks; ctx.needed: the random room states of area auth "
            "(every event class, restricted joins, third-party invites with real signatures) with unrelated same-room state added: the REAL "
            "Allowed on the full provider, on the reversed + extended provider and on the provider restricted to StateNeededForAuth(e).Tuples(); "
            "spec stream = the model's verdict on the restricted provider, three times; the same with member events under test whose "
            "content spells membership / join_authorised_via_users_server another way (Capitalised, UPPER, U+017F) alone or next to the exact "
            "name with another value - member names are exact for the check and for StateNeededForAuth alike (public and restricted rooms, all versions); "
            "ctx.addauth: the REAL EventBuilder.AddAuthEvents (StateNeededForProtoEvent + AuthEventReferences + the create-stripping branch of "
            "version 12) selects the references for a new event shaped like the event under test: Allowed on the full provider vs on exactly the "
            "selected events, and the reference set vs the model's selectNeeded; ctx.seq also: same-ID pattern (two different power-levels / "
            "join-rules events carrying ONE event ID swapped between refreshes) and the toggle pattern (present / absent / present again); "
            "auth: as C07",
    "nontrivial": lambda op, impl: impl.count(",") >= 1 or "\t" in op,
    "trusted": COMMON_TRUSTED + ["hook export_verif.go exposes newAllowerContext/update/allowed unchanged"],
    "assumptions": ["the model compares cached events structurally (version, event ID and the whole JSON value; theorem sameEvent_eq) where Go compares "
                    "pointers: observationally the same, since a re-parse of an equal event gives the same content (until round 4 the model "
                    "compared IDs and the theorems assumed IDs identify events - false for the trusted constructors, seeded change C09-r4m1)",
                    "ctx.addauth: the real EventBuilder.AddAuthEvents is compared on generated events for which it succeeds (it refuses member "
                    "contents StateNeededForProtoEvent cannot decode); references are compared as a set; auth events from different rooms skipped"],
}
