from props_common import COMMON_TRUSTED

CONFIG = {
    "areas": ["redact"],
    "lean": ["VProps.C05"],
    "sources": ["VProps/C05.lean", "VModel/Redact.lean", "VModel/RedactSpec.lean", "VModel/EventParse.lean", "VModel/Hash.lean",
                "VProofs/RedactLookup.lean", "VProofs/RedactCore.lean", "VProofs/RedactMaps.lean", "VProofs/RedactMain.lean",
                "VProofs/RedactExact.lean"],
    "theorems": [
        "V.C05.keep_tables_eq_spec_partial", "V.C05.keep_tables_v11_member_deviates", "V.C05.algos_ok",
        "V.C05.redact_exact", "V.C05.redact_drops_unlisted", "V.C05.redact_idem", "V.C05.redact_preserves_ids", "V.C05.redact_preserves_reference",
        "V.C05.redact_preserves_signatures", "V.C05.redact_keeps_signatures_member",
    ],
    "rule": "redact.json: bounded-exhaustive 16 versions x 14 event types (every protected type + arbitrary ones) x (all 18 listed "
            "content keys and 23 neighbour keys at once | one listed key + one neighbour), 84 hand-picked shapes x 16 versions "
            "(null, non-objects, duplicate exact keys incl. an ill-typed earlier duplicate, case variants - ASCII and U+017F - of type, content, "
            "sender, event_id, state_key, hashes, signatures and the other protected keys, alone and next to the exact key, null and "
            "wrong-typed type/content, duplicate content (last wins), float64 overflow and near-limit literals, -0, 2^53 boundary, third_party_invite shapes), then random events "
            "(random subsets of kept / dropped / unknown / case-variant top-level keys, a second case-variant or duplicate member for a protected "
            "key in 12 %, nested values, IntSafe and non-IntSafe numbers, random "
            "whitespace / escapes / member order, malformed texts); three streams: implementation (CanonicalJSON of "
            "RedactEventJSON), model (redactJSON), specification (RedactSpec.redact - exact key comparison - on every object without duplicate top-level keys whose type is a "
            "string and whose content is an IntSafe object: case variants of protected keys are INSIDE the specification stream and must be dropped). redact.pdu / pdu_props: "
            "PDU.Redact() twice on events built with EventBuilder.Build (real ed25519) and on hand-made trusted events; the "
            "property relations (ids, event ID, redacted flag, idempotence, JSON = redaction of the original, signature still "
            "verifies with VerifyJSON) evaluated on the real code. redact.pdu_check / pdu_after (round 3): Redact() after every route an event can take - trusted / "
            "with-ID / untrusted constructor x preparation sequence (EventID(), JSON(), Sign(), SetUnsigned() in 8 orders) on built events and on hand-made trusted events "
            "with and without an `event_id` member in every format and with numbers the strict canonical form refuses in kept (depth, origin_server_ts, users_default) and "
            "dropped (unsigned) positions; the harness evaluates json = canonical RedactEventJSON(JSON() just before), redacted flag, ids, event ID, our signature still "
            "verifying, second Redact() a no-op; pdu_after hands the before / after JSON to the Lean model, which recomputes the redaction (a panic is the documented answer "
            "only for trusted JSON; on an event the untrusted constructor accepted it is a violation). non-trivial = the implementation returned a redacted event",
    "nontrivial": lambda op, impl: impl.startswith("ok:") or impl.startswith("ids="),
    "trusted": COMMON_TRUSTED + [
        "encoding/json modelled by VModel.Redact: exactFieldsOnly = decode into map[string]json.RawMessage (last duplicate wins, values raw, "
        "null text = empty object, other non-objects = error) restricted to the exact JSON names of the keep struct; then the struct decode "
        "(case-folded field matching - which now only ever sees exact names, each once -, null / type-error rules per Go type, RawJSON "
        "pass-through, float64 overflow = error)",
        "json.Marshal followed by CanonicalJSON = encodeCanon of the value (member order / escaping of Marshal irrelevant)",
        "specification tables in VModel/RedactSpec.lean transcribed from memory of the Matrix spec v1.16 room-version pages "
        "(no copy in the sandbox), cross-checked against the quotations in redactevent.go's comments",
    ],
    "assumptions": [
        "domain of the model = values on which the interface{} round trip of kept content is the identity: integer literals within "
        "+-(2^53-1) (at most 16 digits), valid UTF-8, no duplicate keys inside kept content; number literals with decimal exponent "
        "308 are undecided (model answers skip); outside: skip (counted)",
        "texts with ill-formed Unicode or nested duplicate keys are skipped (their canonical form is outside C01's specification)",
        "redact_exact / redact_keeps_signatures_member: hypotheses only 'type is a string, content is an object without duplicate keys' "
        "(WfEvent); the former hypotheses 'no duplicate top-level keys' and 'no case variant of a protected key' (WfTop) are REMOVED - with "
        "exact key matching a variant is an unlisted key and of duplicates the last counts (lookupExact). redact_drops_unlisted (new, no "
        "hypothesis): a key other than type/content that the event does not carry as that exact string is not in the redaction. "
        "redact_idem / reference / signatures hold for every input on which RedactEventJSON succeeds",
        "redact_preserves_ids keeps the hypothesis WfTop (no duplicate top-level keys, no case variant of a protected key): it compares what "
        "the EVENT structs (filled by encoding/json, case-insensitively) read before and after; an event whose only sender member is spelt "
        "'Sender' reads as sent by nobody once redacted (the exact-matching repair trades this for not inventing keys); such events are "
        "outside the property's words (lenient parsing) and outside the pdu_props specification stream",
        "unstable versions follow the stable version their comment in eventversion.go names (msc3667->v7, msc3787->v9, msc4014->v10, hydra.11->v12)",
        "KNOWN FINDING v11-member-tpi-signed: keep_tables_eq_spec holds except m.room.member under redactEventJSONV5 "
        "(third_party_invite.signed is dropped); full-strength statement kept as a comment next to keep_tables_eq_spec_partial",
    ],
}
