from props_common import COMMON_TRUSTED

CONFIG = {
    "areas": ["redact"],
    "lean": ["VProps.C05"],
    "sources": ["VProps/C05.lean", "VModel/Redact.lean", "VModel/RedactSpec.lean", "VModel/EventParse.lean", "VModel/Hash.lean",
                "VProofs/RedactLookup.lean", "VProofs/RedactCore.lean", "VProofs/RedactMaps.lean", "VProofs/RedactMain.lean",
                "VProofs/RedactExact.lean"],
    "theorems": [
        "V.C05.keep_tables_eq_spec_partial", "V.C05.keep_tables_v11_member_deviates", "V.C05.algos_ok",
        "V.C05.redact_exact", "V.C05.redact_idem", "V.C05.redact_preserves_ids", "V.C05.redact_preserves_reference",
        "V.C05.redact_preserves_signatures", "V.C05.redact_keeps_signatures_member",
    ],
    "rule": "redact.json: bounded-exhaustive 16 versions x 14 event types (every protected type + arbitrary ones) x (all 18 listed "
            "content keys and 23 neighbour keys at once | one listed key + one neighbour), 59 hand-picked shapes x 16 versions "
            "(null, non-objects, duplicate / case-variant / long-s keys, null and wrong-typed type/content, merged duplicate "
            "content, float64 overflow and near-limit literals, -0, 2^53 boundary, third_party_invite shapes), then random events "
            "(random subsets of kept / dropped / unknown top-level keys, nested values, IntSafe and non-IntSafe numbers, random "
            "whitespace / escapes / member order, malformed texts); three streams: implementation (CanonicalJSON of "
            "RedactEventJSON), model (redactJSON), specification (RedactSpec.redact on well-formed events). redact.pdu / pdu_props: "
            "PDU.Redact() twice on events built with EventBuilder.Build (real ed25519) and on hand-made trusted events; the "
            "property relations (ids, event ID, redacted flag, idempotence, JSON = redaction of the original, signature still "
            "verifies with VerifyJSON) evaluated on the real code. non-trivial = the implementation returned a redacted event",
    "nontrivial": lambda op, impl: impl.startswith("ok:") or impl.startswith("ids="),
    "trusted": COMMON_TRUSTED + [
        "encoding/json modelled by VModel.Redact: case-folded field matching, members decoded in document order into one field, "
        "null / type-error rules per Go type, RawJSON pass-through, map merge, float64 overflow = error",
        "json.Marshal followed by CanonicalJSON = encodeCanon of the value (member order / escaping of Marshal irrelevant)",
        "specification tables in VModel/RedactSpec.lean transcribed from memory of the Matrix spec v1.16 room-version pages "
        "(no copy in the sandbox), cross-checked against the quotations in redactevent.go's comments",
    ],
    "assumptions": [
        "domain of the model = values on which the interface{} round trip of kept content is the identity: integer literals within "
        "+-(2^53-1) (at most 16 digits), valid UTF-8, no duplicate keys inside kept content; number literals with decimal exponent "
        "308 are undecided (model answers skip); outside: skip (counted)",
        "texts with ill-formed Unicode or nested duplicate keys are skipped (their canonical form is outside C01's specification)",
        "redact_exact / redact_preserves_ids are stated for well-formed events (object, no duplicate top-level keys, no case variant "
        "of a protected key, type a string, content an object without duplicate keys); redact_idem / reference / signatures hold "
        "for every input on which RedactEventJSON succeeds",
        "unstable versions follow the stable version their comment in eventversion.go names (msc3667->v7, msc3787->v9, msc4014->v10, hydra.11->v12)",
        "KNOWN FINDING v11-member-tpi-signed: keep_tables_eq_spec holds except m.room.member under redactEventJSONV5 "
        "(third_party_invite.signed is dropped); full-strength statement kept as a comment next to keep_tables_eq_spec_partial",
    ],
}
