from props_common import COMMON_TRUSTED

CONFIG = {
    # ctx: "Allowed accepts exactly when the rules accept" also for the reused checker state resolution decides with
    # (ctx_allowed_eq_spec): its sequences keep / swap / remove the create, power-levels and join-rules events between checks -
    # also for another event under the SAME event ID in the versions whose ID is a member of the event (seeded change C07-r5m2)
    "areas": ["auth", "ctx"],
    "op_filter": {"ctx": ["ctx.seq"]},
    "lean": ["VProps.C07"],
    "sources": ["VProps/C07.lean", "VModel/AuthRules.lean", "VProofs/AuthRulesBase.lean", "VProofs/AuthRulesEvents.lean",
                "VProofs/AuthRulesMember.lean", "VProofs/AuthRulesNoPanic.lean", "VModel/Auth.lean", "VModel/Event.lean",
                "VModel/GoJson.lean"],
    "theorems": [
        "V.C07.allowed_eq_spec",
        "V.C07.ctx_allowed_eq_spec",
        "V.C07.ctx_dispatch_eq_spec",
        "V.C07.ctx_dispatchPL_eq_spec",
        "V.C07.create_eq_spec",
        "V.C07.aliases_eq_spec",
        "V.C07.member_eq_spec",
        "V.C07.member_join_eq_spec",
        "V.C07.member_invite_eq_spec",
        "V.C07.member_leave_eq_spec",
        "V.C07.member_ban_eq_spec",
        "V.C07.member_knock_eq_spec",
        "V.C07.third_party_eq_spec",
        "V.C07.power_levels_eq_spec",
        "V.C07.redaction_eq_spec",
        "V.C07.default_eq_spec",
        "V.C07.different_rooms_refused",
        "V.C07.reused_checker_refuses_different_rooms",
        "V.C07.no_panic_allowed",
        "V.C07.spec_delta_documented",
        "V.C07.witnesses_model_eq_library",
        "V.C07.repaired_witnesses",
        "V.C07.repaired_witnesses_r4",
        "V.C07.contents_read_by_exact_names",
        "V.C07.repaired_witnesses_x3",
        "V.C07.version_switches_eq_spec",
        "V.C07.spec_table_stable",
    ],
    "rule": "random room states (create / power_levels / join_rules / members / third-party invites with real ed25519 signatures, "
            "16 versions; power-levels auth events with junk / null / float levels, i.e. unreadable ones, in the incoherent half) x event "
            "under test of every class; the contents the rules read (create / power_levels / join_rules / third_party_invite, as auth events "
            "and as the event under test) get, with a few per cent each, ONE member name in a variant spelling (Capitalised, UPPER, one "
            "inner / the last letter raised, U+017F for an s, U+212A for a k) -- the exact member renamed, a variant of an absent member "
            "added, or a variant with ANOTHER value placed before / after the exact member, the content NOT re-sorted afterwards -- and "
            "(gen_authvariants.go, every tier) ~50 directed scenarios x 5 versions x 2 spellings in which the verdict hinges on that member "
            "(a stranger joining under {Join_rule: public}, a level-0 member sending state under {State_default: 0} / {Users: {..}} beside "
            "`users`, a join from another server under {m.federate: true, M.FEDERATE: false}, Additional_creators in v12, Creator alone, "
            "ill-typed values under variant names); (power-levels events incl. a JSON null in place of a level, of a map of levels or of one of its "
            "values; version-12 creators changing any level), plus (gen_authspace.go) the named witnesses of VProps/C07.lean (D1-D17, F1-F5, "
            "and A1-A4: the round-4 defects) and the "
            "bounded-exhaustive membership rule space: version x (sender = target?) x sender's membership x target's previous "
            "membership x new membership x join rule (7 values incl. absent / unknown) x sender level vs threshold (<,=,>) x target "
            "level vs sender level (<,=,>) x create present x m.federate / domains x authoriser state x power-levels event present, "
            "each rendered to real events (thorough: all ~58k; quick: a seeded 5 % sample); the spec stream is the verdict of the "
            "transcribed authorisation rules (VModel/AuthRules.lean, Departures.library = D1-D17 of DESIGN.md 6.1); non-trivial = every "
            "distinct op (each is one concrete event + auth-event set)",
    "nontrivial": lambda op, impl: True,
    "trusted": COMMON_TRUSTED + [
        "encoding/json struct decoding modelled by VModel.GoJson (the content decoders are the rules' parsed inputs)",
        "third-party-invite signature verification (ed25519) is an oracle bit supplied with the op",
    ],
    "assumptions": [
        "the rule text is transcribed from memory of the room-version pages (v11 wording + per-version deltas) and from the citations in "
        "eventauth.go: no copy of the specification exists in the sandbox; clauses tagged `-- unverified transcription` in VModel/AuthRules.lean",
        "modelled domain (rulesAllow = none outside it): registered room version, room ID accepted by the event constructors, no IPv6 "
        "literal in the user IDs the rules look at, no mxid_mapping.signatures, float levels exactly representable",
        "spec rule 2 (the auth_events list itself), size limits and signatures are outside Allowed's interface (C14, C17, C06)",
        "D16 / D17 and five differences repaired in /repo (6fda2cc, 17893e1, 81e30aa, ba68227, c0fa8cc) were found while proving C07; "
        "the former failing inputs are the theorem repaired_witnesses and part of corpus/C07/auth.ops",
        "round 4 (audit): four more defects where rules and model had both been transcribed from the code - v12 creators judged at "
        "users_default for notification levels, null accepted as an integer level from version 10, an unreadable power-levels auth "
        "event zeroing every threshold, knock -> leave in versions without knocking - repaired in /repo (548eba1, 33ac4f7, d1e42dd, "
        "dbee289); the rules now say: creators are privileged for EVERY comparison of rule 10 (powerOfWith sv.creators), rule 10.1-10.3 "
        "is the independent predicate integerContent, a present but unreadable power-levels auth event refuses every event judged "
        "against the power levels (all but m.room.create / m.room.aliases), 5.5.1 has `knock` only from version 7; theorem "
        "repaired_witnesses_r4, corpus/C07/auth.ops",
        "`present` for a key of a content = the content has a member of EXACTLY that name (GoJson.lookupExact, the last member of that "
        "name wins): second audit X3",
        "the members of an m.room.member content (membership, third_party_invite, join_authorised_via_users_server, mxid_mapping) are "
        "read by their EXACT names (GoJson.lookupExact, last member of that name wins) by the auth rules, StateNeededForAuth / "
        "StateNeededForProtoEvent, Membership(), state resolution's control-event test and the handshakes alike (/repo 'member content "
        "was read under case variants of its member names' + 'every reader of member content matches member names exactly'); the "
        "contents of create / power_levels / join_rules / third_party_invite events likewise since the repair of X3 (the rules name "
        "`join_rule`, `users`, `m.federate`, ...: V.C07.contents_read_by_exact_names, repaired_witnesses_x3; before it Allowed accepted a "
        "stranger's join under {Join_rule: public} and merged `Users` into `users`); members of NESTED objects (inside third_party_invite / "
        "mxid_mapping of a member content, predecessor, allow[], public_keys[]) are still matched by encoding/json's folded comparison "
        "in code and model",
    ],
}
# statement-by-statement translation of small pure Go functions (tools/extract/trans.go -> lean/VGen/TransLevels.lean) and the
# theorems that the translated definitions equal the model's, for all inputs (lean/VProps/TransLevels.lean)
CONFIG["lean"] = list(CONFIG["lean"]) + ["VProps.TransLevels"]
CONFIG["sources"] = list(CONFIG["sources"]) + ['VProps/TransLevels.lean', 'VModel/GoSem.lean']
CONFIG["theorems"] = list(dict.fromkeys(list(CONFIG["theorems"]) + ['V.Trans.Levels.userLevel_eq_model', 'V.Trans.Levels.eventLevel_eq_model', 'V.Trans.Levels.notificationLevel_eq_model', 'V.Trans.Levels.eventLevel_third_party_invite']))
CONFIG["trusted"] = list(CONFIG["trusted"]) + ["tools/extract/trans.go: the Go-to-Lean translation of the whitelisted functions and the Go semantics of lean/VModel/GoSem.lean (DESIGN.md §14)"]
