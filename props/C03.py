from props_common import COMMON_TRUSTED

CONFIG = {
    "areas": ["event"],
    "lean": ["VProps.C03"],
    "sources": ["VProps/C03.lean", "VProps/C04.lean", "VProps/C05.lean", "VModel/EventParse.lean", "VModel/EventSpec.lean",
                "VModel/Redact.lean", "VModel/Hash.lean", "VModel/EventBuild.lean", "VProofs/EventParse.lean", "VProofs/RedactCongr.lean",
                "VProofs/RedactLookup.lean", "VProofs/RedactCore.lean", "VProofs/RedactMaps.lean", "VProofs/RedactMain.lean",
                "VProofs/RedactExact.lean", "VProofs/EventBuildRoundtrip.lean", "VProofs/EventTamper.lean", "VProofs/EventIdInj.lean"],
    "theorems": [
        "V.C03.tables_ok", "V.C03.referenceID_ignores_unsigned", "V.C03.eventID_ignores_unsigned",
        "V.C03.referenceID_ignores_signatures", "V.C03.eventID_ignores_signatures", "V.C03.eventID_redact_invariant",
        "V.C03.eventID_redact_invariant_received",
        "V.C03.eventID_injective", "V.C03.hash_injective", "V.C03.eventID_alphabet", "V.C03.v12_create_roomID",
        "V.C03.v12_auth_first", "V.C03.reparse_same_partial", "V.C03.build_checked_partial", "V.C03.build_roundtrip",
        # round 4 (fix 2aa10ca): the events Sign / SetUnsigned / SetUnsignedField return are the same event (struct, fields, ID,
        # room ID, auth references)
        "V.C03.signWith_same", "V.C03.setUnsigned_same", "V.C03.setUnsignedField_same", "V.C03.derived_same_accessors",
        # second audit round (defect P5): Build refuses members that repeat a name at any depth (the raw content / unsigned of the
        # proto-event) - what the untrusted constructors refuse; build_roundtrip never had a hypothesis about duplicate names, the CODE
        # returned such events
        "V.C03.build_refuses_duplicate_members", "V.C03.untrusted_refuses_duplicate_members",
        # injectivity completed: equal IDs => equal hashes members (up to canonical form) and equal hashes.sha256; with valid content
        # hashes => equal hashed bytes / equal hashed fields; the same at the level of EventBuilder.Build
        "V.C03.eventID_determines_hashes", "V.C03.eventID_injective_hashed", "V.C03.build_eventID_injective",
        # proto level: equal IDs => the two Build calls got the same type, sender, room ID, state key, prev / auth lists, redacts, depth,
        # content (canonical form), clock and origin; contrapositive = the property's sentence
        "V.C03.build_eventID_injective_proto", "V.C03.build_differ_eventID_ne",
    ],
    "rule": "event.build: EventBuilder.Build itself against its model (VModel.EventBuild.build: struct marshalling with omitempty, "
            "format-1 references incl. the partial base64 decode of eventHashFromEventID, content hash, signEvent with the signature "
            "computed independently by the harness, EnforcedCanonicalJSON, trusted parse, CheckFields; math/rand seeded so that "
            "format-1 IDs are reproducible): full accessor tuple + canonical JSON compared; 6% of the proto-events carry a content / unsigned that "
            "repeats a member name (spelled the same or with an escape, top level or nested): Build must refuse them (err:badjson), and "
            "event.buildrt (Build, then the result read back as UNTRUSTED input: ok / bad) runs on those and on a tenth of the others. Then every event comes from EventBuilder.Build with a real ed25519 key (16 versions x 14 event types x state key absent / '' / "
            "user / other x 0-4 prev / auth references x IntSafe contents x depths 0..2^53-1, optional unsigned / redacts). Property ops "
            "evaluate C03's relations on the real code and print a verdict vector, the specification stream is the all-true vector: "
            "event.roundtrip (untrusted / trusted-with-ID / headered re-parse give the same ID, type, sender, room, state key, content, "
            "depth, ts, prev, auth; not redacted; CheckFields ok; v12: create room ID = '!'+event ID[1:], other events' first auth event "
            "= '$'+room_id[1:]), event.idprops (ID unchanged by SetUnsigned, by replacing / removing signatures, by Sign with another "
            "key, by Redact; alphabet and length), event.derived (the FULL accessor tuple - ID, type, sender, room ID, state key, content, "
            "depth, ts, prev, auth, each accessor under recover - of the events SetUnsigned, SetUnsignedField and Sign return equals the "
            "original's, every version; a version-12 create event is built every round so that the room-ID clause is exercised), event.iddiff (a second Build from a proto-event differing in exactly one of type, "
            "sender, room, state key, protected / unprotected content key, depth, ts, prev, auth, redacts gets a different ID); plus the "
            "parse ops of C04 on the same events and their tamperings (model = accessor tuples). non-trivial = a property op on a built event",
    "nontrivial": lambda op, impl: op.split("\t")[0] in ("event.roundtrip", "event.idprops", "event.iddiff", "event.derived"),
    "trusted": COMMON_TRUSTED + [
        "encoding/json struct decoding of eventV1/eventV2/eventV3 modelled by VModel.EventParse.decodeFields",
        "sjson.DeleteBytes / SetBytes and gjson.GetBytes on top-level members modelled as first-occurrence delete / set / lookup",
        "CanonicalJSONAssumeValid and CanonicalJSON o json.Marshal = encodeCanon on values without duplicate keys (C01)",
        "SHA-256 is a parameter H (eventID_injective / hash_injective assume Function.Injective H: collision freeness, an idealisation; "
        "eventID_alphabet's length clause assumes 32-byte digests); the driver plugs in VModel.Hash.sha256",
        "ed25519 does not enter: the model of Sign takes the signature bytes as an argument (the event ID does not depend on them)",
        "base64: VModel.B64 / VProofs.B64 (C17)",
    ],
    "assumptions": [
        "build_roundtrip (proved, all registered versions, all proto-events / times / origins / key IDs / format-1 random characters / "
        "signature bytes): hypothesis ProtoOk = the three raw-JSON inputs of the proto-event (content, unsigned, signatures) are JSON "
        "values, i.e. their number literals follow the JSON grammar (true of every parsed text; json.Marshal refuses a RawJSON that is not). "
        "Conclusion: the untrusted re-parse of e.JSON() succeeds with the same version, struct, type, sender, room ID, state key, content, "
        "redacts, depth, origin_server_ts, prev / auth lists, stored and reported event ID, RoomID(), PrevEventIDs(), AuthEventIDs(), "
        "not redacted, CheckFields ok; the trusted re-parse and the headered re-parse return the very same event. The model of Build now "
        "hands the trusted constructor the canonical TEXT (parse of encodeCanon), as the Go code does, so a built event holds the "
        "canonical value (members sorted, -0 as 0). The headered clause quantifies over every text denoting the value ToHeaderedJSON "
        "writes in sjson's member order (event members, then _room_version, _event_id); the driver's op feeds the canonical rendering "
        "of that value instead (correspondence only for that spelling)",
        "eventID_injective concludes equality of the reference bytes (canonical encoding of the redacted, signature- and "
        "unsigned-stripped event); eventID_determines_hashes extracts the hashes member from it (equal IDs => equal hashes member up to "
        "canonical form, equal hashes.sha256 as gjson reads it), eventID_injective_hashed adds hash_injective (both content hashes valid "
        "=> equal hashed bytes = every field but unsigned / signatures / hashes equal up to member order and -0), build_eventID_injective "
        "states it for two successful EventBuilder.Build calls in one room version of event format 2 (any clocks, origins, key IDs, "
        "signature bytes); build_eventID_injective_proto inverts the struct marshalling: equal IDs => equal type, sender, room ID, state "
        "key (absent / present), prev_events, auth_events, redacts, depth, content up to sorted.normNums, origin_server_ts (the clock) "
        "and origin; build_differ_eventID_ne is its contrapositive. Hypotheses: H injective; number literals of the JSON grammar (numsOk; ProtoOk at Build level, as in "
        "build_roundtrip); no repeated TOP-LEVEL key (needed: gjson reads the first hashes member, redaction keeps the last one - the "
        "kernel-evaluated pair exDupHashes has equal IDs and different hashes.sha256; the untrusted constructors refuse such events, "
        "Build does not produce them). Nothing is assumed about duplicate keys inside hashes or elsewhere",
        "eventID_ignores_unsigned / _signatures at PDU level are stated for events without duplicate top-level keys (SetUnsigned / "
        "Sign re-marshal through a map)",
        "eventID_redact_invariant: hypothesis 'the event's JSON has no member with the exact key event_id' (a condition on the event, no "
        "longer on its redaction: redaction matches keys exactly since the redactEventJSON repair, so a case variant such as Event_id cannot "
        "put an event_id into the redacted JSON). Derived, not assumed, for every event received through NewEventFromUntrustedJSON in a "
        "hashed-ID format (eventID_redact_invariant_received, via C04.accepted_no_event_id: the key is stripped on receipt) and true of every "
        "Build output of these formats (Build writes no event_id). What remains outside: TRUSTED JSON (NewEventFromTrustedJSON, ...WithEventID, "
        "headered) that carries an event_id member in a hashed-ID format - the constructors take the stored ID from that member (struct "
        "decoding, case variants included) or from the argument, Redact() re-reads the exact member from the redacted JSON, and the two can differ",
        "texts with ill-formed Unicode are skipped by the driver; texts with duplicate keys are skipped on the trusted / property ops and "
        "REFUSED (model, specification, code since 7c511f2) on the untrusted op",
        "derived_same_accessors: hypothesis 'format 1 or a stored ID' (true of everything a constructor other than ...WithEventID(\"\") "
        "returned); SetUnsignedField is modelled for keys without gjson path syntax on an absent / object unsigned member",
        "eventID_redact_invariant: what remains outside is trusted JSON that carries an exact event_id member in a hashed-ID format: "
        "NewEventFromTrustedJSON now computes the ID whatever the member says (fix 1b1773a), Redact() still re-reads the member from the "
        "redacted JSON, so the ID of such an event changes on redaction (caller's contract; not reachable from the receipt path or Build)",
    ],
}
