from props_common import COMMON_TRUSTED

CONFIG = {
    "areas": ["fedcheck"],
    "lean": ["VProps.C14", "VProps.C14Compose", "VProps.C14Compose2"],
    "sources": ["VProps/C14.lean", "VProps/C14Compose.lean", "VProps/C14Compose2.lean", "VModel/FedCheck.lean", "VModel/FedCheckSpec.lean", "VModel/FedCheckInst.lean",
                "VProofs/FedCheck.lean", "VProofs/FedCheckLog.lean", "VProofs/FedCheckChain.lean"],
    "theorems": ["V.C14.send_join_accepted_signed_and_allowed", "V.C14.send_join_accepts_iff_allowed", "V.C14.auth_chain_accepts_allowed", "V.C14.auth_chain_accepts_allowed_table", "V.C14.at_state_allowed", "V.C14.load_results_signed", "V.C14.state_response_signed_and_allowed", "V.C14.state_response_dropped_why", "V.C14.composedOracles_addIdem", "V.C14.state_response_fails_iff", "V.C14.state_response_exact", "V.C14.state_response_sound", "V.C14.send_join_accept_iff", "V.C14.retry_terminates", "V.C14.checkAllowed_terminates", "V.C14.at_state_iff", "V.C14.slotClash_of_allState", "V.C14.auth_chain_iff", "V.C14.auth_chain_iff_table", "V.C14.auth_chain_iff_capped", "V.C14.atStateCited_eq", "V.FedCheck.tableProvider_tableLike", "V.FedCheck.capProvider_tableLike", "V.FedCheck.loopAE_calls", "V.C14.load_classification", "V.C14.collect_mem", "V.C14.collect_no_panic", "V.C14.padd_idem", "V.C14.authOracles_addIdem", "V.C14.authOraclesBy_addIdem", "V.C14.backfill_sound", "V.C14.tableProvider_provOK", "V.FedCheck.retryAE_eq_stepC", "V.FedCheck.checkAllowed_contract", "V.FedCheck.verifyEventAuthChain_log", "V.FedCheck.chainStep_post"],
    "rule": "fedcheck: /state and /send_join responses, auth chains, state-at-event checks, LoadAndVerify inputs and backfill transactions built "
            "from generated rooms (create, power levels, join rules, 3-6 members, re-joins, topic changes, messages; events carry proper auth_events "
            "chosen as StateNeededForAuth would, prev_events chains, valid content hashes and are read back through NewEventFromUntrustedJSON) for "
            "every room version except the pseudo-ID one, x 0-3 faults per op drawn from {bad signature, refused by its auth events (three kinds), "
            "auth event missing from the response, event of another room, non-state event in a list, duplicate (type,state_key), malformed raw JSON, "
            "too-large-but-persistable event, content tampered after hashing (same ID, read back redacted), references to unknown IDs, repeated PDU, "
            "cyclic / self references (v1, v2)} x provider behaviours {nil, empty, returns the event, nothing, error, ANOTHER event, event plus an "
            "extra one, a non-state event, mixtures} x StateProvider behaviours {true state, an auth event missing from the IDs (slow path), empty, "
            "state that refuses the event, non-state event in the state, a returned \"state\" holding SEVERAL events for one (type, state_key) -- the "
            "superseded power levels / membership next to the current one, `dupslot` --, ID lookup error, state lookup error} x allowValidation "
            "(every atstate op evaluates VerifyAuthRulesAtState 3 times, 96 times when the scripted state has such a clash, and reports "
            "`unstable:<answers>` unless all runs agree: the verdict must not depend on Go's map iteration order; directed: every room version x "
            "the six omit scenarios with the clash added); "
            "systematically (every room version x allowValidation): events whose auth_events LEAVE OUT the state event that decides -- a "
            "message without the power levels that raise events_default, a topic change without them, a join without the (public) join "
            "rules, a message without the sender's membership, a banned user's join without the ban, and a control; "
            "provider scripts with `max=<k>` (k = 0..3): AT MOST k events per call, so that batch answers differ from the single-ID answers "
            "and what a batch leaves out reaches the lookup table through the retry of checkAllowedByAuthEvents (random chains, and every "
            "refused-citation-free-event chain with k = 1, 2, also through LoadAndVerify and RequestBackfill). Compared: returned ID "
            "lists (in order for state / send_join, sorted for load / backfill), error class, []EventLoadResult classes, sorted provider call log, "
            "termination (a scripted provider called more than 400 times is reported as `panic:nontermination`). Systematically, every tier: "
            "(a) room versions 1 and 2, where the event ID is a member of the event: responses carrying two DIFFERENT events under one event ID "
            "-- the genuine one and a twin whose signature fails / that is verified but refused by the auth rules (same or another "
            "(type, state_key)) -- x 4 placements (genuine in auth_events and twin in state_events, the reverse, both in auth_events in either "
            "order) for /state and /send_join; returned EVENTS are identified by ID and content, the scripted signature oracle is per redacted "
            "JSON (argument `sigcls`, checked against the library's redaction); (a') EVERY room version: the same event twice, once with its "
            "signature replaced (same event ID: the reference hash does not cover signatures) x the 4 placements -- exactly the copy whose "
            "signature fails is dropped; (b) every room version: auth chains in which a FETCHED auth "
            "event cites no auth events and is refused (an outsider's join / power levels / second create citing nothing, one or two levels "
            "below the event to verify, and as the event itself) against a contract-abiding provider, through VerifyEventAuthChain, "
            "LoadAndVerify and RequestBackfill. spec stream: VModel.FedCheckSpec (filters by `good` PER EVENT, accept-iff, chain closure "
            "over every event the provider hands out, allowed-by-the-WHOLE-state-before-the-event, first-failing-check classes) wherever the "
            "provider script abides by the contract ON THE IDS THAT CAN BE ASKED FOR (the auth event IDs of the events in play and, "
            "recursively, of the events the script holds for them; entries for other IDs are never consulted; a `max=<k>` provider with "
            "k >= 1 abides by it when the events it holds for those IDs are state events); `unspecified` otherwise; atstate ops whose "
            "returned state holds two events in one (type, state_key) slot are skipped (the Go map's iteration order decides). backfill_props: the driver evaluates on the implementation's answer that every returned "
            "event is a cleanly parsed PDU of some server's answer, fails its signature check or passes auth chain and state-at-event "
            "check, and that no event ID is returned twice. non-trivial = an op whose outcome is not a plain malformed-response error",
    "nontrivial": lambda op, impl: impl != "err:malformed",
    "trusted": COMMON_TRUSTED + [
        "NewEventFromUntrustedJSON's verdict per raw message (ok / persistable / rejected) is an oracle (C04): the harness checks the class it declares against the library before each op",
        "ReverseTopologicalOrdering is an oracle (given: modelled under C10/C11): the harness passes what it returned for the parsed events",
        "VerifyEventSignatures(e, keyRing) == nil is the oracle sigOk: a scripted JSONVerifier keyed by the redacted event; Allowed is the oracle allowedBy, instantiated in the driver with VModel.Auth.allowedFresh (C07/C09)",
    ],
    "assumptions": [
        "the context is never cancelled",
        "the EventProvider is stateless (answers as a function of the requested IDs); the model of VerifyEventAuthChain reads the events the provider handed out during checkAllowedByAuthEvents off the requests made (`handedOut`)",
        "VerifyAuthRulesAtState adds the returned state to the AuthEvents provider in the iteration order of a Go map: the model takes the order of the scripted list; for a state (one event per (type, state_key)) every order yields a provider that answers every lookup alike; a returned 'state' containing an event without a state key, or (second audit, X2) two DIFFERENT events for one (type, state_key), is refused (model, code and specification: V.C14.at_state_iff with Spec.formsState) -- before that repair the survivor of the map iteration decided and the driver skipped those ops",
        "the exactness theorems about CheckStateResponse / CheckSendJoinResponse assume the provider contract ProvOK (single-ID requests are answered with an error, nothing, or exactly the requested event); auth_chain_iff assumes TableLike: the provider answers from a table of events keyed by their own IDs, single-ID requests exactly, batch requests possibly LEAVING EVENTS OUT (auth_chain_iff_capped: at most k+1 events per call) -- except events without a state key, which the code treats differently in a batch (AddEvent error) and in a retry (ignored); termination of checkAllowedByAuthEvents needs no contract (retry_terminates, checkAllowed_terminates; fixed finding 778c3d3). Ops whose provider answers with OTHER events stay in the stream as regression guards: the scripted provider gives up after 400 calls and the harness reports `panic:nontermination`, always a concrete violation",
        "auth_chain_iff is stated for runs that finish within the model's fuel (a bound on the loop's iterations is not proved)",
        "RequestBackfill deliberately passes on events that fail the signature check -- which, classification being by the first failing check, were never auth-checked (collect_mem, backfill_sound); C14's statement does not name RequestBackfill: the spec stream of backfill_props reads its title for it with exactly that exception",
    ],
}
