from props_common import COMMON_TRUSTED

CONFIG = {
    # ctx: the power levels in force are what the REUSED checker caches between checks (allowerContext.update); its
    # sequences (power-levels event present / absent / present again, swapped for another event with the same ID, ...)
    # check events - power-levels events among them - against the cached content (seeded change C08-r4m1)
    "areas": ["auth", "ctx"],
    "op_filter": {"ctx": ["ctx.seq"]},
    "lean": ["VProps.C08"],
    "sources": ["VProps/C08.lean", "VModel/Auth.lean", "VModel/AuthSpec.lean", "VModel/AuthRules.lean", "VProofs/AuthRulesBase.lean",
                "VModel/Event.lean", "VModel/GoJson.lean"],
    "theorems": [
        "V.C08.checks_imply_no_escalation", "V.C08.accepted_notifications", "V.C08.accepted_pl_no_escalation",
        "V.C08.v12_no_creator_in_users", "V.C08.integer_only_levels", "V.C08.pl_columns_eq_spec",
        "V.C08.ceiling_step", "V.C08.history_ceiling", "V.C08.accepted_history", "V.C08.accepted_pl_notifications",
        "V.C08.integer_only_levels_spelled", "V.C08.accepted_pl_integer",
    ],
    "rule": "random room states (create / power_levels / join_rules / members, 16 versions) x event under test; for C08 the "
            "power-level events are old-content mutations at sender level -1/0/+1 incl. removals, string/float/junk levels, a JSON null "
            "in place of a level / of a map of levels / of a map value, and version-12 creators (privileged, unlisted) changing any level; "
            "non-trivial = a power_levels event; the spec stream evaluates NoEscalation on every event the implementation accepts AND "
            "demands rejection of every version-10+ content that fails the independent integer-only predicate (AuthRules.integerContent); "
            "the witnesses of the round-4 defects A1 / A2 are corpus/C08/auth.ops; ctx.seq (as C09): one reused checker whose cached power "
            "levels are refreshed between checks (event present / absent / present again; another event with the same ID), spec = the "
            "standalone Allowed on the events the provider holds now",
    "nontrivial": lambda op, impl: "6d2e726f6f6d2e706f7765725f6c6576656c73" in op.split("\t")[3],   # auth.allowed: the event; ctx.seq: the events
    "trusted": COMMON_TRUSTED + ["encoding/json struct decoding modelled by VModel.GoJson"],
    "assumptions": ["user levels are the explicit entries of `users` (a change of users_default is judged as a threshold change)",
                    "effective values with defaults substituted (DESIGN.md 6.1 D3/D4): a per-event-type entry is compared through the "
                    "effective level of that type for a NON-state event (entry, else events_default) on both sides, so ADDING an entry for a "
                    "state event type whose threshold in force was state_default above the sender's level is accepted when the new entry and "
                    "events_default are within the sender's level (audit item A7; Matrix rule 10.7 and Synapse accept it too)",
                    "notification levels: old value >= the sender's level is refused (D11: spec >); the sender's level is the privileged level "
                    "(version 12: creators at 2^53), as for every other comparison - the former reading `from the old content` hid defect A1"],
}
