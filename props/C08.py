from props_common import COMMON_TRUSTED

CONFIG = {
    "areas": ["auth"],
    "lean": ["VProps.C08"],
    "sources": ["VProps/C08.lean", "VModel/Auth.lean", "VModel/AuthSpec.lean", "VModel/Event.lean", "VModel/GoJson.lean"],
    "theorems": [
        "V.C08.checks_imply_no_escalation", "V.C08.accepted_notifications", "V.C08.accepted_pl_no_escalation",
        "V.C08.v12_no_creator_in_users", "V.C08.integer_only_levels", "V.C08.pl_columns_eq_spec",
        "V.C08.ceiling_step", "V.C08.history_ceiling", "V.C08.accepted_history", "V.C08.accepted_pl_notifications",
    ],
    "rule": "random room states (create / power_levels / join_rules / members, 16 versions) x event under test; for C08 the "
            "power-level events are old-content mutations at sender level -1/0/+1 incl. removals, string/float/junk levels; "
            "non-trivial = a power_levels event; the spec stream evaluates NoEscalation on every event the implementation accepts",
    "nontrivial": lambda op, impl: "6d2e726f6f6d2e706f7765725f6c6576656c73" in op.split("\t")[3],
    "trusted": COMMON_TRUSTED + ["encoding/json struct decoding modelled by VModel.GoJson"],
    "assumptions": ["user levels are the explicit entries of `users` (a change of users_default is judged as a threshold change)",
                    "effective values with defaults substituted (DESIGN.md 6.1 D3/D4); notification sender level read from the old content (D11)"],
}
