from props_common import COMMON_TRUSTED

CONFIG = {
    "areas": ["conc"],
    "lean": ["VProofs.ConcDnsReplay", "VProofs.ConcDnsClient", "VProps.C19"],
    "sources": ["VProofs/ConcDnsReplay.lean", "VProofs/ConcDnsClient.lean", "VProps/C19.lean", "VProofs/ConcDns.lean", "VProofs/ConcFetch.lean", "VModel/ConcDns.lean", "VModel/ConcFetch.lean",
                "VModel/ConcVerify.lean", "VProofs/ConcVerify.lean", "VModel/KeyRing.lean", "VProofs/KeyRing.lean"],
    "theorems": ["V.C19Replay.dnsReplayBoth_fst", "V.C19Replay.dnsReplayBoth_line", "V.C19Replay.dnsReplayBoth_clientReach", "V.C19Replay.dnsReplayStates_clientReach", "V.C19Replay.dnsModel_eq", "V.C19Replay.dnsModel_lines", "V.C19Replay.dnsModel_states_clientReach", "V.C19Replay.dnsModel_states_bounded", "V.C19Replay.dnsModel_allStates_bounded", "V.C19Client.step_extendTodo", "V.C19Client.run_extendTodo", "V.C19Client.reachable_extendTodo", "V.C19Client.todo_suffix", "V.C19Client.inject_reachable", "V.C19Client.clientReach_reachable", "V.C19Client.size_bounded_with_injections", "V.C19Client.no_dup_keys_with_injections", "V.C19Client.right_host_with_injections", "V.C19Client.clientReach_poke", 
        "V.C19.dns_size_bounded", "V.C19.dns_no_dup_keys", "V.C19.dns_no_stale_served", "V.C19.dns_right_host",
        "V.C19.linearizable_lookup_partial", "V.C19.dns_mutex_owner", "V.C19.dns_lockset_discipline", "V.C19.dns_no_deadlock", "V.C19.dns_evict_terminates", "V.C19.dns_lookup_terminates", "V.C19.dns_disabled_of_size_le_zero",
        "V.C19.dns_expiry_bounded", "V.C19.dns_evict_spins_of_size_le_zero", "V.C19.dns_evict_spins_while_clock_frozen",
        "V.C19.fetch_union", "V.C19.fetch_spec_map", "V.C19.fetch_no_deadlock", "V.C19.fetch_terminates",
        "V.C19.fetch_waitgroup_exact", "V.C19.fetch_lockset_discipline",
        "V.C19.fetch_callers_independent", "V.C19.fetch_live_caller_gets_union", "V.C19.fetch_live_caller_no_deadlock",
        "V.C19.transport_get_spec", "V.C19.transport_reap_spec", "V.C19.transport_run_total",
        "V.C19.transport_no_dup", "V.C19.transport_lockset_discipline", "V.C19.event_accessors_read_only", "V.C19.event_id_same_for_all",
        "V.C19.sync_skeleton_dns_lookup", "V.C19.sync_skeleton_dns_dialcontext", "V.C19.sync_skeleton_transport",
        "V.C19.sync_skeleton_fetchkeys", "V.C19.sync_skeleton_eventid",
        "V.C19.verify_store_only_fetched", "V.C19.verify_entry_after_move", "V.C19.verify_no_lost_update", "V.C19.verify_db_initial_or_world",
        "V.C19.verify_serializable_one_writer", "V.C19.verify_silent_of_failing_fetchers", "V.C19.verify_interleaving_is_sequential",
        "V.C19.verify_progress",
    ],
    "rule": "ONE op = one whole concurrent scenario + schedule, run on the real code with the interleaving controlled at "
            "atomic-region granularity (scripted resolver / key client block each goroutine in its unlocked call until released). "
            "conc.dns: k<=3 goroutines x op lists (lookup, lookup with failing resolver, delete) over <=3 host names, cap 1-3, "
            "duration 1h / -1s (/ 500ms with real sleeps in thorough); thorough enumerates ALL schedules for 2 goroutines x lists<=2 "
            "and 3 goroutines x 1 op, quick samples them by seed. conc.fetch: 1-4 servers (good / several keys / error / unsigned / "
            "partly signed / valid_until 0 / no ed25519 key / wrong server_name / local; notary fallback variants), all release orders "
            "for k<=3; conc.fetchbig: 84-93 servers (the 64-worker queue is used). conc.fetch2: TWO concurrent FetchKeys calls on one "
            "DirectKeyFetcher over the same 1-3 servers, each caller with its own context; the plan interleaves the two starts, the "
            "releases of each caller's client calls and (70%) the cancellation of one caller's context — half of them right after both "
            "callers have their requests in flight, i.e. before the remote answers; the scripted client tells the callers apart by a "
            "context value and lets a cancelled call return the context's error; the specification demands the sequential union for "
            "every caller whose own context stays live (fixed plans ABx, ABy, AxB, ABpx, … on a single answering server always run). "
            "conc.transport (needs the hook VerifTripper of fclient/export_verif.go; without it no op is generated): scripts of 2-10 "
            "moves over 3 TLS server names: getTransport, `idle for 2 x lifetime` / `idle for lifetime - 1 min` (lastUsed moved back), "
            "one reaper pass; every move runs under a 4 s timeout, the trace lists the transport returned (by identity) and the cached "
            "names after each move, `H` = the move never finished; model = Transport.trun, specification = every move finishes, a hit "
            "returns the cached transport, a miss a fresh one, a reaper pass removes exactly the idle transports. "
            "conc.verify2: 2-3 concurrent KeyRing.VerifyJSONs calls on ONE key ring with ONE shared key database (a map behind a mutex) and a "
            "scripted fetcher that tells the callers apart by a context value; every call is stopped before each of the three calls that "
            "leave the key ring (database read, fetcher, database store) and the schedule says which caller runs to its next barrier: "
            "1-2 servers, database / world entries absent | right key | other key x fresh | past validity | expired, per caller the fetch "
            "fails / answers the world / answers nothing, 1-2 requests (before / after the stale validity, strict / lenient); ALL 70 "
            "interleavings of two callers' moves (plus a third caller afterwards) for four fixed configurations around the audit's scenario "
            "(stale database entry, one failing and one answering fetch) on every run, seeded sample of the rest, thorough enumerates one "
            "server x every database / world entry x fetch behaviour and all 1680 schedules of three overlapping callers; outcome = trace + "
            "each caller's verdicts + final database; model = Verify.poke move by move; specification = the outcomes of the sequential "
            "orders compatible with real time (a caller that returned before another started stays in front), computed with the sequential "
            "model of C12: the whole outcome must be one of them where at most one caller's fetcher answers (verify_serializable_one_writer), "
            "each caller's verdicts and the final database must each be those of one of them where several answer. conc.race_*: unscripted stress under the race detector "
            "(thorough). An op is non-trivial when its trace has >= 4 moves; distinct by op line",
    "nontrivial": lambda op, impl: impl.count("|") >= 3 or impl.count("#") >= 1 and len(impl) > 8 or impl in ("clean", "race-detected"),
    "trusted": COMMON_TRUSTED + [
        "tools/extract/conc.go prints the synchronisation skeleton (Lock/Unlock/WaitGroup/close/oracle calls, loop and size/expiry conditions) of lookup, DialContext, getTransport, reaper, FetchKeys, EventID into VGen/Conc.lean; sync_skeleton_* re-check them against what the models mirror",
        "the Go scheduler, runtime (mutex, channel, WaitGroup semantics: modelled as atomic lock/unlock, atomic receive from a closed buffered channel, counter) and time.Now (monotonic, modelled as a non-decreasing parameter)",
        "the atomic-region granularity of the model (one step = lock..unlock region / channel receive / unlocked oracle call) is tied to the code only by the schedule-for-schedule correspondence",
        "race detector runs (conc.race_*) are supporting evidence, not proof",
    ],
    "assumptions": [
        "PARTIAL: the proof is over the interleaving model at atomic-region granularity; the Go memory model (torn reads, compiler/CPU reordering), the real scheduler and timers cannot be exhibited by the model",
        "size <= 0: the cache is disabled (/repo bcd0619), dns_size_bounded and dns_lookup_terminates hold for every size; dns_evict_spins_of_size_le_zero is kept as a lemma about the loop (why the guard is needed), ops conc.dns_size0 are the regression guard",
        "termination of the eviction loop needs a clock read strictly later than the stored entries' timestamps (true of a real monotonic clock after at most one tick; dns_evict_spins_while_clock_frozen shows the hypothesis is needed)",
        "dns_right_host assumes the resolver's successful answers are a function of the host name",
        "event accessors: EventIDRaw is written only during construction (populateEventID, /repo 69aec98) and read-only afterwards (event_accessors_read_only); that the OTHER accessors of a parsed event do not write is checked by reading + the race-detector ops conc.race_eventid / conc.race_event_readonly, not modelled field by field",
        "linearizable_lookup_partial: every result is one the sequential specification of its own op allows (right addresses; failure only if that lookup's own resolver call failed); the cached/not-cached flag and the map contents are not claimed to match one sequential execution (two concurrent misses of a name both resolve)",
        "destinationTripper.getTransport / reaper: modelled (one locked region each: transport_no_dup, transport_get_spec, transport_reap_spec), compared with the real code move by move through time (conc.transport: sequences of getTransport / idle periods / reaper passes, each call under a timeout) and stress-tested under the race detector; interleavings INSIDE a region are not enumerated (a region is one critical section of transportsMutex); RoundTrip itself needs TLS connections and is not driven",
        "conc.fetch2: a caller whose context is cancelled gets whatever its finished requests brought (the specification only demands that it holds no entry no server gave); the claim 'sequential result' is made for callers whose own context stays live",
        "the KeyDatabase given to a KeyRing is the caller's and must be thread-safe on its own; conc.verify2 / VModel.ConcVerify take it to be a map "
        "whose FetchKeys (entries of the requested keys) and StoreKeys (entry-wise overwrite) are each atomic",
        "KeyRing.VerifyJSONs under concurrency: proved for every number of callers and every schedule — a store writes only entries its own "
        "caller fetched (verify_store_only_fetched), an entry of the one remote world is never replaced once stored (verify_no_lost_update), "
        "and where at most one caller ever has something to store every interleaving is a sequential execution, results and database "
        "(verify_serializable_one_writer / verify_interleaving_is_sequential; the order found is also compatible with real time, which the "
        "theorem does not state). PARTIAL where several callers' fetchers answer: two callers that both read the database before either "
        "stores each behave as if they were first (both fetch; requests that passed on the stale entries stay passed), which no single "
        "sequential order reproduces when the remote answer is WORSE for some request than the stale entry was; there the specification "
        "stream demands each caller's verdicts and the final database separately to be sequential ones (checked by enumeration, not proved)",
    ],
}
