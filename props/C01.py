from props_common import COMMON_TRUSTED

CONFIG = {
    "areas": ["json"],
    "lean": ["VProps.C01"],
    "sources": ["VProps/C01.lean", "VProofs/Order.lean", "VProofs/Sort.lean", "VModel/Json.lean",
                "VProofs/JsonFuel.lean", "VProofs/JsonBytes.lean", "VProofs/JsonStr.lean", "VProofs/JsonNum.lean",
                "VProofs/JsonNumCompact.lean", "VProofs/JsonCompact.lean", "VProofs/JsonParseStr.lean",
                "VProofs/JsonParse.lean", "VProofs/JsonSortEmit.lean", "VProofs/JsonParsed.lean",
                "VProofs/JsonCanon.lean", "VProofs/JsonClosure.lean"],
    "theorems": [
        "V.C01.canon_member_order_irrelevant", "V.C01.canon_keys_strictly_sorted", "V.C01.negzero_is_zero",
        "V.C01.other_literals_kept", "V.C01.numOk_sound", "V.C01.enforced_rejects_leaf", "V.C01.enforced_versions",
        "V.C01.canonical_eq_spec_general", "V.C01.canonical_eq_spec", "V.C01.canonical_eq_canonicalSpec",
        "V.C01.canonical_rejects_invalid", "V.C01.canonical_unique", "V.C01.canonical_unique_conv",
        "V.C01.canonical_output_valid", "V.C01.canonical_idem", "V.C01.encodeCanon_injective",
        "V.C01.enforced_rejects", "V.C01.enforced_iff", "V.C01.canonical_of_rendering",
    ],
    "rule": "type-directed JSON values (depth<=5, keys needing escapes, non-BMP, integer boundaries, fractions/exponents/-0) x "
            "random presentations (whitespace, member order, escape spellings) + malformed stream; an op is non-trivial when "
            "the text is not a bare scalar; distinct by op line",
    "nontrivial": lambda op, impl: len(op) > 40,
    "trusted": COMMON_TRUSTED + ["gjson.Valid / gjson parse modelled by VModel.Json.parse (validated by correspondence)"],
    "assumptions": ["texts with duplicate keys, invalid UTF-8 or lone surrogates are outside C01's quantifier (compared impl vs model only); "
                    "the proofs need only 'no lone surrogate escape' (V.C01.canonical_eq_spec_general): a lone \\uD800 is dropped by CompactJSON but decoded as U+FFFD by gjson"],
}
# statement-by-statement translation of small pure Go functions (tools/extract/trans.go -> lean/VGen/TransJson.lean) and the
# theorems that the translated definitions equal the model's, for all inputs (lean/VProps/TransJson.lean)
CONFIG["lean"] = list(CONFIG["lean"]) + ["VProps.TransJson"]
CONFIG["sources"] = list(CONFIG["sources"]) + ['VProps/TransJson.lean', 'VProofs/TransHex.lean', 'VProofs/TransHex/Defs.lean', 'VModel/GoSem.lean']
CONFIG["theorems"] = list(CONFIG["theorems"]) + ['V.Trans.Json.isNegativeZeroLiteral_eq_model', 'V.Trans.Json.readHexDigits_correct', 'V.Trans.Json.readHexDigits_total']
CONFIG["trusted"] = list(CONFIG["trusted"]) + ["tools/extract/trans.go: the Go-to-Lean translation of the whitelisted functions and the Go semantics of lean/VModel/GoSem.lean (DESIGN.md §14)"]
