from props_common import COMMON_TRUSTED

CONFIG = {
    "areas": ["json"],
    "lean": ["VProps.C01"],
    "sources": ["VProps/C01.lean", "VProofs/Order.lean", "VProofs/Sort.lean", "VModel/Json.lean"],
    "theorems": [
        "V.C01.canon_member_order_irrelevant", "V.C01.canon_keys_strictly_sorted", "V.C01.negzero_is_zero",
        "V.C01.other_literals_kept", "V.C01.numOk_sound", "V.C01.enforced_rejects_leaf", "V.C01.enforced_versions",
    ],
    "rule": "type-directed JSON values (depth<=5, keys needing escapes, non-BMP, integer boundaries, fractions/exponents/-0) x "
            "random presentations (whitespace, member order, escape spellings) + malformed stream; an op is non-trivial when "
            "the text is not a bare scalar; distinct by op line",
    "nontrivial": lambda op, impl: len(op) > 40,
    "trusted": COMMON_TRUSTED + ["gjson.Valid / gjson parse modelled by VModel.Json.parse (validated by correspondence)"],
    "assumptions": ["texts with duplicate keys, invalid UTF-8 or lone surrogates are outside C01's quantifier (compared impl vs model only)"],
}
