from props_common import COMMON_TRUSTED

CONFIG = {
    "areas": ["stateres"],
    "lean": ["VProps.C10"],
    "sources": ["VProps/C10.lean", "VModel/StateRes.lean", "VModel/StateResSpec.lean", "VModel/StateResSpecExec.lean", "VModel/Auth.lean", "VModel/Event.lean", "VProofs/StateResBasic.lean", "VProofs/StateResSort.lean", "VProofs/StateResSpecOrder.lean", "VProofs/StateResSpecClosure.lean", "VProofs/StateResSpecSplit.lean", "VProofs/StateResSpecAuthDiff.lean", "VProofs/StateResSpecControl.lean", "VProofs/StateResSpecKahn.lean", "VProofs/StateResSpecKahn2.lean", "VProofs/StateResSpecMainline.lean", "VProofs/StateResSpecState.lean", "VProofs/StateResSpecResolve.lean", "VProofs/StateResSpecUnique.lean", "VProofs/StateResSpecExample.lean", "VProofs/StateResSpecV1.lean", "VProofs/StateResSpecV1b.lean", "VProofs/StateResSpecExecSets.lean", "VProofs/StateResSpecExecSets2.lean", "VProofs/StateResSpecExecOrder.lean", "VProofs/StateResSpecExecOrder2.lean", "VProofs/StateResSpecExecResolve.lean", "VProofs/StateResSpecExecV1.lean", "VProofs/StateResSpecV1c.lean", "VProofs/AuthLookup.lean", "VProofs/StateResV1.lean", "VProofs/StateResV1b.lean", "VProofs/StateResV1c.lean", "VProofs/StateResV1d.lean", "VProofs/StateResV1e.lean", "VProofs/StateResV1f.lean", "VProofs/StateResGroup.lean"],
    "theorems": ["V.C10.stateres_column_eq_spec", "V.C10.entrypoint_selects", "V.C10.authClosure_iff_reachable", "V.C10.controlClosure_iff", "V.C10.split_eq_spec", "V.C10.split_v1_eq_spec", "V.C10.authDifference_eq_spec", "V.C10.subgraph_eq_spec", "V.C10.authDifference21_eq_spec", "V.C10.controlSet_eq_spec", "V.C10.otherSet_eq_spec", "V.C10.powerOrder_unique", "V.C10.kahn_is_power_order", "V.C10.reverseTopoAuth_is_power_order", "V.C10.mainline_eq_spec", "V.C10.mainline_unique", "V.C10.mainline_normal_case", "V.C10.mainlinePos_eq_spec", "V.C10.posSteps_eq_spec", "V.C10.posSteps_normal_case", "V.C10.mainlineOrdering_eq_spec", "V.C10.mainlineOrdering_unique", "V.C10.iterativeAuth_eq_fold", "V.C10.iterativeAuth_eq_spec", "V.C10.resolveV2_eq_spec", "V.C10.resolveV2_1_eq_spec", "V.C10.resolves_unique", "V.C10.v1Order_eq_spec", "V.C10.v1Order_unique", "V.C10.resolveV1_eq_spec", "V.C10.resolveV1_unique", "V.C10.v1_result_independent_of_block_order", "V.C10.entrypoint_eq_spec", "V.C10.execSpec_resolves", "V.C10.execSpec_eq_model", "V.C10.execSpecV1_resolves", "V.C10.execSpecV1_eq_model"],
    "rule": "room-history generator: simulated servers build a DAG (create, joins/leaves/invites/bans/kicks, power-level changes incl. "
            "demotions, join-rule changes, other state) with up to 4 forks, equal timestamps, mostly auth-valid events plus some rejected ones; "
            "2-4 state sets at branch tips; versions 1, 2-11 sample, 12/hydra; full auth closure as auth events (one per key for version 1); "
            "30% of the histories also carry state events whose TYPE is that of a control event (create / power_levels / join_rules) under a "
            "NON-EMPTY state key (ordinary state, resolved slot by slot); the specification stream is the executable rendering of the definition "
            "for all three algorithms (version 1: Exec.v1Result); resolve_twice: history A resolved around a history B that re-uses A's event IDs "
            "with other power-level contents (room versions 1-2), answers compared with the definition's; resolve_cyc: room-version 1 / 2 histories "
            "with CYCLIC auth_events run in a child process (outside the definition: no specification answer, a panic / hang is a violation); "
            "non-trivial = an op whose state sets differ",
    "nontrivial": lambda op, impl: len(set(op.split("\t")[2].split("|"))) > 1 if len(op.split("\t")) > 2 else False,
    "trusted": COMMON_TRUSTED + ["SHA-1 of event IDs (v1 tie-break) supplied as an oracle by the harness"],
    "assumptions": ["inputs are well-formed: each state set has one event per key; missing auth events are silently skipped (by the code and by the definition)",
                    "the definition (C10) speaks about room DAGs: the stage theorems assume an acyclic auth graph (Ranked / Acyclic); for cyclic auth_events (possible in room versions 1-2) "
                    "only termination and well-formedness are claimed (C18 no_panic_resolve, C11 result theorems), and the model mirrors the code's cycle guards (fix 0d78b57)",
                    "the library's refinements R1-R10 of DESIGN.md 6.2 are part of the definition"],
}
# statement-by-statement translation of small pure Go functions (tools/extract/trans.go -> lean/VGen/TransStateRes.lean) and the
# theorems that the translated definitions equal the model's, for all inputs (lean/VProps/TransStateRes.lean)
CONFIG["lean"] = list(CONFIG["lean"]) + ["VProps.TransStateRes"]
CONFIG["sources"] = list(CONFIG["sources"]) + ['VProps/TransStateRes.lean', 'VModel/GoSem.lean']
CONFIG["theorems"] = list(CONFIG["theorems"]) + ['V.Trans.StateRes.powerLevelHeap_lt_eq_model', 'V.Trans.StateRes.powerLevelHeap_zero_iff', 'V.Trans.StateRes.otherHeap_lt_eq_model', 'V.Trans.StateRes.powerLevelHeap_strict_total', 'V.Trans.StateRes.v1Less_eq_model']
CONFIG["trusted"] = list(CONFIG["trusted"]) + ["tools/extract/trans.go: the Go-to-Lean translation of the whitelisted functions and the Go semantics of lean/VModel/GoSem.lean (DESIGN.md §14)"]
