from props_common import COMMON_TRUSTED

_SOURCE = [
    "V.C12.consts_match_model",
    "V.C12.wasValidAt_source",
    "V.C12.strictValidity_source",
    "V.C12.noStrictValidity_source",
    "V.C12.timestamp_source",
    "V.C12.asTimestamp_source",
    "V.C12.verifyJSONs_source",
    "V.C12.publicKeyRequests_source",
    "V.C12.checkUsingKeys_source",
    "V.C12.isAlgorithmSupported_source",
    "V.C12.verifyJSON_length_guard",
    "V.C12.checkKeys_source",
    "V.C12.checkVerifyKeys_source",
    "V.C12.publicKey_source",
    "V.C12.mapServerKeys_source",
    "V.C12.fetchKeysForServer_source",
    "V.C12.fetchNotaryKeysForServer_source",
    "V.C12.perspectiveFetchKeys_source",
    "V.C12.results_shape",
    "V.C12.results_index",
    "V.C12.success_sound",
    "V.C12.success_sound_spec",
    "V.C12.wasValidAt_spec",
    "V.C12.strict_within_validity",
    "V.C12.success_complete",
    "V.C12.fetch_minimal",
    "V.C12.stores_fetched",
    "V.C12.stores_only_fetched",
    "V.C12.stores_only_fetched_spec",
    "V.C12.stores_nothing_without_answers",
    "V.C12.checkKeys_spec",
    "V.C12.publicKey_valid",
    "V.C12.publicKey_spec",
    "V.C12.publicKey_answer",
    "V.C12.checkKeys_keys",
    "V.C12.fetcher_accepts_iff",
    "V.C12.direct_accepts",
    "V.C12.notaryValid_true",
    "V.C12.perspective_accepts",
    "V.C12.stale_db_key_replaced",
    "V.C12.past_valid_until_accepted",
]

CONFIG = {
    "areas": ["keyring"],
    "lean": ["VProps.C12"],
    "sources": ["VProps/C12.lean", "VModel/KeyRing.lean", "VProofs/KeyRing.lean"],
    "theorems": _SOURCE,
    "rule": "batches of 0-4 requests (3 servers, duplicate (server,key) across requests, 1-3 key IDs per message, unsupported algorithms, "
            "unsigned / malformed messages, good / foreign / random / short / non-string signatures made with real ed25519 + SignJSON) x "
            "database script (error, empty, full, partial, mixed: good / wrong key / wrong length / expired / stale / fresh / no validity, "
            "unrequested extras) x 0-3 fetcher scripts (same menu) x store failure (the specification stream judges what StoreKeys is "
            "called with in both directions: every requested entry a consulted fetcher answered is in it, and every entry in it is an entry "
            "of a consulted fetcher's answer — an entry only READ from the database must not be written back) x request timestamps on every boundary of the key's "
            "validity profile (expired_ts-1/=/+1, valid_until_ts-1/=/+1 exact; now and now+7d with 10 min margins) x strict/lenient; "
            "request timestamps and valid_until_ts at 2^63-1 / 2^63 / 2^64-1 (spec.Timestamp is unsigned); "
            "plus WasValidAt boundaries (the same huge values for at_ts / valid_until_ts / expired_ts), CheckKeys / PublicKey on crafted key "
            "responses (exact boundaries of valid_until_ts / expired_ts; PublicKey judged by a specification column: current key iff "
            "at <= valid_until_ts, old key iff at < expired_ts, old-key boundary expired_ts-1/=/+1 generated), "
            "DirectKeyFetcher (direct answer, notary fallback) and PerspectiveKeyFetcher (notary signature known / unknown / wrong) on "
            "scripted KeyClients; non-trivial = a key was needed (the database was asked) or a key-response op; distinct by op line",
    "nontrivial": lambda op, impl: not op.startswith("keyring.verify_jsons") or "|db:none" not in impl,
    "trusted": COMMON_TRUSTED + [
        "crypto/ed25519 and the JSON layer of VerifyJSON / ListKeyIDs: abstracted per signature to `reaches` + `verifies key`; the harness "
        "annotates messages by construction and cross-checks every annotation against the real VerifyJSON",
        "encoding/json decoding of ServerKeys (the harness reports decodability)",
        "DirectKeyFetcher's worker pool (64 goroutines over servers) is modelled for one server at a time (concurrency is C19's)",
        "Go map iteration order: the model is order-insensitive (proved for the result: `checkSigs_eq_any`)",
    ],
    "assumptions": [
        "timestamps are unsigned 64-bit millisecond counts; the validity arithmetic of the key ring is modelled and proved over all "
        "naturals (no 2^63 bound; generator includes 2^63-1, 2^63, 2^64-1). Remaining int64 conversion: CheckKeys' "
        "`keys.ValidUntilTS.Time().After(now)` — the model's `valid_until_ts > now` is exact for valid_until_ts below 2^63 "
        "(a response with a larger valid_until_ts is REFUSED by the code: failing safe, not generated)",
        "the clock reading plus seven days is below 2^63 ms (spec.AsTimestamp(time.Now().Add(7d)) does not wrap)",
        "one clock reading per call: the model uses a single `now`; the harness keeps every clock comparison >= 10 minutes from its boundary",
        "ValidityCheckingFunc is StrictValiditySignatureCheck or NoStrictValidityCheck (a nil function panics inside WasValidAt: caller error)",
        "the fetchers check key responses against time.Unix(0,0), not the clock: the property's 'valid_until_ts in the future' is stated "
        "by the spec stream literally (known findings direct-/perspective-fetcher-accepts-past-valid-until); CheckKeys with the instant "
        "it is given is proved (checkKeys_spec)",
        "success_complete is stated for the key the code ends up holding (database entry it keeps = expired-marked or inside validity, "
        "else first answering fetcher, else stale database entry). Forced side condition: a database key that is right and was valid at "
        "the requested time but is past its valid_until_ts NOW is re-requested, and a fetcher's different answer replaces it, so the "
        "request fails although 'the database supplies such a key' read literally (Lean: V.C12.stale_db_key_replaced; real code: corpus "
        "case 4 of corpus/C12/keyring.ops; the spec stream answers unspecified:excluded:stale-database-key-replaced-by-fetched-key there)",
        "'stores what it fetched' is read as: StoreKeys receives exactly the entries taken over from fetchers' answers (stores_fetched + "
        "stores_only_fetched), possibly none (the call is still made with an empty map); until /repo 3755557 it received every key the "
        "call held, database entries included (second audit round, defect V1; the concurrent consequence is C19's conc.verify2)",
    ],
}
# statement-by-statement translation of small pure Go functions (tools/extract/trans.go -> lean/VGen/TransKeys.lean) and the
# theorems that the translated definitions equal the model's, for all inputs (lean/VProps/TransKeys.lean)
CONFIG["lean"] = list(CONFIG["lean"]) + ["VProps.TransKeys"]
CONFIG["sources"] = list(CONFIG["sources"]) + ['VProps/TransKeys.lean', 'VModel/GoSem.lean']
CONFIG["theorems"] = list(CONFIG["theorems"]) + ['V.Trans.Keys.wasValidAt_eq_model', 'V.Trans.Keys.wasValidAt_spec']
CONFIG["trusted"] = list(CONFIG["trusted"]) + ["tools/extract/trans.go: the Go-to-Lean translation of the whitelisted functions and the Go semantics of lean/VModel/GoSem.lean (DESIGN.md §14)"]
