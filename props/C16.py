from props_common import COMMON_TRUSTED

CONFIG = {
    "areas": ["resolve", "wellknown", "cidr"],
    "lean": ["VProps.C16"],
    "sources": ["VProps/C16.lean", "VProofs/Resolve.lean", "VProofs/WellKnown.lean", "VProofs/Cidr.lean",
                "VModel/Resolve.lean", "VModel/WellKnown.lean", "VModel/Cidr.lean"],
    "theorems": [
        # regenerated facts (VGen/C16.lean, tools/extract/c16.go)
        "V.C16.gen_default_port", "V.C16.gen_srv_services", "V.C16.gen_wellknown_limits", "V.C16.gen_control_networks",
        # resolution
        "V.C16.resolve_eq_spec", "V.C16.invalid_refused", "V.C16.invalid_iff_spec", "V.C16.invalid_delegate_refused",
        "V.C16.delegated_no_second_wellknown", "V.C16.targets_nonempty_or_error", "V.C16.roundtrip_uses_only_targets", "V.C16.roundtrip_attempts_are_spec_results",
        # well-known
        "V.C16.wellknown_honoured_iff", "V.C16.wellknown_honoured_only_if", "V.C16.cache_lifetime_prefers_max_age",
        "V.C16.wellknown_names_mserver", "V.C16.decodeDoc_exact_key", "V.C16.decodeDoc_names", "V.WellKnown.maxAgeLines_eq",
        # network policy
        "V.C16.contains_iff_prefix", "V.C16.isAllowed_iff_permitted", "V.C16.control_permits_iff",
        "V.C16.policy_connections_permitted", "V.C16.listsPermit_iff_permitted", "V.Resolve.srvTargetsGo_eq",
    ],
    "rule": "resolve: server names (DNS names, IPv4 / bracketed IPv6 literals, with and without port, every invalid shape in the pools) x "
            "well-known outcome for the name (404/500/301/oversized with and without Content-Length/malformed/empty/missing/wrong type/"
            "transport error/delegation to any generated name) x a second-level document that must never be fetched x scripted SRV answers "
            "for _matrix-fed and _matrix of the name and of the delegate (NXDOMAIN, no data, SERVFAIL, lame referral, 1 record, 2-4 records "
            "sent out of priority order, the ROOT target `.` alone and among other records), through in-process stubs of http.DefaultTransport "
            "and net.DefaultResolver; "
            "policy / policy_forbidden: REAL clients (fclient.NewClient) with WithAllowDenyNetworks x {plain, WithDNSCache (cache lists = the "
            "client's / allow-everything / nil), WithWellKnownSRVLookups, both} x 10 allow / deny configurations (none, everything allowed, a "
            "/24 denied, only a /24 and ::1 allowed, every address denied, an unparsable entry before the one that matters, a /32 allowed, "
            "only ::1 denied, an IPv4-mapped /128 denied, IPv6 not allowed) x 15 server names (names with one / two addresses, upper case, "
            "address literals, IPv6 literal and a name with an IPv6 address, with and without port) x 7 well-known scripts (404, delegation to a "
            "name with port / an address literal / a name without port / an IPv6 literal, a redirect to another host's document, a redirect to "
            "a 404) against real listeners on loopback addresses (a federation server on 0.0.0.0 and on ::1, an HTTPS server on port 443 of "
            "three addresses serving /.well-known/matrix/server; fake DNS with fixed addresses); every listener records each connection it "
            "ACCEPTS; compared with the model: the set of (address, listener) a connection arrived on and whether the request was answered; "
            "policy_forbidden (spec stream): the arrivals on addresses the configured lists do not permit -- classified in the harness with "
            "net.ParseCIDR / IPNet.Contains, in the driver with Cidr.Spec.permitted -- must be none, by whatever name or path (federation "
            "request, DNS cache, well-known fetch, redirect) the address was reached; quick runs three list configurations on five names for "
            "every option plus 120 random combinations, thorough the whole product; "
            "roundtrip: a fresh fclient.Client (WithWellKnownSRVLookups) sends two requests to 13 names x delegations x SRV answers. Every host name "
            "has its own loopback address (fake DNS) and four servers listen on all of them, selected by the port: one answers, one refuses "
            "every TLS handshake, one closes the connection at once, one (flaky) drops the first K connections of a request after reading the "
            "request head and answers later ones; other ports are closed. Each server records every connection attempt as (server, NAME "
            "dialled, SNI, Host header); the trace, the outcome and the number of well-known lookups per request (resolution cache) are "
            "compared with the model. Systematically: names reached through 1-3 SRV records and through a well-known delegation (to a name "
            "with SRV records, to a name with a port, to an address literal) whose first-pass targets ALL fail once / all but one / one more "
            "/ for good (K = n-1, n, n+1, 2n), so that the retry pass of RoundTrip runs. roundtrip_props (spec stream): every recorded "
            "attempt of both requests, first pass and retry pass, must be a result of the SPECIFICATION's resolution (Resolve.Spec.resolve) "
            "of the ORIGINAL server name -- same dialled host and port, the SNI and the Host header the specification assigns to it; "
            "re-using the targets that just failed (what the code does) is allowed, the property only says where connections may go; "
            "wellknown: real HTTPS server (Content-Length / chunked) and scripted transport x status x sizes 51199..51202, 60000, 100 KiB x "
            "padding inside/after/before the document x 60 documents (m.server missing/empty/null/non-string/case-folded/duplicated, non-objects, "
            "malformed) x 50 Cache-Control values x 9 sets of TWO OR THREE Cache-Control header lines (max-age on the first, the second, none) x "
            "22 Expires values x 22 Content-Length values; spec stream: honoured only if status 200, at most 50 KiB and a member whose key is "
            "EXACTLY m.server (WellKnown.Spec.namesServer on the parsed document -- a key that merely folds to it is another key), to that "
            "name, with the lifetime from max-age on whichever Cache-Control line in preference to Expires; documents with several members "
            "named m.server are `unspecified`; "
            "cidr: allow/deny lists of 0-4 entries from 50 parsable + 45 unparsable CIDR texts + random ones (unparsable entry at every position, "
            "systematically and at random) x addresses on the first/last address of each range, one before, one after, random inside, the same "
            "low 32 bits in the other family, IPv4 / IPv4-mapped / IPv6 spellings x networks tcp4 tcp6 tcp udp unix... x 45 malformed addresses; "
            "net.ParseIP / net.ParseCIDR texts incl. single-character mutations compared with the Lean text layer. "
            "thorough adds bounded-exhaustive products: 12 names x 8 well-known outcomes x 6 x 6 SRV answers of the name x 4 x 2 of the delegate, "
            "and 12 bases x every prefix length (0..32 / 0..128) x edge addresses as allow entry and as deny entry. "
            "An op is non-trivial when it is not a bare text-parser probe; distinct by op line.",
    "nontrivial": lambda op, impl: not (op.startswith("cidr.parse") or op.startswith("resolve.validate")),
    "trusted": COMMON_TRUSTED + [
        "net.ParseIP / net.ParseCIDR (netip.ParseAddr) modelled by VModel.Cidr.parseAddr / parseCIDR; net.SplitHostPort, time.Parse are "
        "std-lib results taken as inputs; encoding/json's syntax is VModel.Json.parse, its decoding of a document into "
        "map[string]json.RawMessage and of the member m.server into a string is VModel.WellKnown.decodeDoc (of several members with that "
        "key the last; null leaves the address empty); validated by correspondence",
        "net/http (client, redirects, chunked decoding), the TLS dialer and Go's DNS resolver (ordering of SRV records by priority / weight, "
        "rejection of malformed targets) are parameters of the models (oracles), exercised by the harness but not verified",
    ],
    "assumptions": [
        "partial claim: the theorems are about the decision logic (resolution, per-target Host / SNI, retry over targets, allow / deny control, "
        "which control functions guard which dial path); that net/http then dials exactly URL.Host with the transport's TLS ServerName, that "
        "net.Dialer calls ControlContext before every connect and tries a name's addresses in order, and that http.Client sends redirects through "
        "the same transport, is std-lib behaviour exercised by the roundtrip and policy ops (real sockets) but not verified; getTransport's "
        "per-SNI transport map and the reaper are not modelled; the DNS cache is modelled here only as a dial path (resolution, then every "
        "address through the chained control functions; C19 covers its bookkeeping)",
        "policy_connections_permitted reads 'configured lists' as: the client's WithAllowDenyNetworks lists when at least one is non-empty, and "
        "the lists its DNS cache was created with when it has a cache. NOT covered by the assigned findings and left as it is: "
        "NewDNSCache(size, d, nil, nil) builds a dialer whose control function denies EVERY address (isAllowed with empty lists is false), so "
        "such a cache makes the client unable to connect at all (policy ops with cache lists `nil`: no connection, model and code agree)",
        "Spec reading: a lookup of _matrix-fed._tcp that fails for a reason other than 'not found' ends SRV discovery (the code then uses "
        "port 8448 without consulting _matrix._tcp); the Matrix text only distinguishes found / not found",
        "Spec reading: an invalid delegated m.server is refused (error), not treated as 'no well-known'",
        "resolve_eq_spec assumes only that a successful SRV lookup has at least one record (net.Resolver.LookupSRV reports 'no such host' "
        "otherwise; with zero records and no error the code would stop at port 8448 without consulting _matrix._tcp); nothing is assumed "
        "about the targets: the root `.` (which the resolver passes on) and an empty target yield no target, and the index expression "
        "target[len(target)-1] is gone (finding R8)",
        "Spec reading: an SRV record whose target is the root names no host (RFC 2782: the service is decidedly not available); when every "
        "record found is such a record resolution yields NO target and RoundTrip gives up (targets_nonempty_or_error says exactly when)",
        "Spec reading: a well-known document with several members named m.server is outside the quantifier (JSON leaves duplicate names "
        "open): spec stream 'unspecified'; the code takes the last one (map semantics)",
        "server names whose port is spelled with more than 5 digits (leading zeros) or whose DNS name exceeds 255 bytes are accepted by the code "
        "and lie outside the appendix grammar: spec stream 'unspecified' (decision of the lead; C17 territory)",
        "no copy of the Matrix specification in the sandbox: Resolve.Spec is transcribed from the property text, the comments in resolve.go "
        "and memory of S2S 'Resolving server names' (steps 1-6) -- unverified transcription",
        "time.Now() inside LookupWellKnown: the harness prints a max-age lifetime relative to the call time (retrying when the second ticks)",
    ],
}
# statement-by-statement translation of small pure Go functions (tools/extract/trans.go -> lean/VGen/TransSpec.lean) and the
# theorems that the translated definitions equal the model's, for all inputs (lean/VProps/TransSpec.lean)
CONFIG["lean"] = list(CONFIG["lean"]) + ["VProps.TransSpec"]
CONFIG["sources"] = list(CONFIG["sources"]) + ['VProps/TransSpec.lean', 'VModel/GoSem.lean']
CONFIG["theorems"] = list(CONFIG["theorems"]) + ['V.Trans.Spec.isDNSNameChar_eq_model', 'V.Trans.Spec.isDNSNameChar_iff']
CONFIG["trusted"] = list(CONFIG["trusted"]) + ["tools/extract/trans.go: the Go-to-Lean translation of the whitelisted functions and the Go semantics of lean/VModel/GoSem.lean (DESIGN.md §14)"]
