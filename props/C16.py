from props_common import COMMON_TRUSTED

CONFIG = {
    "areas": ["resolve", "wellknown", "cidr"],
    "lean": ["VProps.C16"],
    "sources": ["VProps/C16.lean", "VProofs/Resolve.lean", "VProofs/WellKnown.lean", "VProofs/Cidr.lean",
                "VModel/Resolve.lean", "VModel/WellKnown.lean", "VModel/Cidr.lean"],
    "theorems": [
        # regenerated facts (VGen/C16.lean, tools/extract/c16.go)
        "V.C16.gen_default_port", "V.C16.gen_srv_services", "V.C16.gen_wellknown_limits", "V.C16.gen_control_networks",
        # resolution
        "V.C16.resolve_eq_spec", "V.C16.invalid_refused", "V.C16.invalid_iff_spec", "V.C16.invalid_delegate_refused",
        "V.C16.delegated_no_second_wellknown", "V.C16.targets_nonempty_or_error", "V.C16.roundtrip_uses_only_targets", "V.C16.roundtrip_attempts_are_spec_results",
        # well-known
        "V.C16.wellknown_honoured_iff", "V.C16.wellknown_honoured_only_if", "V.C16.cache_lifetime_prefers_max_age",
        # network policy
        "V.C16.contains_iff_prefix", "V.C16.isAllowed_iff_permitted", "V.C16.control_permits_iff",
    ],
    "rule": "resolve: server names (DNS names, IPv4 / bracketed IPv6 literals, with and without port, every invalid shape in the pools) x "
            "well-known outcome for the name (404/500/301/oversized with and without Content-Length/malformed/empty/missing/wrong type/"
            "transport error/delegation to any generated name) x a second-level document that must never be fetched x scripted SRV answers "
            "for _matrix-fed and _matrix of the name and of the delegate (NXDOMAIN, no data, SERVFAIL, lame referral, 1 record, 2-4 records "
            "sent out of priority order, root target), through in-process stubs of http.DefaultTransport and net.DefaultResolver; "
            "roundtrip: a fresh fclient.Client (WithWellKnownSRVLookups) sends two requests to 13 names x delegations x SRV answers. Every host name "
            "has its own loopback address (fake DNS) and four servers listen on all of them, selected by the port: one answers, one refuses "
            "every TLS handshake, one closes the connection at once, one (flaky) drops the first K connections of a request after reading the "
            "request head and answers later ones; other ports are closed. Each server records every connection attempt as (server, NAME "
            "dialled, SNI, Host header); the trace, the outcome and the number of well-known lookups per request (resolution cache) are "
            "compared with the model. Systematically: names reached through 1-3 SRV records and through a well-known delegation (to a name "
            "with SRV records, to a name with a port, to an address literal) whose first-pass targets ALL fail once / all but one / one more "
            "/ for good (K = n-1, n, n+1, 2n), so that the retry pass of RoundTrip runs. roundtrip_props (spec stream): every recorded "
            "attempt of both requests, first pass and retry pass, must be a result of the SPECIFICATION's resolution (Resolve.Spec.resolve) "
            "of the ORIGINAL server name -- same dialled host and port, the SNI and the Host header the specification assigns to it; "
            "re-using the targets that just failed (what the code does) is allowed, the property only says where connections may go; "
            "wellknown: real HTTPS server (Content-Length / chunked) and scripted transport x status x sizes 51199..51202, 60000, 100 KiB x "
            "padding inside/after/before the document x 60 documents (m.server missing/empty/null/non-string/case-folded/duplicated, non-objects, "
            "malformed) x 50 Cache-Control values x 22 Expires values x 22 Content-Length values; "
            "cidr: allow/deny lists of 0-4 entries from 50 parsable + 45 unparsable CIDR texts + random ones (unparsable entry at every position, "
            "systematically and at random) x addresses on the first/last address of each range, one before, one after, random inside, the same "
            "low 32 bits in the other family, IPv4 / IPv4-mapped / IPv6 spellings x networks tcp4 tcp6 tcp udp unix... x 45 malformed addresses; "
            "net.ParseIP / net.ParseCIDR texts incl. single-character mutations compared with the Lean text layer. "
            "thorough adds bounded-exhaustive products: 12 names x 8 well-known outcomes x 6 x 6 SRV answers of the name x 4 x 2 of the delegate, "
            "and 12 bases x every prefix length (0..32 / 0..128) x edge addresses as allow entry and as deny entry. "
            "An op is non-trivial when it is not a bare text-parser probe; distinct by op line.",
    "nontrivial": lambda op, impl: not (op.startswith("cidr.parse") or op.startswith("resolve.validate")),
    "trusted": COMMON_TRUSTED + [
        "net.ParseIP / net.ParseCIDR (netip.ParseAddr) modelled by VModel.Cidr.parseAddr / parseCIDR; net.SplitHostPort, time.Parse, "
        "encoding/json (m.server decoding: VDriver/Wellknown.lean decodeGo) are std-lib results taken as inputs; validated by correspondence",
        "net/http (client, redirects, chunked decoding), the TLS dialer and Go's DNS resolver (ordering of SRV records by priority / weight, "
        "rejection of malformed targets) are parameters of the models (oracles), exercised by the harness but not verified",
    ],
    "assumptions": [
        "partial claim: the theorems are about the decision logic (resolution, per-target Host / SNI, retry over targets, allow / deny control); "
        "that net/http then dials exactly URL.Host with the transport's TLS ServerName, and that net.Dialer calls ControlContext for every "
        "connection attempt, is std-lib behaviour exercised by the roundtrip op but not verified; getTransport's per-SNI transport map, the "
        "reaper and the DNS cache dial path (DNSCache.DialContext) are not modelled here (C19 covers the cache)",
        "Spec reading: a lookup of _matrix-fed._tcp that fails for a reason other than 'not found' ends SRV discovery (the code then uses "
        "port 8448 without consulting _matrix._tcp); the Matrix text only distinguishes found / not found",
        "Spec reading: an invalid delegated m.server is refused (error), not treated as 'no well-known'",
        "resolve_eq_spec assumes a sane resolver (a successful SRV lookup has at least one record, targets are non-empty): what "
        "net.Resolver.LookupSRV guarantees; without it the model exhibits the index panic site target[len(target)-1]",
        "server names whose port is spelled with more than 5 digits (leading zeros) or whose DNS name exceeds 255 bytes are accepted by the code "
        "and lie outside the appendix grammar: spec stream 'unspecified' (decision of the lead; C17 territory)",
        "no copy of the Matrix specification in the sandbox: Resolve.Spec is transcribed from the property text, the comments in resolve.go "
        "and memory of S2S 'Resolving server names' (steps 1-6) -- unverified transcription",
        "time.Now() inside LookupWellKnown: the harness prints a max-age lifetime relative to the call time (retrying when the second ticks)",
    ],
}
