from props_common import COMMON_TRUSTED

CONFIG = {
    # ctx: the reused auth checker of state resolution over providers that gain / lose their create, power-levels and
    # join-rules events between checks (a Go panic in any step is a violation; seeded change C18-r4m1)
    "areas": ["fuzz", "auth", "stateres", "sign", "ctx", "resolve"],
    # of the state-resolution area only the ops over possibly CYCLIC auth graphs (room versions 1-2; run in a child process so that a
    # fatal stack overflow / a hang is an outcome): every other stateres op belongs to C10 / C11
    "op_filter": {"stateres": ["stateres.resolve_cyc", "stateres.resolve_old_cyc"], "sign": ["sign.deep_verify", "sign.deep_sign"], "ctx": ["ctx.seq"],
                  # resolve: server names from identifiers and from hostile well-known documents through ResolveServer (a panic is a violation; seed C18-r5m2)
                  "resolve": ["resolve.resolve", "resolve.validate", "resolve.resolve_after"]},
    "lean": ["VProps.C18", "VProps.C02", "VProps.C06", "VProps.C07", "VProps.C14", "VProps.C17"],
    "sources": ["VProps/C18.lean", "VModel/Json.lean", "VModel/Auth.lean", "VModel/Event.lean", "VProps/C02.lean", "VProps/C06.lean", "VProps/C07.lean", "VProps/C14.lean", "VProps/C17.lean",
                # accessors of the three event structs and state resolution with explicit panic sites (inventory: lean/VModel/PanicSites.md)
                "VModel/EventParse.lean", "VModel/EventAccessors.lean", "VModel/StateRes.lean", "VModel/StateResPanic.lean",
                "VProofs/EventAccessors.lean", "VProofs/EventAccessorsRedact.lean", "VProofs/StateResPanic.lean", "VProofs/StateResNoPanic.lean",
                "VDriver/Fuzz.lean",
                # second audit round: the sender lookup with any querier (P2), the reference lists of a remote proto event (P1)
                "VModel/AuthQuerier.lean", "VModel/EventBuild.lean", "VProofs/AuthRulesNoPanic.lean"],
    "theorems": ["V.C18.version_table_total", "V.C18.version_table_keys", "V.C18.compact_no_panic", "V.C18.canonical_no_panic",
                 # every method of the PDU interface on events NewEventFromUntrustedJSON returned (Redact() included); Sign() on them
                 # WITHOUT any hypothesis on the signatures member (fix 679c22b); every method but Redact() / Sign() on events from
                 # trusted JSON, RoomID() of a version-12 create event included (fix 1b1773a)
                 "V.C18.no_panic_accessors", "V.C18.no_panic_sign", "V.C18.no_panic_accessors_trusted",
                 # the former kernel-checked counter-examples (defects D1, D3, D4), now kernel-checked to behave: Sign() on an event
                 # whose signatures member does not decode returns normally; the Room_id / room_id:null event is refused on
                 # receipt; the trusted v12 create event with an event_id member gets a computed ID and a valid room ID
                 "V.C18.sign_undecodable_ok", "V.C18.roomID_variant_refused", "V.C18.trusted_roomID_ok",
                 # state resolution (v1 / v2 / v2.1, current and deprecated entry points) and the orderings: refinement to
                 # VModel.StateRes + no site fires for ANY auth graph, cyclic or not (fix 0d78b57; before it acyclicity was a
                 # hypothesis and a self-citing power-levels event a kernel-checked counter-example: D2)
                 "V.C18.resolve_refines", "V.C18.resolve_refines_deprecated", "V.C18.no_panic_resolve",
                 "V.C18.no_panic_resolve_deprecated", "V.C18.no_panic_orderings", "V.C18.resolve_cycle_resolves",
                 # no-panic theorems of the other models (each states that the panic sites of that model are unreachable)
                 "V.C02.sign_never_panics", "V.C06.no_panic", "V.C07.no_panic_allowed", "V.C14.collect_no_panic", "V.C17.splitID_no_panic",
                 # second audit round.  P2: createEventAllowed / aliasEventAllowed with ANY spec.UserIDForSender - a user ID, an
                 # error or (nil, nil) - reach no panic site; with the standard querier they are the checks of C07; a (nil, nil)
                 # answer refuses the event; Allowed with the querier that answers (nil, nil) for a sender that is no user ID never
                 # panics; the former crashes kernel-checked to be refusals
                 "V.C18.no_panic_sender_lookup", "V.C18.sender_lookup_std", "V.C18.sender_lookup_nil_refused",
                 "V.C18.no_panic_allowed_nil_querier", "V.C18.nil_querier_witnesses",
                 # P1: EventBuilder.Build's reference conversion (event format 1) on ANY JSON value a remote proto event may carry
                 # in prev_events / auth_events, and on any list of IDs: references or an ordinary error, never a panic; the former
                 # crashes ([[]], [[5,{}]], [""], [[""]]) kernel-checked to be errors
                 "V.C18.no_panic_event_references", "V.C18.no_panic_event_references_ids", "V.C18.event_references_witnesses"],
    "rule": "every public entry point reachable with remote data (untrusted / trusted / headered event parsing + all accessors + signature "
            "check + Allowed + orderings + both state-resolution entry points + Redact on accepted events; CanonicalJSON / EnforcedCanonicalJSON "
            "/ SignJSON / VerifyJSON / ListKeyIDs; key responses + CheckKeys; Authorization headers + VerifyHTTPRequest; identifiers and base64; "
            "federation response bodies + LineariseStateResponse / CheckStateResponse / CheckSendJoinResponse; login tokens; since the second audit round: "
            "fuzz.makejoin = the proto event of a make_join / make_leave / make_knock response or v3 invite request BUILT (as received, with "
            "the fields PerformJoin overwrites, after AddAuthEvents) for room versions 1, 2 and a random one, with structure-aware reference "
            "lists (nested empty arrays, wrong element types, empty / sigil-less IDs, huge lists, [id, hashes] pairs with junk hashes); "
            "fuzz.buildrefs = the reference conversion alone against its model (output compared); fuzz.fedtypes / headered / text / xsign / "
            "invite / txn = every UnmarshalJSON + accessor of fclient/federationtypes.go, headered event JSON, PublicKeyLookupRequest / HexString "
            "/ Base64Bytes / Timestamp / content structs, cross-signing bodies, invite v2 / v3 bodies, transactions / EDUs; fuzz.httpreq = "
            "VerifyHTTPRequest with two Authorization headers, odd Content-Types, methods, URIs, bodies; Allowed / VerifyEventSignatures / both "
            "resolvers / CheckStateResponse asked with the standard querier AND with one that answers (nil, nil) for a sender that is no user ID; "
            "auth.allowed_nilq = the auth scenarios with that querier, two thirds from such a sender) driven under recover() with structure-aware "
            "mutations of generated room histories (field retyping, boundary integers, malformed IDs, 60% with a recomputed content hash so that "
            "the event is accepted unredacted) and raw byte mutations, for all 16 room versions; plus (area stateres, ops resolve_cyc / resolve_old_cyc) "
            "state resolution of room-version 1 / 2 histories whose auth_events were made CYCLIC (self-citing and mutually citing power-levels "
            "events, create <-> power-levels, cycles among non-control events, join rules), each run in a child process with a stack limit and "
            "a timeout; every op is non-trivial",
    "nontrivial": lambda op, impl: True,
    "trusted": COMMON_TRUSTED + [
        "panics inside third-party parsers and libraries (gjson / sjson / encoding/json / net/http / macaroon / go-set / lane) are outside the models: covered only by this stream",
        "stack exhaustion on deeply nested JSON and memory exhaustion are outside the models; the three recursions of stateresolutionv2.go over auth events ARE modelled (a recursion deeper than the number of events supplied + 2 is a panic site, proved unreachable for every auth graph) and exercised on cyclic auth graphs in a child process (stateres.resolve_cyc / resolve_old_cyc: a fatal stack overflow or a hang is the outcome panic:fatal-stack-overflow / panic:timeout)",
        "the site inventory lean/VModel/PanicSites.md was compiled by reading the files it lists (fourteen root-package files in round 1; event_builder.go, perform*.go, handle*.go, keyring.go, keys.go, backfill.go, authchain.go, fclient/, spec/, tokens/ and every call of a spec.UserIDForSender in the second audit round, with fuzz probes of every decoder); sites marked 'local' there are the embedding server's contract (nil queriers / verifiers / callbacks, its own keys and events); the fuzz.event op now runs the accessor and state-resolution models on every generated op (a site the code lacks, or a panic the model lacks, breaks the tie)",
        "state resolution is proved panic-free over the event view of VModel.Event (hypothesis EvOK per event = what no_panic_accessors establishes on the parsed form); the two views read duplicate case-variant members differently",
    ],
    "assumptions": [
        "a spec.UserIDForSender returns (is itself panic-free) and answers the same question the same way twice (redactEventAllowed asks again after commonChecks checked the answer for nil); apart from that it may answer anything, (nil, nil) included. The model carries the querier as a parameter at the two lookups that had no nil guard (createEventAllowed, aliasEventAllowed); for the six lookups that always had the guard it keeps the standard querier's answer (an error where the code answers NotAllowed: the stream compares accepted / refused)",
        "handshake entry points (PerformJoin's nil content map, HandleSendJoin / HandleInvite with a (nil, nil) querier answer) belong to C15's models and harness",
        "trusted-JSON constructors are fed arbitrary bytes for parsing and accessors only (Redact() / Sign() on trusted JSON and EventID() / RoomID() after NewEventFromTrustedJSONWithEventID with an ID of the caller's choosing are the caller's contract)",
        "the hash returns 32 bytes (SHA-256)",
        "state resolution v2 / v2.1: at least two state sets (caller); nothing is assumed about the auth graph (cyclic auth_events, possible in room versions 1-2 whose event IDs are sender-chosen, are covered since fix 0d78b57). The v2.1 conflicted-subgraph walk is not modelled as a loop (StateRes.conflictedSubgraph is a closure): it would re-walk a cyclic auth graph forever, but v2.1 is selected only by room versions 12 / org.matrix.hydra.11, whose event IDs are hashes of the events (a cycle needs a SHA-256 fixed point)",
        "Sign() has its own theorem (no_panic_sign, no hypothesis on the signatures member since fix 679c22b); the accessor sweep after Redact(), after Sign() and on the event SetUnsigned() returns is exercised by fuzz.event on every accepted event (events with a case variant of a struct field name or a repeated member name - D3, the content-forgery shapes - are refused on receipt since fixes 7c511f2 / 849cf70)",
    ],
}
# statement-by-statement translation of small pure Go functions (tools/extract/trans.go -> lean/VGen/TransJson.lean) and the
# theorems that the translated definitions equal the model's, for all inputs (lean/VProps/TransJson.lean)
CONFIG["lean"] = list(CONFIG["lean"]) + ["VProps.TransJson"]
CONFIG["sources"] = list(CONFIG["sources"]) + ['VProps/TransJson.lean', 'VModel/GoSem.lean']
CONFIG["theorems"] = list(CONFIG["theorems"]) + ['V.Trans.Json.isNegativeZeroLiteral_eq_model', 'V.Trans.Json.readHexDigits_total']
CONFIG["trusted"] = list(CONFIG["trusted"]) + ["tools/extract/trans.go: the Go-to-Lean translation of the whitelisted functions and the Go semantics of lean/VModel/GoSem.lean (DESIGN.md §14)"]
