from props_common import COMMON_TRUSTED

CONFIG = {
    "areas": ["fuzz", "auth"],
    "lean": ["VProps.C18", "VProps.C02", "VProps.C06", "VProps.C07", "VProps.C14", "VProps.C17"],
    "sources": ["VProps/C18.lean", "VModel/Json.lean", "VModel/Auth.lean", "VModel/Event.lean", "VProps/C02.lean", "VProps/C06.lean", "VProps/C07.lean", "VProps/C14.lean", "VProps/C17.lean"],
    "theorems": ["V.C18.version_table_total", "V.C18.version_table_keys", "V.C18.compact_no_panic", "V.C18.canonical_no_panic",
                 # no-panic theorems of the other models (each states that the panic sites of that model are unreachable)
                 "V.C02.sign_never_panics", "V.C06.no_panic", "V.C07.no_panic_allowed", "V.C14.collect_no_panic", "V.C17.splitID_no_panic"],
    "rule": "every public entry point reachable with remote data (untrusted / trusted / headered event parsing + all accessors + signature "
            "check + Allowed + orderings + both state-resolution entry points + Redact on accepted events; CanonicalJSON / EnforcedCanonicalJSON "
            "/ SignJSON / VerifyJSON / ListKeyIDs; key responses + CheckKeys; Authorization headers + VerifyHTTPRequest; identifiers and base64; "
            "federation response bodies + LineariseStateResponse / CheckStateResponse; login tokens) driven under recover() with structure-aware "
            "mutations of generated room histories (field retyping, boundary integers, malformed IDs, 60% with a recomputed content hash so that "
            "the event is accepted unredacted) and raw byte mutations, for all 16 room versions; every op is non-trivial",
    "nontrivial": lambda op, impl: True,
    "trusted": COMMON_TRUSTED + ["panics inside gjson / sjson / encoding/json / net/http / macaroon, stack and memory exhaustion are outside the models: covered only by this stream"],
    "assumptions": ["trusted-JSON constructors are fed arbitrary bytes for parsing and accessors only (Redact() on trusted JSON is the caller's contract)"],
}
