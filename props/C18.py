from props_common import COMMON_TRUSTED

CONFIG = {
    "areas": ["fuzz", "auth"],
    "lean": ["VProps.C18", "VProps.C02", "VProps.C06", "VProps.C07", "VProps.C14", "VProps.C17"],
    "sources": ["VProps/C18.lean", "VModel/Json.lean", "VModel/Auth.lean", "VModel/Event.lean", "VProps/C02.lean", "VProps/C06.lean", "VProps/C07.lean", "VProps/C14.lean", "VProps/C17.lean",
                # accessors of the three event structs and state resolution with explicit panic sites (inventory: lean/VModel/PanicSites.md)
                "VModel/EventParse.lean", "VModel/EventAccessors.lean", "VModel/StateRes.lean", "VModel/StateResPanic.lean",
                "VProofs/EventAccessors.lean", "VProofs/EventAccessorsRedact.lean", "VProofs/StateResPanic.lean", "VProofs/StateResNoPanic.lean",
                "VDriver/Fuzz.lean"],
    "theorems": ["V.C18.version_table_total", "V.C18.version_table_keys", "V.C18.compact_no_panic", "V.C18.canonical_no_panic",
                 # every method of the PDU interface on events NewEventFromUntrustedJSON returned (Redact() included; Sign() apart)
                 "V.C18.no_panic_accessors", "V.C18.no_panic_sign", "V.C18.no_panic_accessors_trusted",
                 # the two preconditions those proofs forced, as kernel-checked counter-examples (both reproduced on the code: D1, D3)
                 "V.C18.sign_panics", "V.C18.roomID_after_redact_panics", "V.C18.trusted_roomID_panics",
                 # state resolution (v1 / v2 / v2.1, current and deprecated entry points) and the orderings: refinement to
                 # VModel.StateRes + no site fires under the stated preconditions; the acyclicity precondition is forced (D2)
                 "V.C18.resolve_refines", "V.C18.resolve_refines_deprecated", "V.C18.no_panic_resolve",
                 "V.C18.no_panic_resolve_deprecated", "V.C18.no_panic_orderings", "V.C18.resolve_cycle_panics",
                 # no-panic theorems of the other models (each states that the panic sites of that model are unreachable)
                 "V.C02.sign_never_panics", "V.C06.no_panic", "V.C07.no_panic_allowed", "V.C14.collect_no_panic", "V.C17.splitID_no_panic"],
    "rule": "every public entry point reachable with remote data (untrusted / trusted / headered event parsing + all accessors + signature "
            "check + Allowed + orderings + both state-resolution entry points + Redact on accepted events; CanonicalJSON / EnforcedCanonicalJSON "
            "/ SignJSON / VerifyJSON / ListKeyIDs; key responses + CheckKeys; Authorization headers + VerifyHTTPRequest; identifiers and base64; "
            "federation response bodies + LineariseStateResponse / CheckStateResponse; login tokens) driven under recover() with structure-aware "
            "mutations of generated room histories (field retyping, boundary integers, malformed IDs, 60% with a recomputed content hash so that "
            "the event is accepted unredacted) and raw byte mutations, for all 16 room versions; every op is non-trivial",
    "nontrivial": lambda op, impl: True,
    "trusted": COMMON_TRUSTED + [
        "panics inside third-party parsers and libraries (gjson / sjson / encoding/json / net/http / macaroon / go-set / lane) are outside the models: covered only by this stream",
        "stack exhaustion on deeply nested JSON and memory exhaustion are outside the models; the three unguarded recursions of stateresolutionv2.go over auth events ARE modelled (a recursion deeper than the number of events supplied is a panic site)",
        "the site inventory lean/VModel/PanicSites.md was compiled by reading the fourteen files it lists; the fuzz.event op now runs the accessor and state-resolution models on every generated op (a site the code lacks, or a panic the model lacks, breaks the tie)",
        "state resolution is proved panic-free over the event view of VModel.Event (hypothesis EvOK per event = what no_panic_accessors establishes on the parsed form); the two views read duplicate case-variant members differently",
    ],
    "assumptions": [
        "trusted-JSON constructors are fed arbitrary bytes for parsing and accessors only (Redact() / Sign() on trusted JSON, RoomID() of a version-12 create event whose trusted JSON carries its own event_id, EventID() after NewEventFromTrustedJSONWithEventID(\"\") are the caller's contract)",
        "the hash returns 32 bytes (SHA-256)",
        "state resolution v2 / v2.1: at least two state sets (caller), and no cycle among the auth events (true of hashed event IDs unless the hash collides; NOT guaranteed in room versions 1-2: known defect D2 of PanicSites.md)",
        "Sign() is outside no_panic_accessors: it panics on an accepted event whose signatures member does not decode (D1); accessors after Redact() are outside it when the event carries a case variant of room_id (D3)",
    ],
}
