from props_common import COMMON_TRUSTED
import importlib.util as _ilu, os as _os
# VerifyHTTPRequest's JSONVerifier is, in deployments, a KeyRing with fetchers: "refused if the signing key was not valid at
# the time of receipt" depends on what the key ring and its fetchers return (keyring.go is among C13's anchors), so C13
# carries the key-ring obligations it depends on — the way C06 does
_sp = _ilu.spec_from_file_location("props_C12_for_C13", _os.path.join(_os.path.dirname(_os.path.abspath(__file__)), "C12.py"))
_C12 = _ilu.module_from_spec(_sp); _sp.loader.exec_module(_C12)

CONFIG = {
    "areas": ["fedreq", "keyring"],
    # of the key-ring area: the bulk verification flow and validity arithmetic VerifyHTTPRequest goes through, and the
    # fetchers' handling of a notary answer with several documents of one server (a key moving from verify_keys to
    # old_verify_keys); the key-response checks (CheckKeys, PublicKey, valid_until_ts in the future) are C12's
    "op_filter": {"keyring": ["keyring.verify_jsons", "keyring.was_valid_at", "keyring.perspective_history", "keyring.direct_history"]},
    "lean": ["VProps.C13", "VProps.C13Ring", "VProps.C12"],
    "sources": ["VProps/C13.lean", "VProofs/FedReq.lean", "VProofs/FedReqStrict.lean", "VModel/FedReq.lean", "VProofs/JsonUtf8.lean", "VProps/C01.lean",
                "VProps/C13Ring.lean", "VProps/C12.lean", "VModel/KeyRing.lean", "VProofs/KeyRing.lean"],
    "theorems": [
        "V.C13.gen_fields", "V.C13.gen_header_format", "V.C13.gen_safe_ranges",
        "V.C13.header_roundtrip", "V.C13.accepted_facts", "V.C13.refused_if", "V.C13.refused_if_key_invalid",
        "V.C13.binding", "V.C13.signed_request_accepted", "V.C13.canonical_body_facts", "V.C13.signed_request_accepted_canon",
        "V.C13.signed_body_strict", "V.C13.signed_request_accepted_gated", "V.C13.ambiguous_body_refused", "V.C13.sign_refuses",
        "V.C13.refused_if_not_utf8", "V.C13.accepted_fields_utf8", "V.FedReq.canonical_strict",
        "V.C13Ring.accepted_with_keyring_sound", "V.C13Ring.refused_with_keyring_if_key_invalid",
        "V.C13Ring.mapServerKeys_old_entry", "V.C13Ring.perspective_last_document_decides", "V.C13Ring.retired_entry_invalid",
    ] + [t for t in _C12.CONFIG["theorems"] if not any(k in t for k in ("checkKeys", "checkVerifyKeys", "publicKey_", "fetchKeysForServer", "fetchNotaryKeys", "direct_accepts", "past_valid_until"))],
    "rule": "verify: NewFederationRequest -> SetContent -> Sign (real ed25519, 4 keys) -> HTTPRequest -> VerifyHTTPRequest in-process against a "
            "real KeyRing over a key-table database: methods (12 + 6 odd) x origins / destinations (13 valid incl. ports, IPv6 literals; 18 odd) x "
            "URIs (26 + 22 odd: paths, queries, escapes, non-round-tripping) x contents (none, 26 JSON values, 8 malformed) x key IDs (6 + 12 odd); "
            "each scenario once untouched and once with one (sometimes two) of 12 tamperings: method, URI, Content-Type (19 values), body "
            "(equivalent spelling, other value, malformed, invalid UTF-8, removed, added), header syntax (44 spellings: ordering, blanks, quoting, "
            "missing / empty / repeated parameters, other schemes, case), header values (other origin / destination / key), several Authorization "
            "headers, receiver names (default, local-name lists, nil), time of receipt vs valid_until_ts / expired_ts / 7-day clamp, key database "
            "(wrong key, other server, missing, failing), key known under another ID; round 3: URIs whose query holds U+FFFD, transmitted with "
            "the U+FFFD bytes rewritten to bytes json.Marshal reads as U+FFFD (\\xff, \\xc0, a surrogate's UTF-8), methods / X-Matrix origins / "
            "destinations with invalid UTF-8, sender-side URIs that are not valid UTF-8, and bodies its readers disagree on (a lone surrogate "
            "escape or a duplicate member written into the signed body, first or last, top level or nested, also with the name respelled; "
            "invalid UTF-8) both as transmitted body under the old signature and as content handed to SetContent + Sign; the specification "
            "judges method / URI / origin / destination on the BYTES (any difference from what was signed => refused) and the body by the value "
            "every reader sees; "
            "parseauth: the 44 header spellings x 6 value sets (blanks, quotes, '=', commas, Unicode white space, non-ASCII) plus 1-3 character "
            "mutations, against the model's parseAuthorization; thorough adds every sequence of up to 5 tokens (origin key sig = \" , blank a tab) "
            "after the scheme (66 430 headers); "
            "keyring (the ops of C12's generator that VerifyHTTPRequest depends on): verify_jsons batches x database / fetcher scripts x "
            "timestamps on every validity boundary x strict / lenient, was_valid_at boundaries, and perspective_history / direct_history: "
            "a notary answering with 2-3 documents of ONE server (its key-rotation history: document i lists key i current and the "
            "earlier keys under old_verify_keys with expired_ts in the past; every document self-signed, notary-signed, valid_until_ts "
            "in the future) oldest first / newest first / shuffled, sometimes another server's document in between. "
            "Non-trivial: every verify op and every key-ring op that needed a key; distinct by op line.",
    "nontrivial": lambda op, impl: op.startswith("fedreq.verify") or (op.startswith("keyring.") and (not op.startswith("keyring.verify_jsons") or "|db:none" not in impl)),
    "trusted": COMMON_TRUSTED + [
        "the JSONVerifier is a function in accepted_facts / refused_if; for a real KeyRing it is discharged by the C12 model "
        "(V.C13Ring.accepted_with_keyring_sound / refused_with_keyring_if_key_invalid compose the two; perspective_last_document_decides "
        "says what the perspective fetcher holds for a retired key) whose correspondence ops (keyring.*) run here too",
        "net/http (http.NewRequest, Request.Method / URL / Header / Body as the receiver sees them), net/url (Parse, RequestURI), "
        "mime.ParseMediaType are parameters of the model (their results are computed by the harness with the std-lib and sent along)",
        "encoding/json of the fields struct (string escaping, RawJSON compaction) and CanonicalJSON are modelled by VModel.Json "
        "(parse / encodeCanon / canonical, C01); contents with duplicate keys or lone surrogate escapes are refused by the gate of SignJSON / "
        "VerifyJSON (model: contentSignStrict in `sign` — SignJSON's gate has no UTF-8 clause — and contentStrict in the key ring's check "
        "`gatedCheck`) — no longer skipped",
        "crypto/ed25519 and base64: abstract `sigOK`; in the driver '$SIG' is accepted exactly for the signing key and a payload with the "
        "same canonical JSON as the signed object (the toy instance of IdealSig)",
    ],
    "assumptions": [
        "IdealSig (correctness; every signature that checks is an honest signature over an object equal up to member order) is a hypothesis "
        "of binding and signed_request_accepted, never an axiom; satisfiability shown by a toy scheme",
        "signed_request_accepted does not assume C01's facts about canonical JSON: canonical_body_facts derives them (the body Sign "
        "stores is encodeCanon of the parsed body, valid UTF-8, re-parses to that value with members sorted and -0 as 0, same canonical "
        "bytes) from V.C01.canonical_eq_spec_general / parse_encodeCanon / encodeCanon_sorted and VProofs.JsonUtf8.canonical_utf8. "
        "Residue (BodyOk): the body is valid UTF-8 (otherwise the request is refused, refused_if (6)). 'No lone surrogate escape, no "
        "duplicate key' is no longer a hypothesis: Sign refuses such a body (sign_refuses, signed_body_strict) and the receiving key ring "
        "refuses it (ambiguous_body_refused); what Sign stores passes the receiver's gate (canonical_strict, signed_request_accepted_gated). "
        "Under IdealSig (correctness only up to member order) one more restriction: no number of the body is the literal -0 (canonical JSON "
        "writes 0); signed_request_accepted_canon / _gated remove it under CanonCorrect (a signature checks against every object with the "
        "same canonical bytes: what ed25519 over CanonicalJSON does)",
        "'malformed X-Matrix header' is read as the code reads it: no non-empty origin, key and sig can be extracted (400), or no X-Matrix "
        "header at all (401). Syntactic leniency of ParseAuthorization (unbalanced or doubled quotes, blanks and tabs around names and "
        "values, parameters without '=', repeated parameters where the last wins, unknown parameters) is accepted by the code when the "
        "extracted values verify; such requests still report only signed fields (binding)",
        "the key ID is not part of the signed object: a request whose header names another key ID under which the receiver holds the same "
        "public key verifies (tamper.key-alias); the property lists method, URI, origin, destination, body only",
        "key IDs range over ed25519:[A-Za-z0-9_]+ : other algorithms are refused by the key ring (401), and a key ID containing a comma passes "
        "isSafeInHTTPQuotedString (which only excludes quotes, backslash and controls) but does not survive the header (the untouched "
        "request is then refused, 401); both are outside the quantifier (spec stream: unspecified:key-id-outside-grammar)",
        "an empty method is turned into GET by http.NewRequest while the signed object says \"\": such a request is built but refused (401); "
        "spec stream: unspecified (a method is a non-empty token)",
        "a method / request URI / origin / destination that is not valid UTF-8 is REFUSED (Sign: error; readHTTPRequest: 400) since the K5 "
        "repair — refused_if_not_utf8, accepted_fields_utf8, sign_refuses; before it json.Marshal wrote U+FFFD on both sides and the bytes "
        "were not bound. Residue outside the model (outcome skip): a key ID or a signature TEXT in an X-Matrix header, or the receiver's own "
        "default server name, that is not valid UTF-8 (none of them is a signed field of the transmitted request)",
        "StrictValiditySignatureCheck reads the wall clock (valid_until_ts is clamped to now + 7 days): harness timestamps avoid the window "
        "2025-2039 so that the driver's fixed wall clock (2e12 ms) is equivalent to the real one",
        "in-process: the *http.Request built by HTTPRequest is handed to VerifyHTTPRequest directly (Body set to http.NoBody when nil, as a "
        "server would); the wire format (http.Request.Write / ReadRequest) is net/http's",
    ],
}
# statement-by-statement translation of small pure Go functions (tools/extract/trans.go -> lean/VGen/TransFedReq.lean) and the
# theorems that the translated definitions equal the model's, for all inputs (lean/VProps/TransFedReq.lean)
CONFIG["lean"] = list(CONFIG["lean"]) + ["VProps.TransFedReq"]
CONFIG["sources"] = list(CONFIG["sources"]) + ['VProps/TransFedReq.lean', 'VModel/GoSem.lean']
CONFIG["theorems"] = list(CONFIG["theorems"]) + ['V.Trans.FedReq.isSafeInHTTPQuotedString_eq_model', 'V.Trans.FedReq.isSafeInHTTPQuotedString_iff_qdtext']
CONFIG["trusted"] = list(CONFIG["trusted"]) + ["tools/extract/trans.go: the Go-to-Lean translation of the whitelisted functions and the Go semantics of lean/VModel/GoSem.lean (DESIGN.md §14)"]
# C12's translated-function theorems (WasValidAt) come in through _C12.CONFIG["theorems"]
CONFIG["lean"] = list(CONFIG["lean"]) + ["VProps.TransKeys"]
CONFIG["sources"] = list(CONFIG["sources"]) + ["VProps/TransKeys.lean"]
CONFIG["theorems"] = list(dict.fromkeys(CONFIG["theorems"]))
