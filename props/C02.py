from props_common import COMMON_TRUSTED

CONFIG = {
    "areas": ["sign"],
    "lean": ["VProps.C02"],
    "sources": ["VProps/C02.lean", "VModel/Sign.lean", "VProofs/SignB64.lean", "VProofs/SignMaps.lean", "VProofs/SignJSON.lean", "VProofs/SignList.lean"],
    "theorems": [
        "V.C02.sign_verify", "V.C02.verify_reserialised", "V.C02.sign_verify_after", "V.C02.sign_preserves",
        "V.C02.verify_sound_key", "V.C02.verify_sound_tamper", "V.C02.verify_needs_signature", "V.C02.verify_iff",
        "V.C02.listKeyIDs_complete", "V.C02.sign_never_panics", "V.C02.toy_ideal", "V.Sign.b64Decode_encode",
        "V.C02.verifyText_iff", "V.C02.signText_ok", "V.C02.ambiguous_never_verifies", "V.C02.ambiguous_never_signed",
        "V.C02.dup_or_illformed_never_verifies", "V.C02.gate_uniqueKeys", "V.C02.verify_text_sound_tamper", "V.C02.strict_signStrict",
        # second audit: X1 - a text nested deeper than encoding/json reads (10000) is refused before anything recursive looks at it
        # (json.Valid first; the model never evaluates `parse` on it); X4 - VerifyJSON's gate does not look into the VALUE of `unsigned`
        "V.C02.deep_refused_unread", "V.C02.deep_array_refused", "V.C02.gate_ignores_unsigned_value",
    ],
    "rule": "sign: generated objects (C01's value generator; pre-existing signature maps with canonical / URL-safe / CRLF / "
            "non-canonical / invalid base64, null and ill-typed maps; `unsigned`; case-variant keys Signatures / unſigned ...) "
            "in random presentations, signed with real ed25519 by SignJSON: compared are the output object (signature slot "
            "replaced by a marker), the PAYLOAD the signature verifies over (found by ed25519.Verify) and VerifyJSON's verdict "
            "on the output; outputs are signed again by other entities. verify: the harness signs the spec payload with its own "
            "ed25519, injects the signature and applies ONE mutation (re-serialisation, member change/insert/delete/nested edit, "
            "other name / key ID / key, wrong key or signature length, corrupted or transplanted signature, extra signers, "
            "unsigned edit, case-variant keys, -0 vs 0, 1 vs 1.0, base64 respelling, broken signature maps; and TEXT-LEVEL "
            "tamperings that keep the old signature: a lone surrogate escape written into a string or member name of the signed "
            "members, a duplicate member placed first or last in the top-level or a nested object (also with the name respelled "
            "\\u00XX), invalid UTF-8 (U+FFFD in a name rewritten to a byte Go reads as U+FFFD), and the same inside "
            "`signatures` / `unsigned` or as a second `signatures` / `unsigned` member); sign is also run on such texts. "
            "deep_verify / deep_sign (every tier, each in a child process under a 5 s budget; `panic:timeout` / `panic:fatal-stack-overflow` "
            "are outcomes): a correctly signed object one part of which - a signed member (arrays / objects), `unsigned`, the inside of "
            "`signatures`, an array never closed - is nested 100 ... 9999, 10000, 20000, 100000 (thorough: up to 8 000 000) deep, built from "
            "(kind, depth) on both sides: verified / signed up to encoding/json's limit of 10000 levels, refused beyond, never a crash or a "
            "hang (C18: second audit X1 - between /repo 185cb68 and its repair the gate recursed first: 100 000 levels took 20 s, 8 000 000 "
            "a fatal stack overflow). The "
            "specification DEMANDS refusal (sign: err, accept: rej) whenever the signed members are not one definite value for "
            "every reader (Spec.definitePayload), DEMANDS the ordinary answer (accept: ok for a valid signature) when the ambiguity is "
            "confined to the VALUE of the `unsigned` member (the property: a signed object verifies after `unsigned` is changed - to "
            "anything; second audit X4: VerifyJSON refused such objects since 185cb68, fails safe) and is silent (`unspecified`) when it "
            "sits in `signatures` or in a second `signatures` / `unsigned` member; the model (signJSONText / verifyJSONText = the gate "
            "checkStrictJSON + the value-level model) refuses those, and SignJSON an ambiguous value of `unsigned` as well (it re-emits it). "
            "The gate is SPLIT: VerifyJSON refuses duplicate names, lone surrogate escapes and invalid UTF-8; SignJSON only the "
            "first two (PDU.Sign panics when signing fails and the event constructors accept invalid UTF-8 in kept fields), so "
            "`sign.sign` on a text that passes SignJSON's gate but is not valid UTF-8 is skipped (outside the property: JSON texts are "
            "Unicode; SignJSON behaves there as before the repair). The model decides "
            "with symbolic crypto from the facts (signature bytes, public key, payload) on the op line. Non-trivial = the text "
            "parses as an object; distinct by op line",
    "nontrivial": lambda op, impl: not impl.startswith("err:json") and impl != "err",
    "trusted": COMMON_TRUSTED + [
        "encoding/json (map decoding: last duplicate wins, map merge, null handling, Marshal's key sorting and HTML "
        "escaping), tidwall/sjson (delete/set of a top-level key), encoding/base64 and crypto/ed25519 are modelled (VModel.Sign), "
        "validated by the correspondence only",
        "C01: CanonicalJSON(text) = encodeCanon(parse text) on texts with well-formed Unicode (V.C01.canonical_eq_spec); "
        "injectivity of encodeCanon (V.C01.encodeCanon_injective) is used by verify_sound_tamper",
    ],
    "assumptions": [
        "cryptography is symbolic: SigCorrect (correctness, sizes) for completeness theorems, IdealSig (message binding, key binding) "
        "for soundness theorems; hypotheses of the theorems, instantiated by V.C02.toy_ideal; in the correspondence a signature verifies "
        "iff it is one of the genuine ed25519 signatures listed on the op line (for that key and payload)",
        "texts with duplicate member names (any depth), lone surrogate escapes or invalid UTF-8 are INSIDE the claim since the K7 "
        "repair: VerifyJSON refuses all three, SignJSON duplicate names and lone surrogate escapes (V.C02.ambiguous_never_verifies / "
        "ambiguous_never_signed, strict_signStrict; VerifyJSON's gate = C01's domain, so "
        "the UniqueKeys / numsOk hypotheses of the value-level theorems hold for every message that is read: gate_uniqueKeys, "
        "parse_numsOk). Decision on the excluded members: SignJSON's gate covers the WHOLE message, VerifyJSON's everything but the "
        "inside of the value of the top-level `unsigned` member (a second `signatures` / `unsigned` member and duplicates / ill-formed "
        "strings inside `signatures` are refused; V.C02.gate_ignores_unsigned_value); the specification demands refusal only for the "
        "signed members. DECISION (X4, second half): SignJSON still accepts invalid UTF-8 and its output then does not verify (fails "
        "safe): making it refuse would make PDU.Sign panic on events the untrusted constructors accept (they take invalid UTF-8 in "
        "kept fields such as `type`) - to be repaired in the event constructors first; a text that is not valid UTF-8 is not a JSON "
        "text (RFC 8259 8.1), `sign.sign` on one stays skipped. Nesting: both gates begin with the depth limit of encoding/json "
        "(Sign.depthOk, 10000). ListKeyIDs has no gate: `sign.list` on a text the gate refuses is skipped (its callers go on to VerifyJSON)",
        "top-level case variants of the two keys (Signatures, unſigned, ...) are ordinary signed members (exact-name reading since "
        "/repo 0fb2afd); they are generated on purpose and the specification stream demands exactly that",
    ],
}
