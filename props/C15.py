from props_common import COMMON_TRUSTED

CONFIG = {
    "areas": ["handshake"],
    "lean": ["VProps.C15", "VProps.C15Compose"],
    "sources": ["VProps/C15.lean", "VProps/C15Compose.lean", "VModel/Handshake.lean", "VModel/HandshakeSpec.lean", "VModel/HandshakeInvite.lean", "VModel/HandshakeInviteSpec.lean", "VModel/FedCheck.lean"],
    "theorems": ["V.C15.sendJoin_ok_implies_guards", "V.C15.sendJoin_signs_unmodified", "V.C15.sendJoin_decision_table", "V.C15.makeJoin_ok_implies_guards", "V.C15.makeJoin_ok_implies_spec", "V.C15.pickAuthoriser_some", "V.C15.rulesLoop_some", "V.C15.restrictedStage_err_class", "V.C15.makeJoin_decision_table", "V.C15.makeLeave_ok_implies_guards", "V.C15.makeLeave_decision_table", "V.C15.invite_ok_implies_guards", "V.C15.invite_signs_unmodified", "V.C15.invite_decision_table", "V.C15.inviteCommonChecks_table", "V.C15.performJoin_ok_implies", "V.C15.inviteV3_ok_implies", "V.C15.inviteV3_decision_table",
                 "V.C15.performInvite_ok_implies_guards", "V.C15.performInvite_decision_table", "V.C15.performInvite_no_panic",
                 "V.C15.piPrepare_table", "V.C15.sendJoinPseudo_ok_implies_guards", "V.C15.sendJoinPseudo_decision_table",
                 # round 5: the event PerformJoin returns is a join of ours; what PerformJoin stores in pseudo-ID rooms, and when
                 "V.C15.joinEventUsed_ok", "V.C15.performJoinPseudo_stores_vouched", "V.C15.performJoinPseudo_trace_shape",
                 "V.C15.performJoinPseudo_ok_implies",
                 # composition with C07 / C06 (VProps/C15Compose.lean): the Allowed bit of the templates computed by VModel.Auth.allowedFresh,
                 # the verify bit of send_join / invite computed from the verifier's answer to the one request the handlers make
                 "V.C15.makeJoin_template_allowed", "V.C15.makeLeave_template_allowed", "V.C15.makeJoin_cross_room_refused", "V.C15.makeLeave_cross_room_refused", "V.C15.allowed_state_one_room", "V.C15.templateEvent_shape", "V.C15.makeJoin_proto_template_allowed", "V.C15.makeLeave_proto_template_allowed", "V.C15.makeJoin_proto_cross_room_refused", "V.C15.sender_server_required", "V.C15.sendJoin_origin_signature_valid", "V.C15.invite_sender_signature_valid", "V.C15.join_required_cases", "V.C15.invite_required_cases", "V.C15.sendJoin_required_signers_covered", "V.C15.sendJoin_passes_verifyEventSignatures", "V.C15.invite_required_signers_covered"],
    "rule": "handshake: each handler is run with mock queriers / verifier / template builder / federation client built from the op line; "
            "parameters start on the accepting path and deviate independently with probability 12% (40% in a quarter of the ops): room version "
            "(known / unknown / not offered by the remote), origin vs user domain, local server in room, event shape (membership incl. missing and "
            "non-string, state key = sender / other / empty / absent, room and event ID match, sender valid / foreign / over-long, content that does not "
            "decode, authorised-via local / remote / invalid / non-string), signature oracle good / bad / failing, membership querier answers incl. errors, "
            "join rules (public / invite / restricted / knock_restricted, allow lists with foreign types, invalid and null entries), pending invites, "
            "power levels (invite level 0 / 50, unparseable, wrong state key), create event (v12 creators), per-room residency x joined users, template "
            "builder outcomes, known room / stripped state / state querier answers for invites, send_join responses for PerformJoin; "
            "PerformInvite: both room-version families (every user-ID version, org.matrix.msc4014, unknown versions) x local / remote invitee, template "
            "(type, membership incl. missing / non-string / null / unparseable content, state key, room, sender), stripped state given / generated / "
            "unmarshalable, each querier failing (sender ID, membership, latest events, auth events, sender-ID creator, store callback), state events "
            "with a non-state event or a nil PDU, Allowed oracle, oversized template, caller-contract breaches (each nil argument, nil signing key), and "
            "the remote's answer: SendInvite error / nil / echo / another event; SendInviteV3 error / nil / unparseable / an event that is not a member "
            "event, lacks a state key, has another membership, room or sender, is unsigned, signed with the wrong key, carries a forged inviter signature; "
            "a fixed prologue runs every remote-answer class and every breach alone on the accepting path; HandleSendJoin for org.matrix.msc4014: "
            "mxid_mapping absent / null / unsigned / signed by another server / malformed, verifier good / bad / failing, store callback failing, "
            "self-signature good / wrong key / missing / corrupt; "
            "EVENT TYPE (round 4): send_join events and invites whose type is not m.room.member (x.custom, m.room.name, m.room.create, m.room.Member, "
            "the empty type) but which keep state_key == sender / invitee and content.membership == join / invite — about one generated op in twelve plus "
            "a fixed prologue of every room version x every such type alone on the accepting path (75 + 5 pseudo-ID send_join ops, 75 invites); "
            "HandleInviteV3 proto events that are not invites (seven other types, nine other memberships incl. absent / null / non-string / non-object content); "
            "PLANTED LOCAL SIGNATURE: received events that already carry an entry under (signing name, local key ID) — 64 zero bytes, a genuine signature "
            "made with another key, a short value — or under the local name with another key ID, every room version x every class alone on the accepting "
            "path plus 6% of the random ops; the mock verifier answers 'good' only to the question the property is about (requesting / sender's server, "
            "the redacted event, the event's timestamp, one request) and the mock membership querier only for (request room, target user); "
            "compared: error class "
            "(Matrix code / internal / other) or response, signer, real ed25519 verification of the returned event's local signature, event unmodified. "
            "ROUND 5 (second audit, defects H1-H6): the user-ID querier answers (nil, nil) in sendjoin / invite / sendjoin_pseudo (a fixed prologue per "
            "room version plus ~2% of the random ops); the membership querier answers PER SENDER ID — the scripted membership is that of the event's "
            "target (state key), everybody else is not joined — with invites whose state key is another local user than the invited user the handler is "
            "given (joined / not joined) and input.InvitedSenderID = the invited user's ID / empty / the state key; HandleInviteV3 with "
            "input.InvitedSenderID = the ID GetOrCreateSenderID returns / empty / somebody else's; the template builder's proto event is compared with "
            "the proto event the make_join / make_leave handler returns; handshake.performjoin_adopt: every room version x 14 classes of the resident "
            "server's copy of the join event (none, unparseable, the event sent as it is / with the resident server's signature / with an unsigned "
            "section / WITHOUT our signature / redacted, an earlier join signed by us, an x.custom event that cites our join as the sender's membership, "
            "member joins with content / auth events / sender / membership of the resident server's choosing, with and without a stale copy of our "
            "signature) x our join listed in the presented state or not, with a key of its own for the joining server — measured on the returned "
            "event: is it an m.room.member join of the joiner, does OUR signature verify on it; handshake.performjoin (old op): remote copies that are "
            "not member events, that are sent by somebody else, that our server did not validly sign; handshake.performjoin_bodies: PerformJoin on "
            "make_join / send_join BODIES decoded like the federation client does — 25 edits of the template (content null / string / array / number / "
            "absent, prev_events [[]] / [\"\"] / null / object, auth_events [[5,{}]] / numbers / null, event missing / null / array, ill-typed state key / "
            "depth, other type / sender / room, redacts, unsigned null, signatures 5) x room_version present / missing / empty / unknown / ill-typed, "
            "26 edits of the send_join body (event null / {} / [] / string / number / ill-typed / content null / x.custom, state and auth_chain null / "
            "missing / with null, number, string, {} and [] entries, create event with content null / numeric version) for room versions 1, 2, 3, 10, 12 "
            "and org.matrix.msc4014 (all 16 in the thorough tier); handshake.performjoin_pseudo: PerformJoin for org.matrix.msc4014 with real room keys "
            "and per-server keys — 11 classes of membership event in the response (mapping of ANOTHER key signed validly, with the event signed by the "
            "other key or by the sender's; mapping unsigned / signed by another server / with a bad signature / with an extra bad signature; valid "
            "mapping in an event signed by another key; genuine joins; membership events without mapping) in state and auth chain, join rule public / "
            "invite, each stage failing, the k-th store call failing, a forged copy of the join as remote event; compared: the outcome AND the trace of "
            "StoreSenderIDFromPublicID calls (arguments, order) with a marker where the auth checks of CheckSendJoinResponse begin. "
            "spec stream = the guard predicate of VModel.HandshakeSpec (a refusal is demanded where it is false; where send_join is accepted the "
            "specification demands sig=1 — the entry under (local server, key ID) VERIFIES with the real local key — and unmod=1, built from the "
            "property text, not from the model's answer). non-trivial = every op (each is a distinct "
            "parameter combination)",
    "nontrivial": lambda op, impl: True,
    "trusted": COMMON_TRUSTED + [
        "event-shape facts of the abstract records are read off the concrete events by the accessor models of VModel.Event / VModel.Auth (validated by C07/C09 and by this correspondence)",
        "Allowed(event, state) enters the handler models as an oracle bit (C07); the driver instantiates it with VModel.Auth.allowedFresh, and VProps/C15Compose.lean proves the composed statements (the template passes the C07 model on the supplied state, which is of one room; the one verifier request of send_join / invite was reported valid)",
        "ed25519 / VerifyJSON (used by the harness to check the returned signature)",
        "VModel.Signers.verifyPseudo (C06) as the model of VerifyEventSignatures under JSONVerifierSelf in the PerformInvite ops"],
    "assumptions": [
        "caller contract: queriers, verifier, context non-nil; HandleMakeJoinInput.RoomVersion is known to this server (MustGetRoomVersion panics otherwise)",
        "PerformJoin for org.matrix.msc4014 is modelled as far as the property reaches (VModel.HandshakeInvite.performJoinPseudo: stages, the storeMXIDMappings loop with its arguments and order, its place before CheckSendJoinResponse); CheckSendJoinResponse itself is an oracle bit there (C14 does not cover the pseudo-ID version: signatures are checked by JSONVerifierSelf) which the driver sets from the join rule of the generated room; the pseudo-ID version is not generated for HandleInvite (pseudo-ID invites arrive through HandleInviteV3, which is run with it); HandleSendJoin's pseudo-ID path is modelled (handshake.sendjoin_pseudo)",
        "KNOWN RESIDUE (H1b in org.matrix.msc4014): PerformJoin takes the resident server's copy of the join event without verifying the room-key signature (isSignedJoinEvent lets the pseudo-ID version through: the repository's TestPerformJoinPseudoID answers send_join with a join signed by another key and expects it back); in user-ID room versions a copy is taken iff VerifyEventSignatures accepts it, which admits an EARLIER join of the same user and room that this server signed (replay; closing that needs event-ID equality, which TestPerformJoin/successful_join contradicts)",
        "caller contract of HandleMakeJoin / HandleMakeLeave: input.SenderID and input.UserID name the same user (no querier in the input relates them; reason in VModel/HandshakeSpec.lean)",
        "already joined (invite) := the room is known to this server AND the target's membership there is join (decision H7, argued at Spec.inviteTargetJoined)",
        "PerformInvite: the invite template comes from the local caller (that it is an m.room.member invite is the caller's contract); VerifyEventSignatures under JSONVerifierSelf, EventBuilder.Build and Allowed are oracles (C06 / C03 / C07), the first instantiated by VModel.Signers.verifyPseudo in the driver; in user-ID rooms the answer of SendInvite is handed back unchecked (stated, not demanded)",
        "PerformInvite caller contract for the no-panic theorem: non-nil queriers, context, StoreSenderIDFromPublicID and federation client, a 64-byte signing key, no nil PDU from the EventQuerier, a well-formed key from the SenderIDCreator",
        "RestrictedRoomJoinInfo.JoinedUsers lists users of THIS server (querier contract): 'local user entitled to invite' is stated as membership of that list + entitlement"],
}
