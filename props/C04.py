from props_common import COMMON_TRUSTED

CONFIG = {
    "areas": ["event"],
    "lean": ["VProps.C04"],
    "sources": ["VProps/C04.lean", "VProps/C05.lean", "VModel/EventParse.lean", "VModel/EventSpec.lean", "VModel/Redact.lean",
                "VModel/Hash.lean", "VProofs/EventParse.lean", "VProofs/RedactLookup.lean", "VProofs/RedactCore.lean",
                "VProofs/RedactMaps.lean", "VProofs/RedactMain.lean", "VProofs/RedactExact.lean", "VProofs/RedactCongr.lean",
                "VProofs/EventTamper.lean"],
    "theorems": [
        "V.C04.table_facts", "V.C04.accessors_only_see_json", "V.C04.hash_match_intact", "V.C04.hash_mismatch_redacted",
        "V.C04.tamper_redactable_same_identity_partial",
        "V.C04.identity_of_accepted", "V.C04.tamper_redactable_same_identity", "V.C04.same_redaction_same_identity_intact",
    ],
    "rule": "events built with EventBuilder.Build (real ed25519; 14 event types incl. every protected one, state key absent / '' / "
            "user / other, 0-4 prev and auth references, IntSafe contents, depths 0..2^53-1, all 16 versions) x 27 tamperings "
            "(content keys inside / outside the keep-list added, changed, removed; floats; extra top-level keys incl. case variants "
            "Event_id / Unsigned / Type / long-s sender; unsigned, age_ts, outlier, destinations, event_id; hashes corrupted, retyped, "
            "removed, URL-safe; signatures edited / removed; type, state key, sender at 255/256 code points and bytes; bad / missing "
            "room IDs; retyped struct fields; '_' keys; removed fields), each with and without a re-computed content hash, total size "
            "65535/65536/65537 bytes, the redacted form re-submitted, re-styled texts, hand-made events; each text through "
            "NewEventFromUntrustedJSON (+ specification stream: the expected accessor tuple computed from the property's words), "
            "NewEventFromTrustedJSON, ...WithEventID and the headered form. Compared: EventID, RoomID, Type, StateKey, SenderID, "
            "Redacted, Depth, OriginServerTS, PrevEventIDs, AuthEventIDs, Content, Unsigned, canonical JSON, JSON length, error class. "
            "non-trivial = an untrusted parse that returned an event",
    "nontrivial": lambda op, impl: op.startswith("event.parse_untrusted") and impl.startswith("ok:"),
    "trusted": COMMON_TRUSTED + [
        "encoding/json struct decoding of eventV1/eventV2/eventV3 modelled by VModel.EventParse.decodeFields",
        "sjson.DeleteBytes / gjson.GetBytes on top-level members modelled as first-occurrence delete / lookup",
        "CanonicalJSONAssumeValid and CanonicalJSON o json.Marshal = encodeCanon on values without duplicate keys (C01)",
        "SHA-256 is a parameter H of the model (the driver plugs in VModel.Hash.sha256, validated by every event ID and content hash compared)",
        "base64: VModel.B64 (C17)",
    ],
    "assumptions": [
        "texts with ill-formed Unicode or duplicate keys anywhere are skipped (canonical form outside C01's specification); a repeated "
        "prev_events / auth_events member is not modelled (stale slice elements)",
        "the redaction is C05's (its domain restrictions apply: kept content IntSafe etc.)",
        "case variants of keys stripped on receipt (\"Unsigned\", \"Age_ts\", ...) survive the stripping and are visible through "
        "Unsigned() / in JSON(); they are covered by the content hash (only the sender can add them) and disappear on redaction; "
        "the specification stream treats events with a case variant of a struct field as outside the quantifier",
        "tamper_redactable_same_identity (full strength for the property's quantifier): the two stripped events' redactions agree up to "
        "the event_id member the keep struct re-emits for a case variant such as Event_id (hsame: equal after deleteFirst event_id), so the "
        "Event_id path of commit c0dfbd8 (reset of the decoded ID, key dropped from the redacted JSON, re-parse) is now proved, not only "
        "sampled. Side condition hc1/hc2, explicit and shown satisfiable: an event returned NOT redacted (hash matched) has no event_id in "
        "its redaction, i.e. carries no case variant of event_id - true of every Build output and of every hash-preserving copy. It cannot "
        "be dropped: a sender-made event {Event_id:\"$x\", valid hash} and its content-tampered copy have the same redaction but different "
        "event IDs (the intact event's reference hash covers the re-emitted event_id, the re-parsed redacted copy's does not) - kernel-"
        "evaluated counter-example in VProps/C04.lean, replayed on the Go code; root: case-insensitive key matching of the redaction keep "
        "struct (C05's domain restriction). same_redaction_same_identity_intact covers the remaining true case (both intact, same "
        "redaction); tamper_redactable_same_identity_partial is kept as a corollary",
        "hash_mismatch_redacted characterises JSON() (= canonical encoding of the redaction) and, via accessors_only_see_json, the "
        "accessors; that the redaction has only kept keys is C05.redact_exact (well-formed events)",
    ],
}
