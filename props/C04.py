from props_common import COMMON_TRUSTED

CONFIG = {
    "areas": ["event"],
    "lean": ["VProps.C04"],
    "sources": ["VProps/C04.lean", "VProps/C05.lean", "VModel/EventParse.lean", "VModel/EventSpec.lean", "VModel/Redact.lean",
                "VModel/Hash.lean", "VProofs/EventParse.lean", "VProofs/RedactLookup.lean", "VProofs/RedactCore.lean",
                "VProofs/RedactMaps.lean", "VProofs/RedactMain.lean", "VProofs/RedactExact.lean",
                "VProofs/EventTamper.lean"],
    "theorems": [
        "V.C04.table_facts", "V.C04.accessors_only_see_json", "V.C04.hash_match_intact", "V.C04.hash_mismatch_redacted",
        "V.C04.redaction_no_event_id", "V.C04.dropEventID_noop", "V.C04.accepted_no_event_id",
        "V.C04.identity_of_accepted", "V.C04.tamper_redactable_same_identity", "V.C04.same_redaction_same_identity_intact",
    ],
    "rule": "events built with EventBuilder.Build (real ed25519; 14 event types incl. every protected one, state key absent / '' / "
            "user / other, 0-4 prev and auth references, IntSafe contents, depths 0..2^53-1, all 16 versions) x 27 tamperings "
            "(content keys inside / outside the keep-list added, changed, removed; floats; extra top-level keys incl. case variants "
            "Event_id / Unsigned / Type / long-s sender; unsigned, age_ts, outlier, destinations, event_id; hashes corrupted, retyped, "
            "removed, URL-safe; signatures edited / removed; type, state key, sender at 255/256 code points and bytes; bad / missing "
            "room IDs; retyped struct fields; '_' keys; removed fields), each with and without a re-computed content hash, total size "
            "65535/65536/65537 bytes, the redacted form re-submitted, re-styled texts, hand-made events; each text through "
            "NewEventFromUntrustedJSON (+ specification stream: the expected accessor tuple computed from the property's words), "
            "NewEventFromTrustedJSON, ...WithEventID and the headered form. Compared: EventID, RoomID, Type, StateKey, SenderID, "
            "Redacted, Depth, OriginServerTS, PrevEventIDs, AuthEventIDs, Content, Unsigned, canonical JSON, JSON length, error class. "
            "non-trivial = an untrusted parse that returned an event",
    "nontrivial": lambda op, impl: op.startswith("event.parse_untrusted") and impl.startswith("ok:"),
    "trusted": COMMON_TRUSTED + [
        "encoding/json struct decoding of eventV1/eventV2/eventV3 modelled by VModel.EventParse.decodeFields",
        "sjson.DeleteBytes / gjson.GetBytes on top-level members modelled as first-occurrence delete / lookup",
        "CanonicalJSONAssumeValid and CanonicalJSON o json.Marshal = encodeCanon on values without duplicate keys (C01)",
        "SHA-256 is a parameter H of the model (the driver plugs in VModel.Hash.sha256, validated by every event ID and content hash compared)",
        "base64: VModel.B64 (C17)",
    ],
    "assumptions": [
        "texts with ill-formed Unicode or duplicate keys anywhere are skipped (canonical form outside C01's specification); a repeated "
        "prev_events / auth_events member is not modelled (stale slice elements)",
        "the redaction is C05's (its domain restrictions apply: kept content IntSafe etc.)",
        "case variants of keys stripped on receipt (\"Unsigned\", \"Age_ts\", ...) survive the stripping and are visible through "
        "Unsigned() / in JSON(); they are covered by the content hash (only the sender can add them) and disappear on redaction; "
        "the specification stream treats events with a case variant of an EVENT-struct field (room_id, sender, type, state_key, content, "
        "redacts, depth, unsigned, origin_server_ts, prev_events, auth_events, sticky; event_id only in format 1) or of a key stripped on "
        "receipt as outside the quantifier (the event structs are filled by encoding/json: lenient parsing); variants of names only the "
        "redaction keep struct lists (hashes, signatures, origin, prev_state, membership) and of event_id in hashed-ID formats are INSIDE",
        "tamper_redactable_same_identity (full strength, NO side condition since the redactEventJSON repair): two received events of a "
        "hashed-ID format whose stripped forms have the same redaction get the same event ID and the same signature verdicts, whichever of "
        "them passed the hash check and whatever case variants of protected keys (Event_id, ...) they carry. The former side condition hc1/hc2 "
        "('an event that passed the hash check carries no case variant of event_id') is gone: redaction matches keys exactly, the exact key "
        "event_id is stripped on receipt, so no redaction of a received event has an event_id member (redaction_no_event_id, "
        "accepted_no_event_id; identity_of_accepted: redaction and ID of an accepted event are those of the stripped input). The pair that was "
        "the kernel-evaluated counter-example before the repair (sender-made {Event_id:\"$x\", valid hash} and its content-tampered copy) is "
        "now an `example` with EQUAL IDs and is in corpus/C04/event.ops; same_redaction_same_identity_intact is kept as the instance 'both intact'; "
        "tamper_redactable_same_identity_partial (the form with 'no event_id in the redaction' as a hypothesis) is removed - it is subsumed",
        "hash_mismatch_redacted characterises JSON() (= canonical encoding of the redaction) and, via accessors_only_see_json, the "
        "accessors; that the redaction has only kept keys is C05.redact_exact / redact_drops_unlisted (case variants included)",
    ],
}
