from props_common import COMMON_TRUSTED

CONFIG = {
    "areas": ["event"],
    "lean": ["VProps.C04"],
    "sources": ["VProps/C04.lean", "VProps/C05.lean", "VModel/EventParse.lean", "VModel/EventSpec.lean", "VModel/Redact.lean",
                "VModel/Hash.lean", "VProofs/EventParse.lean", "VProofs/RedactLookup.lean", "VProofs/RedactCore.lean",
                "VProofs/RedactMaps.lean", "VProofs/RedactMain.lean", "VProofs/RedactExact.lean",
                "VProofs/EventTamper.lean"],
    "theorems": [
        "V.C04.table_facts", "V.C04.accessors_only_see_json", "V.C04.hash_match_intact", "V.C04.hash_mismatch_redacted",
        "V.C04.redaction_no_event_id", "V.C04.dropEventID_noop", "V.C04.accepted_no_event_id",
        "V.C04.identity_of_accepted", "V.C04.tamper_redactable_same_identity", "V.C04.same_redaction_same_identity_intact",
        # round 4 (fixes 7c511f2, 849cf70): texts that do not denote ONE event are refused on receipt; every accessor of an
        # accepted event reports the exact member of JSON()
        "V.C04.refuses_repeated_member", "V.C04.refuses_field_variant", "V.C04.keep_names_no_variant",
        "V.C04.accepted_keys_nodup", "V.C04.accepted_no_variant", "V.C04.accessors_read_exact_members",
    ],
    "rule": "event.untrusted_view (round 3): for every text the untrusted constructor hands an event back for - also together with a too-large-but-persistable error - the harness evaluates the clauses on what the caller gets: not flagged redacted => the content hash, recomputed without the library event code, matches; flagged => JSON() is its own redaction; and every accessor (the parse tuple plus Redacts(), IsSticky(), StickyEndTime(), Version(), Membership(), JoinRule(), StateKeyEquals) answers as on the same JSON re-read as trusted input (accessors_only_see_json on the implementation); tampering inject.accessor-keys adds redacts / sticky / msc4354_sticky next to a content change. events built with EventBuilder.Build (real ed25519; 14 event types incl. every protected one, state key absent / '' / "
            "user / other, 0-4 prev and auth references, IntSafe contents, depths 0..2^53-1, all 16 versions) x 27 tamperings "
            "(content keys inside / outside the keep-list added, changed, removed; floats; extra top-level keys incl. case variants "
            "Event_id / Unsigned / Type / long-s sender; unsigned, age_ts, outlier, destinations, event_id; hashes corrupted, retyped, "
            "removed, URL-safe; signatures edited / removed; type, state key, sender at 255/256 code points and bytes; bad / missing "
            "room IDs; retyped struct fields; '_' keys; removed fields), each with and without a re-computed content hash, total size "
            "65535/65536/65537 bytes, the redacted form re-submitted, re-styled texts, hand-made events; ADVERSARIAL TEXTS assembled "
            "member by member (a Go map cannot hold them): a second, FORGED hashes member before / after the genuine one on a "
            "content-tampered copy of a signed event (the forged hash is what the receiver's hash check computes when it drops only the "
            "first hashes member), a second top-level member of 15 names (unsigned, signatures, content, type, sender, room_id, state_key, "
            "depth, origin_server_ts, prev_events, auth_events, hashes, redacts, event_id, extra) before / after the genuine one, repeated "
            "members inside content (join_authorised_via_users_server of a member event, any content key, depth 3), inside unsigned / "
            "signatures / hashes; every event-struct JSON name x {Capitalised, UPPER, mixed, U+017F / U+212A spelling} x {alone, beside a "
            "null exact key, after an over-long exact key, before / after the exact key with another value}, 75% with the hash the receiver "
            "computes; the specification stream answers REFUSED for every text that repeats a member name at any depth or carries a "
            "case variant of a struct field name (EventSpec.mustRefuse; printed in the model's error class when the model refuses, "
            "err:badjson otherwise); each text through "
            "NewEventFromUntrustedJSON (+ specification stream: the expected accessor tuple computed from the property's words), "
            "NewEventFromTrustedJSON, ...WithEventID and the headered form. Compared: EventID, RoomID, Type, StateKey, SenderID, "
            "Redacted, Depth, OriginServerTS, PrevEventIDs, AuthEventIDs, Content, Unsigned, canonical JSON, JSON length, error class. "
            "non-trivial = an untrusted parse that returned an event",
    "nontrivial": lambda op, impl: op.startswith("event.parse_untrusted") and impl.startswith("ok:"),
    "trusted": COMMON_TRUSTED + [
        "encoding/json struct decoding of eventV1/eventV2/eventV3 modelled by VModel.EventParse.decodeFields",
        "sjson.DeleteBytes / gjson.GetBytes on top-level members modelled as first-occurrence delete / lookup",
        "CanonicalJSONAssumeValid and CanonicalJSON o json.Marshal = encodeCanon on values without duplicate keys (C01)",
        "SHA-256 is a parameter H of the model (the driver plugs in VModel.Hash.sha256, validated by every event ID and content hash compared)",
        "base64: VModel.B64 (C17)",
    ],
    "assumptions": [
        "texts with ill-formed Unicode are skipped (canonical form outside C01's specification). Texts that repeat a member name (any "
        "object, any depth) are INSIDE the untrusted op since round 4: the specification demands refusal, the model refuses "
        "(err:badjson, as newEventFromUntrustedJSONV1/V2/V3 do since 7c511f2); on the trusted / headered ops such texts are still "
        "skipped (the trusted constructors are not the receipt path)",
        "the redaction is C05's (its domain restrictions apply: kept content IntSafe etc.)",
        "case variants of EVENT-struct field names (room_id, sender, type, state_key, content, redacts, depth, unsigned, origin_server_ts, "
        "event_id, prev_events, auth_events, msc4354_sticky, sticky) as top-level members: the specification demands REFUSAL (an accessor "
        "must report the exact member of JSON(); before 849cf70 the struct decoding read them as the field, e.g. Type() differed between "
        "two texts with the same JSON() and event ID) - no longer 'outside the quantifier'. Variants of keys that are only stripped on "
        "receipt (Outlier, Age_ts, Destinations) and of names only the redaction keep struct lists (hashes, signatures, origin, "
        "prev_state, membership) are ordinary members: covered by the content hash, dropped by redaction, INSIDE the specification",
        "refuses_repeated_member / refuses_field_variant: for every text, version and hash function; accessors_read_exact_members: for every "
        "accepted event and every struct field name n, the members the struct decoding reads into the field are exactly the member named n "
        "(accepted_keys_nodup, accepted_no_variant; keep_names_no_variant is the regenerated-table fact that no keep-struct name is a case "
        "variant of a struct field name, needed for the re-parsed redacted form)",
        "tamper_redactable_same_identity (full strength, NO side condition since the redactEventJSON repair): two received events of a "
        "hashed-ID format whose stripped forms have the same redaction get the same event ID and the same signature verdicts, whichever of "
        "them passed the hash check and whatever case variants of protected keys (Event_id, ...) they carry. The former side condition hc1/hc2 "
        "('an event that passed the hash check carries no case variant of event_id') is gone: redaction matches keys exactly, the exact key "
        "event_id is stripped on receipt, so no redaction of a received event has an event_id member (redaction_no_event_id, "
        "accepted_no_event_id; identity_of_accepted: redaction and ID of an accepted event are those of the stripped input). The pair that was "
        "the kernel-evaluated counter-example before the repair (sender-made {Event_id:\"$x\", valid hash} and its content-tampered copy) is "
        "now an `example` with EQUAL IDs and is in corpus/C04/event.ops; same_redaction_same_identity_intact is kept as the instance 'both intact'; "
        "tamper_redactable_same_identity_partial (the form with 'no event_id in the redaction' as a hypothesis) is removed - it is subsumed",
        "hash_mismatch_redacted characterises JSON() (= canonical encoding of the redaction) and, via accessors_only_see_json, the "
        "accessors; that the redaction has only kept keys is C05.redact_exact / redact_drops_unlisted (case variants included)",
    ],
}
