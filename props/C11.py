from props_common import COMMON_TRUSTED

CONFIG = {
    "areas": ["stateres", "topo"],
    "lean": ["VProps.C11"],
    "sources": ["VProps/C11.lean", "VModel/StateRes.lean"],
    "theorems": ["V.C11.set_keysNodup", "V.C11.applyEvents_keysNodup", "V.C11.authAndApply_keysNodup"],
    "rule": "as C10; every resolve op is executed on 5 presentations (permuted sets, permuted events, permuted auth list with duplicated "
            "entries) and must give one result; result predicates (subset of inputs, agreed keys kept, equal sets returned, one event per key) "
            "are evaluated by the driver on the implementation's answer; topo ops: random subsets of a history in random presentation order, "
            "35% with duplicated events, by auth events and by prev events: permutation of the distinct inputs + ancestors first",
    "nontrivial": lambda op, impl: True,
    "trusted": COMMON_TRUSTED,
    "assumptions": ["version-1 resolver: auth events as that resolver documents them (the unconflicted auth events, one per state key)"],
}
