from props_common import COMMON_TRUSTED

CONFIG = {
    "areas": ["stateres", "topo"],
    "lean": ["VProps.C11"],
    "sources": ['VProps/C11.lean',
                'VModel/StateRes.lean',
                'VProofs/StateResBasic.lean',
                'VProofs/StateResClosure.lean',
                'VProofs/StateResFlow.lean',
                'VProofs/StateResGroup.lean',
                'VProofs/StateResInvariant.lean',
                'VProofs/StateResKahnSim.lean',
                'VProofs/StateResKahnSim2.lean',
                'VProofs/StateResKahnTopo.lean',
                'VProofs/StateResKahnTopo2.lean',
                'VProofs/StateResMapEq.lean',
                'VProofs/StateResOld.lean',
                'VProofs/StateResSort.lean',
                'VProofs/StateResSplit.lean',
                'VProofs/StateResStages.lean',
                'VProofs/StateResState.lean',
                'VProofs/StateResV1.lean',
                'VProofs/StateResV1Ex.lean',
                'VProofs/StateResV1b.lean',
                'VProofs/StateResV1c.lean',
                'VProofs/StateResV1d.lean',
                'VProofs/StateResV1e.lean',
                'VProofs/StateResV1f.lean',
                'VProofs/StateResV1g.lean',
                'VProofs/StateResWF.lean',
                'VProofs/AuthLookup.lean',
                'VProofs/Order.lean'],
    "theorems": ['V.C11.set_keys',
                 'V.C11.set_keysNodup',
                 'V.C11.applyEvents_keysNodup',
                 'V.C11.authAndApply_keysNodup',
                 'V.C11.result_eq_finalState',
                 'V.C11.stateWF_facts',
                 'V.C11.result_unique_keys',
                 'V.C11.result_subset_inputs',
                 'V.C11.unconflicted_iff',
                 'V.C11.agreed_is_unconflicted',
                 'V.C11.result_keeps_agreed',
                 'V.C11.resolve_all_equal',
                 'V.C11.Input.setsU',
                 'V.C11.SetsEquiv.of_perm',
                 'V.C11.SetsEquiv.of_eachPerm',
                 'V.C11.split_perm_invariant',
                 'V.C11.authDifference_perm_invariant',
                 'V.C11.controlSet_perm_invariant',
                 'V.C11.stages_perm_invariant',
                 'V.C11.internal_order_irrelevant',
                 'V.C11.resolve_perm_invariant',
                 'V.C11.resolve_same_ids',
                 'V.C11.powerLt_strictTotal',
                 'V.C11.otherLt_strictTotal',
                 'V.C11.kahn_perm',
                 'V.C11.kahn_topological',
                 'V.C11.kahn_topological_ancestors',
                 'V.C11.kahn_input_order_irrelevant',
                 'V.C11.reverseTopoAuth_perm',
                 'V.C11.reverseTopoAuth_topological',
                 'V.C11.reverseTopoAuth_input_order_irrelevant',
                 'V.C11.reverseTopoPrev_perm',
                 'V.C11.reverseTopoPrev_topological',
                 'V.C11.reverseTopoPrev_input_order_irrelevant',
                 'V.C11.mainlineOrdering_perm',
                 'V.C11.mainlineOrdering_input_order_irrelevant',
                 'V.C11.publicTopoAuth_perm',
                 'V.C11.publicTopoAuth_topological',
                 'V.C11.publicTopoAuth_input_order_irrelevant',
                 'V.C11.linearise_deterministic',
                 'V.C11.v1_result_unique_keys',
                 'V.C11.v1_result_subset_inputs',
                 'V.C11.v1_result_keys_complete',
                 'V.C11.blocks_order_irrelevant',
                 'V.C11.v1_perm_invariant',
                 'V.C11.v1_entry_well_formed',
                 'V.C11.resolveConflictsNew_perm_invariant',
                 'V.C11.old_result_eq_finalStateOld',
                 'V.C11.old_result_unique_keys',
                 'V.C11.old_result_subset_inputs',
                 'V.C11.old_result_keeps_unconflicted',
                 'V.C11.old_perm_invariant',
                 'V.C11.resolveConflictsOld_perm_invariant',
                 'V.C11.resolveConflictsOld_well_formed'],
    "rule": "as C10; every resolve op is executed on 5 presentations (permuted sets, permuted events, permuted auth list with duplicated "
            "entries) and must give one result; result predicates (subset of inputs, agreed keys kept, equal sets returned, one event per key) "
            "are evaluated by the driver on the implementation's answer; the deprecated entry point ResolveConflicts (resolve_old, 30% of the "
            "histories) is compared with the model's resolveConflictsOld; topo ops: random subsets of a history in random presentation order, "
            "35% with duplicated events, by auth events and by prev events: permutation of the distinct inputs + ancestors first; "
            "topo.linearise: LineariseStateResponse on the state of a branch + its auth chain (room versions 1-2, whose generated event IDs survive "
            "the untrusted parse), its answer fed to the same ordering predicates; 30% of the stateres histories carry control-event TYPES under "
            "non-empty state keys (each (type, state_key) is its own slot: the agreed-keys / equal-sets predicates see a resolver that merges them); "
            "resolve_twice ('on every run of the process'): history A resolved twice around a history B that re-uses A's event IDs with other "
            "power-level contents, in one process, order B, A, B, A: both answers for A must be the definition's; resolve_cyc / resolve_old_cyc: "
            "room-version 1 / 2 histories whose auth_events were made cyclic, run in a child process (a fatal stack overflow / hang is the outcome "
            "panic:fatal-stack-overflow / panic:timeout), the result predicates evaluated on the answer",
    "nontrivial": lambda op, impl: True,
    "trusted": COMMON_TRUSTED,
    "assumptions": ["version-1 resolver: auth events as that resolver documents them (the unconflicted auth events, one per state key): "
                    "V.C11.V1Input P1-P3; without P2 (an auth event on a conflicted key) the v1 answer depends on the order of the conflicted "
                    "events, i.e. on Go's map iteration order (reproduced on the real code, see the C11 report)",
                    "within the supplied events the event ID identifies the event and there is at most one create event (V.C11.Input)"],
}
# statement-by-statement translation of small pure Go functions (tools/extract/trans.go -> lean/VGen/TransStateRes.lean) and the
# theorems that the translated definitions equal the model's, for all inputs (lean/VProps/TransStateRes.lean)
CONFIG["lean"] = list(CONFIG["lean"]) + ["VProps.TransStateRes"]
CONFIG["sources"] = list(CONFIG["sources"]) + ['VProps/TransStateRes.lean', 'VModel/GoSem.lean']
CONFIG["theorems"] = list(CONFIG["theorems"]) + ['V.Trans.StateRes.powerLevelHeap_lt_eq_model', 'V.Trans.StateRes.powerLevelHeap_zero_iff', 'V.Trans.StateRes.otherHeap_lt_eq_model', 'V.Trans.StateRes.powerLevelHeap_strict_total', 'V.Trans.StateRes.v1Less_eq_model']
CONFIG["trusted"] = list(CONFIG["trusted"]) + ["tools/extract/trans.go: the Go-to-Lean translation of the whitelisted functions and the Go semantics of lean/VModel/GoSem.lean (DESIGN.md §14)"]
