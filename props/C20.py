from props_common import COMMON_TRUSTED

_SOURCE = [
    "V.C20.clock_is_unix_seconds",
    "V.C20.consts_match_model",
    "V.C20.verifyCaveats_source",
    "V.C20.verifyExpiry_source",
    "V.C20.validate_source",
    "V.C20.generate_source",
    "V.C20.validate_iff",
    "V.C20.undecodable_refused",
    "V.C20.generate_eq",
    "V.C20.issued_cids",
    "V.C20.issued_validates",
    "V.C20.time_caveat_unique",
    "V.C20.expires",
    "V.C20.default_duration",
    "V.C20.altered_sig",
    "V.C20.altered_content",
    "V.C20.wrong_key",
    "V.C20.wrong_key_issued",
    "V.C20.wrong_user",
    "V.C20.wrong_user_issued",
    "V.C20.exactly_three",
    "V.C20.extra_caveat",
    "V.C20.unknown_caveat",
    "V.C20.missing_caveat",
    "V.C20.get_user",
    "V.C20.spec_validOk_iff",
]

CONFIG = {
    "areas": ["tokens"],
    "lean": ["VProps.C20"],
    "sources": ["VProps/C20.lean", "VModel/Tokens.lean", "VProofs/Tokens.lean"],
    "theorems": _SOURCE,
    "rule": "issue parameters (secret incl. nil/empty, server, user incl. non-UTF-8 / caveat-lookalike, duration 0=default, 1-3, negative, "
            "extreme) x validation parameters (same/other key, same/other user) x caveat-level alterations built with the macaroon "
            "library (append gen/user/time/unknown/third-party, drop, reorder, duplicate, from scratch under right/wrong key, stale "
            "signature over changed content) x expiry boundaries now-2..now+3 via clock-relative recipes x byte-level alterations "
            "(substitute, bit flip incl. every bit of one token, insert, delete, truncate at every length) x real waits (thorough); an op is "
            "non-trivial unless it is a get_user echo; distinct by op line",
    "nontrivial": lambda op, impl: not op.startswith("tokens.get_user"),
    "trusted": COMMON_TRUSTED + [
        "gopkg.in/macaroon.v2 (binary codec V1/V2, HMAC chain) and encoding/base64: modelled as (id, caveats, sig) with an abstract keyed "
        "function; the harness extracts the abstract token and its signature provenance with the same library",
        "HMAC-SHA256 idealised only through the explicit hypothesis structure IdealMac (no axiom)",
        "strconv.Atoi / Itoa modelled on byte strings (validated by correspondence incl. overflow boundaries)",
    ],
    "assumptions": [
        "'altered' = the decoded macaroon (id, caveat list, signature) differs: base64/codec spellings and the unauthenticated location "
        "field that decode to the same token validate alike and are outside the statement (counted in the input distribution)",
        "now + duration within int64 (otherwise Go's addition wraps; modelled, spec stream says unspecified)",
        "the clock does not go backwards between issue and validation",
    ],
}
# statement-by-statement translation of small pure Go functions (tools/extract/trans.go -> lean/VGen/TransTokens.lean) and the
# theorems that the translated definitions equal the model's, for all inputs (lean/VProps/TransTokens.lean)
CONFIG["lean"] = list(CONFIG["lean"]) + ["VProps.TransTokens"]
CONFIG["sources"] = list(CONFIG["sources"]) + ['VProps/TransTokens.lean', 'VModel/GoSem.lean']
CONFIG["theorems"] = list(dict.fromkeys(list(CONFIG["theorems"]) + ['V.Trans.Tokens.atoi_eq', 'V.Trans.Tokens.verifyExpiry_eq_model', 'V.Trans.Tokens.verifyExpiry_true_iff']))
CONFIG["trusted"] = list(CONFIG["trusted"]) + ["tools/extract/trans.go: the Go-to-Lean translation of the whitelisted functions and the Go semantics of lean/VModel/GoSem.lean (DESIGN.md §14)"]
