from props_common import COMMON_TRUSTED
import importlib.util as _ilu, os as _os
# the key ring is the JSONVerifier of real deployments: its obligations are C06 obligations too
_sp = _ilu.spec_from_file_location("props_C12_for_C06", _os.path.join(_os.path.dirname(_os.path.abspath(__file__)), "C12.py"))
_C12 = _ilu.module_from_spec(_sp); _sp.loader.exec_module(_C12)

CONFIG = {
    "areas": ["signers", "keyring"],
    # of the key-ring area only the operations VerifyEventSignatures goes through (the key-response checks of the fetchers are C12's)
    "op_filter": {"keyring": ["keyring.verify_jsons", "keyring.was_valid_at"]},
    "lean": ["VProps.C06", "VProps.C06Ring", "VProps.C12"],
    "sources": ["VProps/C06.lean", "VModel/Signers.lean", "VModel/Event.lean", "VModel/GoJson.lean", "VModel/Sign.lean", "VModel/Auth.lean",
                "VProps/C06Ring.lean", "VProps/C12.lean", "VModel/KeyRing.lean", "VProofs/KeyRing.lean"],
    "theorems": [
        "V.C06.columns_eq_spec", "V.C06.required_eq_spec", "V.C06.verify_iff", "V.C06.verify_iff_spec",
        "V.C06.undeterminable_rejects", "V.C06.others_irrelevant", "V.C06.one_bad_fails", "V.C06.bad_sender_rejects",
        "V.C06.no_panic", "V.C06.pseudo_sender_required", "V.C06.pseudo_mapping_signers_valid", "V.C06.pseudo_foreign_mapping_rejected",
        "V.C06.membership_eq_auth_reading", "V.C06.auth_authoriser_required", "V.C06.memberContent_eq_spec", "V.C06.memberContent_eq_auth",
        "V.C06.verify_all_pointwise", "V.C06.verify_all_batch_irrelevant", "V.C06.verify_all_spec",
        "V.C06Ring.verify_with_keyring_sound", "V.C06Ring.verify_all_with_keyring_sound", "V.C06Ring.verify_with_keyring_sound_validAt", "V.C06Ring.verify_with_keyring_one_bad",
        "V.C06Ring.verify_with_keyring_complete",
    ] + [t for t in _C12.CONFIG["theorems"] if not any(k in t for k in ("checkKeys", "checkVerifyKeys", "publicKey_", "mapServerKeys", "fetchKeysForServer", "fetchNotaryKeys", "perspective", "fetcher_accepts", "direct_accepts", "notaryValid", "past_valid_until"))],
    "rule": "signers.verify_all (round 3): VerifyAllEventSignatures on 2-7 events of one version with one verifier - events with several required "
            "servers, the same event twice, two different events under one event ID (versions 1-2) - each asked server answering at random; one verdict per event, each "
            "equal to that of VerifyEventSignatures on the event alone (verify_all_pointwise). server names with capitals (a name and its lower-case form are different "
            "servers, answering opposite). events of every membership (join/invite/leave/ban/knock/odd) and non-member types x all 16 room versions; senders, "
            "state keys and join_authorised_via_users_server on several domains (ports, IP literals, punycode), malformed IDs "
            "(no sigil, no colon, empty server), non-string / null / case-variant members, v1/v2 event IDs naming other servers or "
            "malformed; pseudo-ID (msc4014) events really signed with generated ed25519 sender / invitee keys (absent, other key ID, "
            "corrupted), mxid_mapping absent / unsigned / signed by the user's server / by another server / ill-typed / FOR ANOTHER KEY than the sender (K3); "
            "member contents written as raw JSON text (member order kept, not canonicalised) with other spellings of `membership` / "
            "`join_authorised_via_users_server` (Capitalised, UPPER, U+017F, one letter) alone and next to the exact name, before or after it, "
            "with other values, and the exact name twice (K1 / K2: every fifth event, mostly in restricted-join versions); op member_reading "
            "compares NewMemberContentFromEvent (the reading of the auth rules: membership, authoriser) with the exact-name reading, and op verify "
            "reports `ok:authoriser-of-the-auth-rules-not-required` (never an answer of the specification) when an event verified as a join "
            "whose authoriser, as the real NewMemberContentFromEvent reads it, had not to sign; for each event a probe run learns which servers are asked, then EVERY subset of them answers valid while "
            "the rest fail, with unrelated servers answering either way; the scripted JSONVerifier records server, timestamp, "
            "validity rule and whether the message is RedactEventJSON(event). Every op is a distinct (event, verifier script) pair; "
            "distinct by op line",
    "nontrivial": lambda op, impl: True,
    "trusted": COMMON_TRUSTED + [
        "the JSONVerifier is an oracle valid(server, ts, rule) in verify_iff; for the real KeyRing the oracle is discharged by the C12 "
        "model (verify_with_keyring_sound / _complete compose the two) whose correspondence (keyring.verify_jsons ops) runs here too; "
        "the signature check itself is C02; redaction is C05's "
        "model — the correspondence checks that the message handed to the verifier is RedactEventJSON(event JSON)",
        "encoding/json decoding of the content into map[string]RawMessage / {membership} / MemberContent after exactFieldsOnly, "
        "spec.NewUserID(sender, true) modelled (VModel.Signers / VModel.Event)",
        "the auth rules' side of the tie (auth_authoriser_required) is NewMemberContentFromEvent as modelled by Signers.memberContent and "
        "compared with the real function by op member_reading; VModel/Auth.lean's decodeMemberContent (C07) reads the same exact "
        "member names and is related to it, for every content, by memberContent_eq_auth",
    ],
    "assumptions": [
        "userIDForSender is the standard resolver spec.NewUserID(sender, true); a (nil, nil) answer ('no sender signature needed') "
        "is the caller's contract and not claimed",
        "the verifier returns one result per request (its documented contract)",
        "room version org.matrix.msc4014 (pseudo IDs) has its own model (verifyPseudo): JSONVerifierSelf is an oracle selfValid(name) "
        "computed by the generator with VerifyJSON over RedactEventJSON(event) (C02, C05); the specification stream demands, for a "
        "join, that the sender's own key signed, that mxid_mapping.user_room_key IS the sender (K3) and a valid mxid_mapping signature of the "
        "server of mxid_mapping.user_id (the sender's server), and is silent otherwise",
        "a content that has the name `membership` or `join_authorised_via_users_server` TWICE is outside the property (unspecified: not a "
        "JSON object in the proper sense; the untrusted constructors refuse such events); the code and the model take the last one, "
        "as the auth rules do",
        "outside the claim (observed, not judged): in an msc4014 room the server named by join_authorised_via_users_server is handed to "
        "JSONVerifierSelf, which base64-decodes the SERVER NAME as a public key, so a restricted join can never verify there",
    ],
}
# statement-by-statement translation of small pure Go functions (tools/extract/trans.go -> lean/VGen/TransKeys.lean) and the
# theorems that the translated definitions equal the model's, for all inputs (lean/VProps/TransKeys.lean)
CONFIG["lean"] = list(CONFIG["lean"]) + ["VProps.TransKeys"]
CONFIG["sources"] = list(CONFIG["sources"]) + ['VProps/TransKeys.lean', 'VModel/GoSem.lean']
CONFIG["theorems"] = list(dict.fromkeys(list(CONFIG["theorems"]) + ['V.Trans.Keys.wasValidAt_eq_model', 'V.Trans.Keys.wasValidAt_spec']))
CONFIG["trusted"] = list(CONFIG["trusted"]) + ["tools/extract/trans.go: the Go-to-Lean translation of the whitelisted functions and the Go semantics of lean/VModel/GoSem.lean (DESIGN.md §14)"]
