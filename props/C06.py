from props_common import COMMON_TRUSTED

CONFIG = {
    "areas": ["signers"],
    "lean": ["VProps.C06"],
    "sources": ["VProps/C06.lean", "VModel/Signers.lean", "VModel/Event.lean", "VModel/GoJson.lean", "VModel/Sign.lean", "VModel/Auth.lean"],
    "theorems": [
        "V.C06.columns_eq_spec", "V.C06.required_eq_spec", "V.C06.verify_iff", "V.C06.verify_iff_spec",
        "V.C06.undeterminable_rejects", "V.C06.others_irrelevant", "V.C06.one_bad_fails", "V.C06.bad_sender_rejects",
        "V.C06.no_panic", "V.C06.pseudo_sender_required", "V.C06.pseudo_mapping_signers_valid",
    ],
    "rule": "events of every membership (join/invite/leave/ban/knock/odd) and non-member types x all 16 room versions; senders, "
            "state keys and join_authorised_via_users_server on several domains (ports, IP literals, punycode), malformed IDs "
            "(no sigil, no colon, empty server), non-string / null / case-variant members, v1/v2 event IDs naming other servers or "
            "malformed; pseudo-ID (msc4014) events really signed with generated ed25519 sender / invitee keys (absent, other key ID, "
            "corrupted), mxid_mapping absent / unsigned / signed by the user's server / by another server / ill-typed; for each event a probe run learns which servers are asked, then EVERY subset of them answers valid while "
            "the rest fail, with unrelated servers answering either way; the scripted JSONVerifier records server, timestamp, "
            "validity rule and whether the message is RedactEventJSON(event). Every op is a distinct (event, verifier script) pair; "
            "distinct by op line",
    "nontrivial": lambda op, impl: True,
    "trusted": COMMON_TRUSTED + [
        "the JSONVerifier (KeyRing: C12; the signature check itself: C02) is an oracle valid(server, ts, rule); redaction is C05's "
        "model — the correspondence checks that the message handed to the verifier is RedactEventJSON(event JSON)",
        "gjson.GetBytes(content, key).String(), encoding/json struct decoding of {membership}, spec.NewUserID(sender, true) "
        "modelled (VModel.Signers / VModel.Event)",
    ],
    "assumptions": [
        "userIDForSender is the standard resolver spec.NewUserID(sender, true); a (nil, nil) answer ('no sender signature needed') "
        "is the caller's contract and not claimed",
        "the verifier returns one result per request (its documented contract)",
        "room version org.matrix.msc4014 (pseudo IDs) has its own model (verifyPseudo): JSONVerifierSelf is an oracle selfValid(name) "
        "computed by the generator with VerifyJSON over RedactEventJSON(event) (C02, C05); the specification stream demands, for a "
        "join, a valid mxid_mapping signature of the server of mxid_mapping.user_id (the sender's server) and is silent otherwise",
        "outside the claim (observed, not judged): in an msc4014 room the server named by join_authorised_via_users_server is handed to "
        "JSONVerifierSelf, which base64-decodes the SERVER NAME as a public key, so a restricted join can never verify there",
    ],
}
