from props_common import COMMON_TRUSTED

CONFIG = {
    "areas": ["signers"],
    "lean": ["VProps.C06"],
    "sources": ["VProps/C06.lean", "VModel/Signers.lean", "VModel/Event.lean", "VModel/GoJson.lean"],
    "theorems": [
        "V.C06.columns_eq_spec", "V.C06.required_eq_spec", "V.C06.verify_iff", "V.C06.verify_iff_spec",
        "V.C06.undeterminable_rejects", "V.C06.others_irrelevant", "V.C06.one_bad_fails", "V.C06.bad_sender_rejects",
        "V.C06.no_panic",
    ],
    "rule": "events of every membership (join/invite/leave/ban/knock/odd) and non-member types x all 16 room versions; senders, "
            "state keys and join_authorised_via_users_server on several domains (ports, IP literals, punycode), malformed IDs "
            "(no sigil, no colon, empty server), non-string / null / case-variant members, v1/v2 event IDs naming other servers or "
            "malformed; for each event a probe run learns which servers are asked, then EVERY subset of them answers valid while "
            "the rest fail, with unrelated servers answering either way; the scripted JSONVerifier records server, timestamp, "
            "validity rule and whether the message is RedactEventJSON(event). Every op is a distinct (event, verifier script) pair; "
            "distinct by op line",
    "nontrivial": lambda op, impl: True,
    "trusted": COMMON_TRUSTED + [
        "the JSONVerifier (KeyRing: C12; the signature check itself: C02) is an oracle valid(server, ts, rule); redaction is C05's "
        "model — the correspondence checks that the message handed to the verifier is RedactEventJSON(event JSON)",
        "gjson.GetBytes(content, key).String(), encoding/json struct decoding of {membership}, spec.NewUserID(sender, true) "
        "modelled (VModel.Signers / VModel.Event)",
    ],
    "assumptions": [
        "userIDForSender is the standard resolver spec.NewUserID(sender, true); a (nil, nil) answer ('no sender signature needed') "
        "is the caller's contract and not claimed",
        "the verifier returns one result per request (its documented contract)",
        "room version org.matrix.msc4014 (pseudo IDs: sender key self-verification, mxid_mapping) is modelled separately",
    ],
}
