from props_common import COMMON_TRUSTED

CONFIG = {
    "areas": ["ident", "b64", "limits", "vertable"],
    "lean": ["VProps.C17"],
    "sources": ["VProps/C17.lean", "VProofs/Ident.lean", "VProofs/IdentIP.lean", "VProofs/IdentIP6.lean", "VProofs/IdentIP6Loop.lean", "VProofs/IdentIP6Top.lean", "VProofs/B64.lean", "VProofs/Limits.lean",
                "VModel/Ident.lean", "VModel/B64.lean", "VModel/Limits.lean", "VModel/Vertable.lean"],
    "theorems": [
        "V.C17.userID_parts_concat",
        "V.C17.roomID_parts_concat",
        "V.C17.roomID_parts_concat_domainless",
        "V.C17.serverName_parts_concat",
        "V.C17.splitID_parts_concat",
        "V.C17.splitID_no_panic",
        "V.C17.serverName_accept_iff_grammar_partial",
        "V.C17.userID_accept_iff_grammar_partial",
        "V.C17.roomID_accept_iff_grammar_partial",
        "V.C17.parseIPv4_accept_iff_dottedQuad",
        "V.C17.parseIPv6_accept_iff_rfc4291",
        "V.C17.parseIP_accept_iff_literal",
        "V.C17.serverName_accept_iff_grammar_of_ParseIPAgrees",
        "V.C17.serverName_accept_iff_grammar",
        "V.C17.userID_accept_iff_grammar",
        "V.C17.roomID_accept_iff_grammar",
        "V.C17.ident_constants_eq_spec",
        "V.C17.b64_decode_encode_std",
        "V.C17.b64_decode_encode_url",
        "V.C17.b64_json_roundtrip",
        "V.C17.b64_reencode",
        "V.C17.b64_encode_injective",
        "V.C17.b64_alphabet_facts",
        "V.C17.roomValid_within",
        "V.C17.limits_eq_spec_partial",
        "V.C17.limits_untrusted_eq_spec_partial",
        "V.C17.limits_roomBytes_gap",
        "V.C17.limits_params_eq_spec",
        "V.C17.version_table_eq_spec",
        "V.C17.version_table_total",
        "V.C17.version_table_stable",
        "V.C17.redaction_keeplists_eq_spec",
        "V.C17.built_event_format_of_traits",
    ],
    "rule": "ident: pools of DNS / IPv4 / RFC 4291 literals x ports (boundaries 0, 65535, 65536, leading zeros, signs), every "
            "single-character mutation of valid server names / IP literals / domainless room IDs, bounded-exhaustive strings over "
            "`0 1 9 a f : .` (net.ParseIP) and `0 1 9 a f : . [ ] -` (server names), random structured user / room IDs, boundary "
            "lengths 3-5 / 254-257 bytes in ASCII and multi-byte; b64: random byte strings encoded in both alphabets, then single "
            "edits (padding, whitespace, foreign bytes, mixed alphabets, other trailing bits), bounded-exhaustive texts over "
            "`A Q / + - _ = LF`, JSON string spellings; limits: every field at (code points, bytes) pairs on both sides of 255 x JSON "
            "lengths 65535/65536/65537 x 16 versions x 3 entry points, random combinations, malformed IDs, the same boundaries with the "
            "bytes under `unsigned` (limits.build_unsigned: the proto-event's Unsigned handed to Build; limits.trusted_setunsigned: "
            "SetUnsigned on a small event, then CheckFields — the limit is on the event's JSON whichever member carries the bytes), CREATE events of the "
            "domain-less room versions carrying a room_id member of every (code points, bytes) size (parse paths; Build refuses any room ID "
            "there), and limits.receipt_text: receipt of whole event texts in which an over-long type / state_key / sender / room_id stands "
            "beside a short case variant of the name (the specification reads the limits off the exact members of the JSON; such texts are "
            "refused since 849cf70); vertable: one op per "
            "(version, probe). An op is non-trivial when its argument is not a pool constant shorter than 4 bytes; distinct by op line",
    "nontrivial": lambda op, impl: len(op) > 24,
    "trusted": COMMON_TRUSTED + [
        "Go std lib modelled, not verified: net.ParseIP (VModel.Ident.parseIP: proved equal to the RFC 4291 / dotted-quad recogniser for all byte strings, V.C17.parseIP_accept_iff_literal; that it models Go's netip.ParseAddr is "
        "tied by ident.parseip / ident.isip ops), strconv.ParseUint(s,10,16), encoding/base64 Raw{Std,URL}Encoding, encoding/json string "
        "(un)quoting for Base64Bytes.(Un)MarshalJSON, regexp (two anchored character-class patterns, regenerated source text compared)",
        "limits: JSON decoding, content hashing and EventBuilder marshalling are outside the size model; the harness submits canonical, "
        "correctly hashed events whose byte length it controls (limits.receipt_text goes through the event-constructor model "
        "VModel.EventParse.parseUntrusted instead)",
        "vertable: function-valued columns are identified by function NAME in the regenerated table; name -> behaviour is tied by one probe "
        "per (version, column) through the public API",
    ],
    "assumptions": [
        "Matrix specification transcribed from memory (no offline copy): room-version traits v1-v12, redaction keep-lists, identifier grammars "
        "(appendices v1.4 as cited by the code: localpart class without '+')",
        "unstable versions (msc3667, msc3787, msc4014, hydra.11) have no spec page: rows defined by the library's own comments, see VModel/Vertable.lean",
        "where the property is silent the grammar follows the code: no length cap on server names, DNS name = [A-Za-z0-9.-]+, IPv4 inside "
        "brackets, leading zeros in ports (ports with > 5 digits are marked unspecified), historical localparts unrestricted",
        "knock_restricted is honoured wherever knocking is (DESIGN.md 6.1 D9, documented departure)",
        "SignatureValidityCheck reads the wall clock: probes are at least 3 days away from `now`",
    ],
}
# statement-by-statement translation of small pure Go functions (tools/extract/trans.go -> lean/VGen/TransSpec.lean) and the
# theorems that the translated definitions equal the model's, for all inputs (lean/VProps/TransSpec.lean)
CONFIG["lean"] = list(CONFIG["lean"]) + ["VProps.TransSpec"]
CONFIG["sources"] = list(CONFIG["sources"]) + ['VProps/TransSpec.lean', 'VModel/GoSem.lean']
CONFIG["theorems"] = list(CONFIG["theorems"]) + ['V.Trans.Spec.isDNSNameChar_eq_model', 'V.Trans.Spec.isDNSNameChar_eq_event_model', 'V.Trans.Spec.isDNSNameChar_iff']
CONFIG["trusted"] = list(CONFIG["trusted"]) + ["tools/extract/trans.go: the Go-to-Lean translation of the whitelisted functions and the Go semantics of lean/VModel/GoSem.lean (DESIGN.md §14)"]
