"""Shared machinery of the ./check CLI (python3, stdlib only).

One run of `./check Cxx quick|thorough`:
  1. tools/extract regenerates lean/VGen from /repo's working tree (stale files deleted first)
  2. lake build of the property's theorem modules + the driver (kernel re-checks what depends on VGen)
  3. axiom audit of every property theorem (lake env lean VAudit/Cxx.lean)
  4. go build -tags verif of the harness against /repo's working tree
  5. corpus ops, then generated ops: implementation stream vs model stream vs specification stream
  6. classification, known findings, replay files, evidence
"""
import fcntl
import hashlib
import json
import os
import re
import shutil
import subprocess
import sys
import time

VERIF = os.path.dirname(os.path.abspath(__file__))
REPO = os.environ.get("VERIF_REPO", "/repo")
LEAN = os.path.join(VERIF, "lean")
WORK = os.path.join(VERIF, "work")
ALLOWED_AXIOMS = {"propext", "Classical.choice", "Quot.sound"}
GOENV = dict(os.environ, GOFLAGS="-mod=mod", GOPROXY="off", GOSUMDB="off", GOTOOLCHAIN="local")
GOENV.setdefault("GOCACHE", os.path.join(WORK, "gocache"))


def sh(cmd, cwd=None, env=None, timeout=None, input=None):
    p = subprocess.run(cmd, cwd=cwd, env=env, timeout=timeout, input=input,
                       stdout=subprocess.PIPE, stderr=subprocess.STDOUT, text=True, errors="replace")
    return p.returncode, p.stdout


class Lock:
    """Serialises extraction + lake build between checks running at the same time."""

    def __init__(self, name):
        os.makedirs(WORK, exist_ok=True)
        self.path = os.path.join(WORK, name)

    def __enter__(self):
        self.f = open(self.path, "w")
        fcntl.flock(self.f, fcntl.LOCK_EX)
        return self

    def __exit__(self, *a):
        fcntl.flock(self.f, fcntl.LOCK_UN)
        self.f.close()


def build_tool(name, srcdir):
    """go build a stdlib-only tool of /verif (extractor)."""
    out = os.path.join(WORK, "bin", name)
    os.makedirs(os.path.dirname(out), exist_ok=True)
    rc, log = sh(["go", "build", "-o", out, "."], cwd=srcdir, env=GOENV)
    if rc != 0:
        raise RuntimeError("building %s failed:\n%s" % (name, log))
    return out


def extract():
    """Regenerate lean/VGen from REPO.  Returns (ok, log).  The new files replace the old ones only
    if their content changed (so that lake's incremental build is not defeated by mtimes)."""
    tool = build_tool("vextract", os.path.join(VERIF, "tools", "extract"))
    tmp = os.path.join(WORK, "vgen_tmp")
    shutil.rmtree(tmp, ignore_errors=True)
    os.makedirs(os.path.join(tmp, "VGen"))
    rc, log = sh([tool, REPO, tmp])
    gen = os.path.join(LEAN, "VGen")
    os.makedirs(gen, exist_ok=True)
    if rc != 0:
        return False, log
    new = set(os.listdir(os.path.join(tmp, "VGen")))
    for f in os.listdir(gen):
        if f not in new:
            os.remove(os.path.join(gen, f))  # stale
    for f in new:
        src, dst = os.path.join(tmp, "VGen", f), os.path.join(gen, f)
        a = open(src, "rb").read()
        if not os.path.exists(dst) or open(dst, "rb").read() != a:
            with open(dst, "wb") as fh:
                fh.write(a)
    return True, log


def lake_build(targets):
    rc, log = sh(["lake", "build"] + targets, cwd=LEAN)
    return rc == 0, log


def failed_decls(log):
    """Names of the theorems / files lake reports errors for."""
    out = []
    for m in re.finditer(r"error: ([^\s:]+\.lean):(\d+):(\d+)", log):
        path, line = m.group(1), int(m.group(2))
        name = None
        try:
            src = open(os.path.join(LEAN, path)).read().split("\n")
            for i in range(min(line, len(src)) - 1, -1, -1):
                mm = re.match(r"\s*(?:private |protected |@\[[^\]]*\]\s*)*(theorem|lemma|def|example|instance)\s+([^\s:({\[]+)?", src[i])
                if mm:
                    name = (mm.group(2) or "example") + " (%s:%d)" % (path, i + 1)
                    break
        except OSError:
            pass
        out.append(name or "%s:%d" % (path, line))
    seen, res = set(), []
    for x in out:
        if x not in seen:
            seen.add(x)
            res.append(x)
    return res


FORBIDDEN = re.compile(r"\b(sorry|admit|native_decide|bv_decide|implemented_by|unsafe)\b|^\s*axiom\s|maxHeartbeats\s+0\b", re.M)


def strip_comments(src):
    # remove block comments (nested) and line comments
    out, i, depth = [], 0, 0
    while i < len(src):
        if src.startswith("/-", i):
            depth += 1
            i += 2
        elif src.startswith("-/", i) and depth > 0:
            depth -= 1
            i += 2
        elif depth > 0:
            i += 1
        elif src.startswith("--", i):
            j = src.find("\n", i)
            i = len(src) if j < 0 else j
        else:
            out.append(src[i])
            i += 1
    return "".join(out)


def source_scan(files):
    bad = []
    for f in files:
        try:
            src = strip_comments(open(f).read())
        except OSError:
            continue
        src = re.sub(r'"(?:[^"\\]|\\.)*"', '""', src)
        for m in FORBIDDEN.finditer(src):
            bad.append("%s: %s" % (os.path.relpath(f, VERIF), m.group(0).strip()))
    return bad


def pin_theorems(prop):
    """Names of the source-pin obligations of a property (VAudit/Pin<prop>.lean), [] if it has none."""
    path = os.path.join(LEAN, "VAudit", "Pin" + prop + ".lean")
    if not os.path.exists(path):
        return []
    return re.findall(r"#print axioms (\S+)", open(path).read())


def audit(prop):
    """Run `#print axioms` for every property theorem.  Returns (theorems: {name: [axioms]}, log, ok)."""
    path = os.path.join("VAudit", prop + ".lean")
    if not os.path.exists(os.path.join(LEAN, path)):
        return {}, "no audit file", False
    rc, log = sh(["lake", "env", "lean", path], cwd=LEAN)
    pin = os.path.join("VAudit", "Pin" + prop + ".lean")
    if os.path.exists(os.path.join(LEAN, pin)):
        rc2, log2 = sh(["lake", "env", "lean", pin], cwd=LEAN)
        rc, log = (rc or rc2), log + "\n" + log2
    thms = {}
    for m in re.finditer(r"'([^']+)' depends on axioms: \[([^\]]*)\]", log):
        thms[m.group(1)] = [a.strip() for a in m.group(2).replace("\n", " ").split(",") if a.strip()]
    for m in re.finditer(r"'([^']+)' does not depend on any axioms", log):
        thms[m.group(1)] = []
    return thms, log, rc == 0


def rundir(prop):
    """Private working directory of this run (several checks of one property — other seeds, other trees under
    test — may run at the same time); removed by cleanup_rundir unless VERIF_KEEP=1."""
    d = os.path.join(WORK, prop, "r%d" % os.getpid())
    os.makedirs(d, exist_ok=True)
    return d


def cleanup_rundir(prop):
    if os.environ.get("VERIF_KEEP") != "1":
        shutil.rmtree(os.path.join(WORK, prop, "r%d" % os.getpid()), ignore_errors=True)


def build_harness(prop):
    out = os.path.join(rundir(prop), "vharness")
    os.makedirs(os.path.dirname(out), exist_ok=True)
    # The harness is its own main module, built from a scratch copy whose go.mod points `replace` at
    # REPO (so VERIF_REPO=<scratch worktree> works) and whose go.sum is the repository's; nothing is
    # ever written into /repo.
    hdir = os.path.join(rundir(prop), "harness_src")
    shutil.rmtree(hdir, ignore_errors=True)
    shutil.copytree(os.path.join(VERIF, "harness"), hdir)
    gm = open(os.path.join(hdir, "go.mod")).read().replace("=> /repo", "=> " + REPO)
    open(os.path.join(hdir, "go.mod"), "w").write(gm)
    try:
        shutil.copyfile(os.path.join(REPO, "go.sum"), os.path.join(hdir, "go.sum"))
    except OSError:
        pass
    rc, log = sh(["go", "build", "-tags", "verif", "-o", out, "."], cwd=hdir, env=GOENV)
    return (out if rc == 0 else None), log


_DRIVER_COPY = {}


def driver_path():
    """The driver used by this process: a private copy of the built binary (another check may be
    relinking lean/.lake/build/bin/driver at the same time)."""
    return _DRIVER_COPY.get("path", os.path.join(LEAN, ".lake", "build", "bin", "driver"))


def snapshot_driver(prop):
    """Call while holding the build lock, right after `lake build … driver`."""
    src = os.path.join(LEAN, ".lake", "build", "bin", "driver")
    dst = os.path.join(rundir(prop), "driver")
    os.makedirs(os.path.dirname(dst), exist_ok=True)
    try:
        shutil.copyfile(src, dst)
        os.chmod(dst, 0o755)
        _DRIVER_COPY["path"] = dst
    except OSError:
        _DRIVER_COPY.pop("path", None)


def run_driver(ops_path, out_path):
    with open(ops_path, "rb") as fin, open(out_path, "wb") as fout:
        p = subprocess.run([driver_path()], stdin=fin, stdout=fout, stderr=subprocess.PIPE)
    return p.returncode, p.stderr.decode(errors="replace")


def read_lines(path):
    with open(path, "r", errors="replace") as f:
        return f.read().split("\n")[:-1]


def decode_arg(a):
    if a == "-":
        return ""
    if len(a) >= 8 and re.fullmatch(r"(?:[0-9a-f]{2})+", a):
        try:
            return bytes.fromhex(a).decode("utf-8", errors="backslashreplace")
        except ValueError:
            return a
    return a


def decode_op(line):
    parts = line.split("\t")
    return {"op": parts[0], "args": [decode_arg(a) for a in parts[1:]]}


class Finding:
    def __init__(self, line):
        # finding: property=C01 id=<id> op=<area.op> match=<python regex over the decoded op line> what=<text>
        self.raw = line
        m = re.match(r"finding:\s+property=(\S+)\s+id=(\S+)\s+op=(\S+)\s+match=(.*?)\s+what=(.*)$", line)
        if not m:
            raise ValueError("bad finding line: " + line)
        self.prop, self.id, self.op, self.match, self.what = m.groups()
        self.rx = re.compile(self.match, re.S)
        self.hits = 0

    def matches(self, prop, opline):
        d = decode_op(opline)
        if prop != self.prop or d["op"] != self.op:
            return False
        return self.rx.search("\t".join(d["args"])) is not None


def load_findings():
    res = []
    p = os.path.join(VERIF, "known_findings.txt")
    if os.path.exists(p):
        for l in open(p):
            l = l.strip()
            if l.startswith("finding:"):
                res.append(Finding(l))
    return res


def compare(prop, ops, impl, model, nontrivial=None):
    """Three-way comparison.  Returns dict with counters and lists of problems.
    model line = model [TAB spec]; a model starting with 'skip' is outside the modelled domain;
    a spec starting with 'unspecified' is outside the property's quantifier."""
    res = {"evaluations": 0, "skipped": 0, "agree": 0, "violations": [], "ties": [], "outcomes": {}, "distinct_nontrivial": 0}
    seen = set()
    n = min(len(ops), len(impl), len(model))
    if not (len(ops) == len(impl) == len(model)):
        res["ties"].append({"i": n, "op": "(stream length)", "impl": str(len(impl)), "model": str(len(model)), "why": "streams differ in length: driver or harness stopped early"})
    for i in range(n):
        m = model[i].split("\t")
        mo, sp = m[0], (m[1] if len(m) > 1 else None)
        im = impl[i]
        res["evaluations"] += 1
        if mo.startswith("skip"):
            res["skipped"] += 1
            # outside the model's domain — but when the specification stream still answers for this input the
            # implementation is held to it (a regenerated table the model cannot interpret must not hide a violation)
            if sp is not None and not sp.startswith("unspecified") and not sp.startswith("skip") and im != sp:
                res["violations"].append({"i": i, "op": ops[i], "impl": im, "model": mo, "spec": sp})
            continue
        cls = im.split(":")[0]
        res["outcomes"][cls] = res["outcomes"].get(cls, 0) + 1
        h = hashlib.sha1(ops[i].encode()).digest()
        if h not in seen:
            seen.add(h)
            if nontrivial is None or nontrivial(ops[i], im):
                res["distinct_nontrivial"] += 1
        if sp is not None and not sp.startswith("unspecified"):
            if im != sp:
                res["violations"].append({"i": i, "op": ops[i], "impl": im, "model": mo, "spec": sp})
                continue
        if im != mo:
            if im.startswith("panic:"):
                # a Go panic is never a model outcome: C18-style concrete failure of the op
                res["violations"].append({"i": i, "op": ops[i], "impl": im, "model": mo, "spec": sp or "(no panic)"})
            else:
                res["ties"].append({"i": i, "op": ops[i], "impl": im, "model": mo, "spec": sp})
        else:
            res["agree"] += 1
    return res


def write_replay(prop, seed, n, payload):
    d = os.path.join(os.environ.get("VERIF_REPLAY_DIR") or os.path.join(VERIF, "replays"), prop)
    os.makedirs(d, exist_ok=True)
    path = os.path.join(d, "%s-%d.json" % (seed, n))
    with open(path, "w") as f:
        json.dump(payload, f, indent=1)
    return path


def write_evidence(prop, ev):
    # (mutation / seeded-change runs against a scratch tree set VERIF_EVIDENCE_DIR so that the committed
    # evidence, which must come from runs against /repo itself, is not overwritten)
    d = os.environ.get("VERIF_EVIDENCE_DIR") or os.path.join(VERIF, "evidence")
    os.makedirs(d, exist_ok=True)
    with open(os.path.join(d, prop + ".json"), "w") as f:
        json.dump(ev, f, indent=1)


# ---------------------------------------------------------------------------------------------------------------
# Shrinking of failing ops (delta debugging on the op line; candidates are evaluated in batches on both sides)

def classify_line(im, model_line):
    """'violation' | 'tie' | None for one (implementation outcome, driver line) pair — same rules as compare()."""
    m = model_line.split("\t")
    mo, sp = m[0], (m[1] if len(m) > 1 else None)
    if mo.startswith("skip"):
        if sp is not None and not sp.startswith("unspecified") and not sp.startswith("skip") and im != sp:
            return "violation"
        return None
    if sp is not None and not sp.startswith("unspecified") and im != sp:
        return "violation"
    if im != mo:
        return "violation" if im.startswith("panic:") else "tie"
    return None


def run_pair(exe, lines):
    inp = "\n".join(lines) + "\n"
    try:
        _, impl = sh([exe, "exec"], input=inp, timeout=120, env=GOENV)
        _, model = sh([driver_path()], input=inp, timeout=120)
    except subprocess.TimeoutExpired:
        return [], []
    return impl.split("\n")[:-1], model.split("\n")[:-1]


_HEX = re.compile(r"(?:[0-9a-f]{2})+")


def _json_variants(v):
    """Structurally smaller variants of a parsed JSON value (objects are lists of pairs, order kept)."""
    out = []
    if isinstance(v, _Obj):
        for i in range(len(v.pairs)):
            out.append(_Obj(v.pairs[:i] + v.pairs[i + 1:]))
        for i, (k, x) in enumerate(v.pairs):
            for y in _json_variants(x):
                out.append(_Obj(v.pairs[:i] + [(k, y)] + v.pairs[i + 1:]))
            if len(k) > 1:
                out.append(_Obj(v.pairs[:i] + [(k[:len(k) // 2], x)] + v.pairs[i + 1:]))
    elif isinstance(v, list):
        for i in range(len(v)):
            out.append(v[:i] + v[i + 1:])
        for i, x in enumerate(v):
            for y in _json_variants(x):
                out.append(v[:i] + [y] + v[i + 1:])
    elif isinstance(v, str):
        if v:
            out += ["", v[:len(v) // 2], v[len(v) // 2:]]
    elif isinstance(v, bool) or v is None:
        pass
    elif isinstance(v, (int, float)):
        if v != 0:
            out += [0, 1]
    if isinstance(v, (_Obj, list)) and (v.pairs if isinstance(v, _Obj) else v):
        out.append(_Obj([]) if isinstance(v, _Obj) else [])
    return out


class _Obj:
    def __init__(self, pairs):
        self.pairs = list(pairs)


def _dump(v):
    if isinstance(v, _Obj):
        return "{" + ",".join(json.dumps(k, ensure_ascii=False) + ":" + _dump(x) for k, x in v.pairs) + "}"
    if isinstance(v, list):
        return "[" + ",".join(_dump(x) for x in v) + "]"
    return json.dumps(v, ensure_ascii=False)


def _arg_candidates(raw):
    """Smaller encodings of one op argument (kept in the argument's own encoding: hex stays hex)."""
    if raw == "-" or raw == "":
        return []
    is_hex = len(raw) >= 2 and _HEX.fullmatch(raw) is not None
    data = bytes.fromhex(raw) if is_hex else raw.encode("utf-8", "surrogateescape")
    cands = []
    # (a) chunk removal on the bytes
    n = len(data)
    size = n // 2
    while size >= 1 and len(cands) < 400:
        for i in range(0, n, size):
            cands.append(data[:i] + data[i + size:])
        size //= 2
    # (b) token removal on common separators (sequences packed into one argument)
    for sep in (b";", b",", b"|", b" ", b"\n", b"/"):
        toks = data.split(sep)
        if 2 <= len(toks) <= 200:
            for i in range(len(toks)):
                cands.append(sep.join(toks[:i] + toks[i + 1:]))
    # (c) structural JSON shrinking
    try:
        txt = data.decode("utf-8")
        if txt[:1] in "{[":
            v = json.loads(txt, object_pairs_hook=_Obj)
            for y in _json_variants(v)[:600]:
                cands.append(_dump(y).encode("utf-8"))
    except (ValueError, UnicodeDecodeError, RecursionError):
        pass
    res, seen = [], set()
    for c in cands:
        if len(c) >= n or c in seen:
            continue
        seen.add(c)
        if is_hex:
            res.append(c.hex() if c else "-")
        else:
            try:
                s = c.decode("utf-8", "surrogateescape")
            except UnicodeDecodeError:
                continue
            if "\t" in s or "\n" in s:
                continue
            res.append(s if s else "-")
    return res


# Ops that must not be shrunk: their arguments carry the implementation's own answer (the driver evaluates the property
# on it), or their specification stream is only meaningful for generator-produced inputs (outputs of Build, ...).
NO_SHRINK_OPS = {"keyring.verify_jsons", "keyring.direct_fetch", "keyring.perspective_fetch", "keyring.perspective_history", "keyring.direct_history",
                 "event.roundtrip", "event.idprops", "event.iddiff", "event.build", "redact.build", "limits.build", "limits.build_fine",
                 "vertable.built"}


def shrinkable(opname):
    return not (opname in NO_SHRINK_OPS or opname.startswith("conc.") or opname.endswith("_props") or opname.endswith("props"))


def _pattern(im, model_line):
    """Which of the three streams agree: a smaller input must fail in the same way, not just fail."""
    m = model_line.split("\t")
    mo, sp = m[0], (m[1] if len(m) > 1 else None)
    cls = lambda x: None if x is None else ("panic" if x.startswith("panic:") else x.split(":")[0])
    # (the outcome classes are part of the pattern: a candidate the harness or the driver cannot even decode — `bad-op`,
    #  `err:construct` — fails "differently" and is not a smaller form of the same failure)
    return (im == mo, sp is None or sp.startswith("unspecified"), sp is not None and im == sp, sp is not None and mo == sp,
            cls(im), cls(mo), cls(sp) if sp is not None and not sp.startswith("unspecified") else None)


def shrink(prop, exe, opline, kind, findings=(), budget_s=20.0):
    """Greedy batched delta debugging: returns (smaller op line, impl, driver line) that still fails with the same
    kind ('violation' / 'tie') and the same agreement pattern between the streams, and is not a known finding — or None
    when nothing smaller fails that way."""
    t0 = time.time()
    if not shrinkable(opline.split("\t", 1)[0]):
        return None
    a0, b0 = run_pair(exe, [opline])
    if not a0 or not b0 or classify_line(a0[0], b0[0]) != kind:
        return None     # does not reproduce in isolation (state carried between ops?): leave it alone
    pat0 = _pattern(a0[0], b0[0])
    best, best_out = opline, None
    improved = True
    rounds = 0
    while improved and time.time() - t0 < budget_s and rounds < 60:
        improved = False
        rounds += 1
        parts = best.split("\t")
        cands = []
        for i in range(1, len(parts)):
            for c in _arg_candidates(parts[i]):
                cands.append("\t".join(parts[:i] + [c] + parts[i + 1:]))
        cands.sort(key=len)
        cands = cands[:1500]
        if not cands:
            break
        impl, model = run_pair(exe, cands)
        if len(impl) != len(cands) or len(model) != len(cands):
            # a candidate killed the harness or the driver: evaluate one by one up to the first survivor
            impl, model = [], []
            for c in cands[:60]:
                a, b = run_pair(exe, [c])
                impl.append(a[0] if a else "crash")
                model.append(b[0] if b else "crash")
            cands = cands[:60]
        for c, im, mo in zip(cands, impl, model):
            if classify_line(im, mo) == kind and _pattern(im, mo) == pat0 and not any(f.matches(prop, c) for f in findings):
                best, best_out = c, (im, mo)
                improved = True
                break
    if best_out is None:
        return None
    return best, best_out[0], best_out[1]
