"""Per-property configuration of ./check: loads props/Cxx.py (each defines CONFIG)."""
import glob
import importlib.util
import os

PROPS = {}
_here = os.path.dirname(os.path.abspath(__file__))
for _p in sorted(glob.glob(os.path.join(_here, "props", "C*.py"))):
    _name = os.path.basename(_p)[:-3]
    _spec = importlib.util.spec_from_file_location("props_" + _name, _p)
    _m = importlib.util.module_from_spec(_spec)
    _spec.loader.exec_module(_m)
    PROPS[_name] = _m.CONFIG
