/- PINNED copy of the statement skeletons of the Go functions the C14 model mirrors (written by tools/pin.sh
   when the model was last validated against the code). Compared with the regenerated VGen.SkelC14 in VProps/PinC14.lean. -/
namespace VPins.C14

def authchain__VerifyEventAuthChain : List String := [
  "func func(ctx context.Context, eventToVerify PDU, provideEvents EventProvider, userIDForSender spec.UserIDForSender) error",
  "eventsByID := make(map[string]PDU)",
  "evv := eventToVerify",
  "eventsByID[evv.EventID()] = evv",
  "verifiedEvents := make(map[string]bool)",
  "eventsToVerify := []PDU{evv}",
  "var curr PDU",
  "fetchAndVerify := func(roomVer RoomVersion, eventIDs []string) ([]PDU, error) { events, err := provideEvents(roomVer, eventIDs) if err == nil { eventsToVerify = append(eventsToVerify, events...) } return events, err }",
  "for ; len(eventsToVerify) > 0;  {",
  "curr, eventsToVerify = eventsToVerify[len(eventsToVerify)-1], eventsToVerify[:len(eventsToVerify)-1]",
  "if verifiedEvents[curr.EventID()] {",
  "continue",
  "}",
  "var need []string",
  "for _, needEventID := range curr.AuthEventIDs() {",
  "if eventsByID[needEventID] == nil {",
  "need = append(need, needEventID)",
  "}",
  "}",
  "if len(need) > 0 {",
  "newEvents, err := provideEvents(eventToVerify.Version(), need)",
  "if err != nil {",
  "return fmt.Errorf(\"gomatrixserverlib: VerifyEventAuthChain failed to obtain auth events: %w\", err)",
  "}",
  "for i := range newEvents {",
  "eventsByID[newEvents[i].EventID()] = newEvents[i]",
  "}",
  "eventsToVerify = append(eventsToVerify, newEvents...)",
  "}",
  "if err := checkAllowedByAuthEvents(curr, eventsByID, fetchAndVerify, userIDForSender); err != nil {",
  "return fmt.Errorf(\"gomatrixserverlib: VerifyEventAuthChain %v failed auth check: %w\", curr.EventID(), err)",
  "}",
  "verifiedEvents[curr.EventID()] = true",
  "}",
  "return nil"
]

def authchain_type_EventProvider : List String := [
  "type EventProvider func(roomVer RoomVersion, eventIDs []string) ([]PDU, error)"
]

def authstate_FederatedStateProvider_StateBeforeEvent : List String := [
  "func func(ctx context.Context, roomVer RoomVersion, event PDU, eventIDs []string) (map[string]PDU, error)",
  "res, err := p.FedClient.LookupState(ctx, p.Origin, p.Server, event.RoomID().String(), event.EventID(), roomVer)",
  "if err != nil {",
  "return nil, err",
  "}",
  "roomVerImpl, err := GetRoomVersion(roomVer)",
  "if err != nil {",
  "return nil, err",
  "}",
  "if p.RememberAuthEvents {",
  "for _, js := range res.GetAuthEvents() {",
  "event, err := roomVerImpl.NewEventFromUntrustedJSON(js)",
  "if err != nil {",
  "continue",
  "}",
  "p.AuthEventMap[event.EventID()] = event",
  "}",
  "}",
  "result := make(map[string]PDU)",
  "for _, js := range res.GetStateEvents() {",
  "event, err := roomVerImpl.NewEventFromUntrustedJSON(js)",
  "if err != nil {",
  "continue",
  "}",
  "result[event.EventID()] = event",
  "}",
  "return result, nil"
]

def authstate_FederatedStateProvider_StateIDsBeforeEvent : List String := [
  "func func(ctx context.Context, event PDU) ([]string, error)",
  "res, err := p.FedClient.LookupStateIDs(ctx, p.Origin, p.Server, event.RoomID().String(), event.EventID())",
  "if err != nil {",
  "return nil, err",
  "}",
  "if p.RememberAuthEvents {",
  "p.EventToAuthEventIDs[event.EventID()] = res.GetAuthEventIDs()",
  "}",
  "return res.GetStateEventIDs(), nil"
]

def authstate__CheckSendJoinResponse : List String := [
  "func func(ctx context.Context, roomVersion RoomVersion, r StateResponse, keyRing JSONVerifier, joinEvent PDU, missingAuth EventProvider, userIDForSender spec.UserIDForSender) (StateResponse, error)",
  "authEvents, stateEvents, err := CheckStateResponse(ctx, r, roomVersion, keyRing, missingAuth, userIDForSender)",
  "if err != nil {",
  "return nil, err",
  "}",
  "eventsByID := map[string]PDU{}",
  "authEventProvider, _ := NewAuthEvents(nil)",
  "for i, event := range authEvents {",
  "eventsByID[event.EventID()] = authEvents[i]",
  "}",
  "for i, event := range stateEvents {",
  "eventsByID[event.EventID()] = stateEvents[i]",
  "}",
  "if err := checkAllowedByAuthEvents(joinEvent, eventsByID, missingAuth, userIDForSender); err != nil {",
  "return nil, fmt.Errorf(\"gomatrixserverlib: event with ID %q is not allowed by its auth events: %w\", joinEvent.EventID(), err)",
  "}",
  "stateEventsJSON := NewEventJSONsFromEvents(stateEvents)",
  "for i := range stateEventsJSON {",
  "if err := authEventProvider.AddEvent(stateEvents[i]); err != nil {",
  "return nil, err",
  "}",
  "}",
  "if err := Allowed(joinEvent, authEventProvider, userIDForSender); err != nil {",
  "return nil, fmt.Errorf(\"gomatrixserverlib: event with ID %q is not allowed by the current room state: %w\", joinEvent.EventID(), err)",
  "}",
  "return &stateResponseImpl{authEvents: NewEventJSONsFromEvents(authEvents), stateEvents: stateEventsJSON}, nil"
]

def authstate__CheckStateResponse : List String := [
  "func func(ctx context.Context, r StateResponse, roomVersion RoomVersion, keyRing JSONVerifier, missingAuth EventProvider, userIDForSender spec.UserIDForSender) ([]PDU, []PDU, error)",
  "logger := util.GetLogger(ctx)",
  "authEvents := r.GetAuthEvents().UntrustedEvents(roomVersion)",
  "stateEvents := r.GetStateEvents().UntrustedEvents(roomVersion)",
  "var allEvents []PDU",
  "for _, event := range authEvents {",
  "if event.StateKey() == nil {",
  "return nil, nil, fmt.Errorf(\"gomatrixserverlib: event %q does not have a state key\", event.EventID())",
  "}",
  "allEvents = append(allEvents, event)",
  "}",
  "stateTuples := map[StateKeyTuple]bool{}",
  "for _, event := range stateEvents {",
  "if event.StateKey() == nil {",
  "return nil, nil, fmt.Errorf(\"gomatrixserverlib: event %q does not have a state key\", event.EventID())",
  "}",
  "stateTuple := StateKeyTuple{EventType: event.Type(), StateKey: *event.StateKey()}",
  "if stateTuples[stateTuple] {",
  "return nil, nil, fmt.Errorf(\"gomatrixserverlib: duplicate state key tuple (%q, %q)\", event.Type(), *event.StateKey())",
  "}",
  "stateTuples[stateTuple] = true",
  "allEvents = append(allEvents, event)",
  "}",
  "logger.Infof(\"Checking event signatures for %d events of room state\", len(allEvents))",
  "errors := VerifyAllEventSignatures(ctx, allEvents, keyRing, userIDForSender)",
  "if len(errors) != len(allEvents) {",
  "return nil, nil, fmt.Errorf(\"expected %d errors but got %d\", len(allEvents), len(errors))",
  "}",
  "failed := make([]bool, len(allEvents))",
  "for i, e := range allEvents {",
  "if errors[i] != nil {",
  "logrus.WithError(errors[i]).Warnf(\"Signature validation failed for event %q\", e.EventID())",
  "failed[i] = true",
  "}",
  "}",
  "eventsByID := map[string]PDU{}",
  "for i := range allEvents {",
  "if !failed[i] {",
  "eventsByID[allEvents[i].EventID()] = allEvents[i]",
  "}",
  "}",
  "for i, event := range allEvents {",
  "if err := checkAllowedByAuthEvents(event, eventsByID, missingAuth, userIDForSender); err != nil {",
  "logrus.WithError(err).Warnf(\"Event %q is not allowed by its auth events\", event.EventID())",
  "failed[i] = true",
  "}",
  "}",
  "discarded := 0",
  "keep := func(events []PDU, offset int) []PDU { kept := events[:0] for i := range events { if failed[offset+i] { discarded++ continue } kept = append(kept, events[i]) } return kept }",
  "numAuthEvents := len(authEvents)",
  "authEvents = keep(authEvents, 0)",
  "stateEvents = keep(stateEvents, numAuthEvents)",
  "if discarded > 0 {",
  "logger.Warnf(\"Discarding %d auth/state event(s) due to invalid signatures\", discarded)",
  "}",
  "return authEvents, stateEvents, nil"
]

def authstate__LineariseStateResponse : List String := [
  "func func(roomVersion RoomVersion, r StateResponse) []PDU",
  "authEvents := r.GetAuthEvents().UntrustedEvents(roomVersion)",
  "stateEvents := r.GetStateEvents().UntrustedEvents(roomVersion)",
  "eventsByID := make(map[string]PDU, len(authEvents)+len(stateEvents))",
  "for i, event := range authEvents {",
  "eventsByID[event.EventID()] = authEvents[i]",
  "}",
  "for i, event := range stateEvents {",
  "eventsByID[event.EventID()] = stateEvents[i]",
  "}",
  "allEvents := make([]PDU, 0, len(eventsByID))",
  "for _, event := range eventsByID {",
  "allEvents = append(allEvents, event)",
  "}",
  "return ReverseTopologicalOrdering(allEvents, TopologicalOrderByAuthEvents)"
]

def authstate__VerifyAuthRulesAtState : List String := [
  "func func(ctx context.Context, sp StateProvider, eventToVerify PDU, allowValidation bool, userIDForSender spec.UserIDForSender) error",
  "stateIDs, err := sp.StateIDsBeforeEvent(ctx, eventToVerify)",
  "if err != nil {",
  "return fmt.Errorf(\"gomatrixserverlib.VerifyAuthRulesAtState: cannot fetch state IDs before event %s: %w\", eventToVerify.EventID(), err)",
  "}",
  "if allowValidation {",
  "authRulesExistAtState := true",
  "for _, authEventID := range eventToVerify.AuthEventIDs() {",
  "found := false",
  "for _, stateID := range stateIDs {",
  "if stateID == authEventID {",
  "found = true",
  "break",
  "}",
  "}",
  "if !found {",
  "authRulesExistAtState = false",
  "break",
  "}",
  "}",
  "if authRulesExistAtState {",
  "return nil",
  "}",
  "}",
  "if ctx.Err() != nil {",
  "return fmt.Errorf(\"gomatrixserverlib.VerifyAuthRulesAtState: context cancelled: %w\", ctx.Err())",
  "}",
  "roomState, err := sp.StateBeforeEvent(ctx, eventToVerify.Version(), eventToVerify, stateIDs)",
  "if err != nil {",
  "return fmt.Errorf(\"gomatrixserverlib.VerifyAuthRulesAtState: cannot get state at event %s: %w\", eventToVerify.EventID(), err)",
  "}",
  "if ctx.Err() != nil {",
  "return fmt.Errorf(\"gomatrixserverlib.VerifyAuthRulesAtState: context cancelled: %w\", ctx.Err())",
  "}",
  "stateAuthEvents, _ := NewAuthEvents(nil)",
  "for _, stateEvent := range roomState {",
  "if stateEvent == nil {",
  "continue",
  "}",
  "if stateKey := stateEvent.StateKey(); stateKey != nil {",
  "if other := stateAuthEvents.events[StateKeyTuple{stateEvent.Type(), *stateKey}]; other != nil && (other.EventID() != stateEvent.EventID() || !bytes.Equal(other.JSON(), stateEvent.JSON())) {",
  "return fmt.Errorf(\"gomatrixserverlib.VerifyAuthRulesAtState: event %s is not allowed at state %s : the state has two events for (%q, %q): %s and %s\", eventToVerify.EventID(), eventToVerify.EventID(), stateEvent.Type(), *stateKey, other.EventID(), stateEvent.EventID())",
  "}",
  "}",
  "if err := stateAuthEvents.AddEvent(stateEvent); err != nil {",
  "return fmt.Errorf(\"gomatrixserverlib.VerifyAuthRulesAtState: event %s is not allowed at state %s : %w\", eventToVerify.EventID(), eventToVerify.EventID(), err)",
  "}",
  "}",
  "if err := Allowed(eventToVerify, stateAuthEvents, userIDForSender); err != nil {",
  "return fmt.Errorf(\"gomatrixserverlib.VerifyAuthRulesAtState: event %s is not allowed at state %s : %w\", eventToVerify.EventID(), eventToVerify.EventID(), err)",
  "}",
  "return nil"
]

def authstate__checkAllowedByAuthEvents : List String := [
  "func func(event PDU, eventsByID map[string]PDU, missingAuth EventProvider, userIDForSender spec.UserIDForSender) error",
  "authEvents, _ := NewAuthEvents(nil)",
  "for _, ae := range event.AuthEventIDs() {",
  "retryEvent: authEvent, ok := eventsByID[ae]",
  "if !ok {",
  "if missingAuth != nil {",
  "if ev, err := missingAuth(event.Version(), []string{ae}); err == nil && len(ev) > 0 {",
  "for _, e := range ev {",
  "if err := authEvents.AddEvent(e); err == nil {",
  "eventsByID[e.EventID()] = e",
  "} else {",
  "eventsByID[e.EventID()] = nil",
  "}",
  "}",
  "if _, got := eventsByID[ae]; !got {",
  "eventsByID[ae] = nil",
  "}",
  "} else {",
  "eventsByID[ae] = nil",
  "}",
  "goto retryEvent",
  "} else {",
  "continue",
  "}",
  "} else if authEvent != nil {",
  "if err := authEvents.AddEvent(authEvent); err != nil {",
  "return err",
  "}",
  "} else {",
  "continue",
  "}",
  "}",
  "if err := Allowed(event, authEvents, userIDForSender); err != nil {",
  "return fmt.Errorf(\"gomatrixserverlib: event with ID %q is not allowed by its auth_events: %s\", event.EventID(), err.Error())",
  "}",
  "return nil"
]

def authstate_stateResponseImpl_GetAuthEvents : List String := [
  "func func() EventJSONs",
  "return s.authEvents"
]

def authstate_stateResponseImpl_GetStateEvents : List String := [
  "func func() EventJSONs",
  "return s.stateEvents"
]

def authstate_type_FederatedStateClient : List String := [
  "type FederatedStateClient interface { LookupState(ctx context.Context, origin, s spec.ServerName, roomID, eventID string, roomVersion RoomVersion) (res StateResponse, err error) LookupStateIDs(ctx context.Context, origin, s spec.ServerName, roomID, eventID string) (res StateIDResponse, err error) }"
]

def authstate_type_FederatedStateProvider : List String := [
  "type FederatedStateProvider struct { FedClient FederatedStateClient Origin spec.ServerName Server spec.ServerName RememberAuthEvents bool EventToAuthEventIDs map[string][]string AuthEventMap map[string]PDU }"
]

def authstate_type_StateIDResponse : List String := [
  "type StateIDResponse interface { GetStateEventIDs() []string GetAuthEventIDs() []string }"
]

def authstate_type_StateProvider : List String := [
  "type StateProvider interface { StateIDsBeforeEvent(ctx context.Context, event PDU) ([]string, error) StateBeforeEvent(ctx context.Context, roomVer RoomVersion, event PDU, eventIDs []string) (map[string]PDU, error) }"
]

def authstate_type_StateResponse : List String := [
  "type StateResponse interface { GetAuthEvents() EventJSONs GetStateEvents() EventJSONs }"
]

def authstate_type_stateResponseImpl : List String := [
  "type stateResponseImpl struct { authEvents EventJSONs stateEvents EventJSONs }"
]

def backfill__RequestBackfill : List String := [
  "func func(ctx context.Context, origin spec.ServerName, b BackfillRequester, keyRing JSONVerifier, roomID string, ver RoomVersion, fromEventIDs []string, limit int, userIDForSender spec.UserIDForSender) ([]PDU, error)",
  "if len(fromEventIDs) == 0 {",
  "return nil, nil",
  "}",
  "haveEventIDs := make(map[string]bool)",
  "var result []PDU",
  "loader := NewEventsLoader(ver, keyRing, b, b.ProvideEvents, false)",
  "servers := b.ServersAtEvent(ctx, roomID, fromEventIDs[0])",
  "var lastErr error",
  "for _, s := range servers {",
  "if len(result) >= limit {",
  "break",
  "}",
  "if ctx.Err() != nil {",
  "return nil, fmt.Errorf(\"gomatrixserverlib: RequestBackfill context cancelled %w\", ctx.Err())",
  "}",
  "txn, err := b.Backfill(ctx, origin, s, roomID, limit, fromEventIDs)",
  "if err != nil {",
  "lastErr = err",
  "continue",
  "}",
  "loadResults, err := loader.LoadAndVerify(ctx, txn.PDUs, TopologicalOrderByPrevEvents, userIDForSender)",
  "if err != nil {",
  "lastErr = err",
  "continue",
  "}",
  "for _, res := range loadResults {",
  "switch res.Error.(type) { case nil, SignatureErr: case AuthChainErr, AuthRulesErr: continue default: continue }",
  "if haveEventIDs[res.Event.EventID()] {",
  "continue",
  "}",
  "haveEventIDs[res.Event.EventID()] = true",
  "result = append(result, res.Event)",
  "}",
  "}",
  "return ReverseTopologicalOrdering(result, TopologicalOrderByPrevEvents), lastErr"
]

def backfill_type_BackfillClient : List String := [
  "type BackfillClient interface { Backfill(ctx context.Context, origin, server spec.ServerName, roomID string, limit int, fromEventIDs []string) (Transaction, error) }"
]

def backfill_type_BackfillRequester : List String := [
  "type BackfillRequester interface { StateProvider BackfillClient ServersAtEvent(ctx context.Context, roomID, eventID string) []spec.ServerName ProvideEvents(roomVer RoomVersion, eventIDs []string) ([]PDU, error) }"
]

def load_AuthChainErr_Error : List String := [
  "func func() string",
  "return fmt.Sprintf(\"AuthChainErr: %s\", se.err)"
]

def load_AuthChainErr_Is : List String := [
  "func func(target error) bool",
  "return strings.HasPrefix(target.Error(), \"AuthChainErr\")"
]

def load_AuthRulesErr_Error : List String := [
  "func func() string",
  "return fmt.Sprintf(\"AuthRulesErr: %s\", se.err)"
]

def load_AuthRulesErr_Is : List String := [
  "func func(target error) bool",
  "return strings.HasPrefix(target.Error(), \"AuthRulesErr\")"
]

def load_EventsLoader_LoadAndVerify : List String := [
  "func func(ctx context.Context, rawEvents []json.RawMessage, sortOrder TopologicalOrder, userIDForSender spec.UserIDForSender) ([]EventLoadResult, error)",
  "results := make([]EventLoadResult, len(rawEvents))",
  "verImpl, err := GetRoomVersion(l.roomVer)",
  "if err != nil {",
  "return nil, err",
  "}",
  "events := make([]PDU, 0, len(rawEvents))",
  "errs := make([]error, 0, len(rawEvents))",
  "seen := make(map[string]struct{}, len(rawEvents))",
  "for _, rawEv := range rawEvents {",
  "event, err := verImpl.NewEventFromUntrustedJSON(rawEv)",
  "if err != nil {",
  "errs = append(errs, err)",
  "continue",
  "}",
  "if _, dup := seen[event.EventID()]; dup {",
  "errs = append(errs, fmt.Errorf(\"gomatrixserverlib: duplicate event %q\", event.EventID()))",
  "continue",
  "}",
  "seen[event.EventID()] = struct{}{}",
  "events = append(events, event)",
  "}",
  "events = ReverseTopologicalOrdering(events, sortOrder)",
  "for i := 0; i < len(errs); i++ {",
  "results[len(results)-len(errs)+i] = EventLoadResult{Error: errs[i]}",
  "}",
  "failures := VerifyAllEventSignatures(ctx, events, l.keyRing, userIDForSender)",
  "if len(failures) != len(events) {",
  "return nil, fmt.Errorf(\"gomatrixserverlib: bulk event signature verification length mismatch: %d != %d\", len(failures), len(events))",
  "}",
  "for i := range events {",
  "h := events[i]",
  "results[i] = EventLoadResult{Event: h}",
  "if eventErr := failures[i]; eventErr != nil {",
  "if results[i].Error == nil {",
  "results[i].Error = SignatureErr{eventErr}",
  "continue",
  "}",
  "}",
  "if err := VerifyEventAuthChain(ctx, h, l.provider, userIDForSender); err != nil {",
  "if results[i].Error == nil {",
  "results[i].Error = AuthChainErr{err}",
  "continue",
  "}",
  "}",
  "if err := VerifyAuthRulesAtState(ctx, l.stateProvider, h, true, userIDForSender); err != nil {",
  "if results[i].Error == nil {",
  "results[i].Error = AuthRulesErr{err}",
  "continue",
  "}",
  "}",
  "}",
  "return results, nil"
]

def load_SignatureErr_Error : List String := [
  "func func() string",
  "return fmt.Sprintf(\"SignatureErr: %s\", se.err)"
]

def load_SignatureErr_Is : List String := [
  "func func(target error) bool",
  "return strings.HasPrefix(target.Error(), \"SignatureErr\")"
]

def load__NewEventsLoader : List String := [
  "func func(roomVer RoomVersion, keyRing JSONVerifier, stateProvider StateProvider, provider EventProvider, performSoftFailCheck bool) *EventsLoader",
  "return &EventsLoader{roomVer: roomVer, keyRing: keyRing, provider: provider, stateProvider: stateProvider, performSoftFailCheck: performSoftFailCheck}"
]

def load_type_AuthChainErr : List String := [
  "type AuthChainErr struct{ err error }"
]

def load_type_AuthRulesErr : List String := [
  "type AuthRulesErr struct{ err error }"
]

def load_type_EventLoadResult : List String := [
  "type EventLoadResult struct { Event PDU Error error SoftFail bool }"
]

def load_type_EventsLoader : List String := [
  "type EventsLoader struct { roomVer RoomVersion keyRing JSONVerifier provider EventProvider stateProvider StateProvider performSoftFailCheck bool }"
]

def load_type_SignatureErr : List String := [
  "type SignatureErr struct{ err error }"
]

def functions : List String := ["authchain.go:.VerifyEventAuthChain", "authchain.go:type EventProvider", "authstate.go:FederatedStateProvider.StateBeforeEvent", "authstate.go:FederatedStateProvider.StateIDsBeforeEvent", "authstate.go:.CheckSendJoinResponse", "authstate.go:.CheckStateResponse", "authstate.go:.LineariseStateResponse", "authstate.go:.VerifyAuthRulesAtState", "authstate.go:.checkAllowedByAuthEvents", "authstate.go:stateResponseImpl.GetAuthEvents", "authstate.go:stateResponseImpl.GetStateEvents", "authstate.go:type FederatedStateClient", "authstate.go:type FederatedStateProvider", "authstate.go:type StateIDResponse", "authstate.go:type StateProvider", "authstate.go:type StateResponse", "authstate.go:type stateResponseImpl", "backfill.go:.RequestBackfill", "backfill.go:type BackfillClient", "backfill.go:type BackfillRequester", "load.go:AuthChainErr.Error", "load.go:AuthChainErr.Is", "load.go:AuthRulesErr.Error", "load.go:AuthRulesErr.Is", "load.go:EventsLoader.LoadAndVerify", "load.go:SignatureErr.Error", "load.go:SignatureErr.Is", "load.go:.NewEventsLoader", "load.go:type AuthChainErr", "load.go:type AuthRulesErr", "load.go:type EventLoadResult", "load.go:type EventsLoader", "load.go:type SignatureErr"]

end VPins.C14
