/- PINNED copy of the statement skeletons of the Go functions the C02 model mirrors (written by tools/pin.sh
   when the model was last validated against the code). Compared with the regenerated VGen.SkelC02 in VProps/PinC02.lean. -/
namespace VPins.C02

def json_EventJSONs_TrustedEvents : List String := [
  "func func(roomVersion RoomVersion, redacted bool) []PDU",
  "verImpl, err := GetRoomVersion(roomVersion)",
  "if err != nil {",
  "return nil",
  "}",
  "events := make([]PDU, 0, len(e))",
  "for _, js := range e {",
  "event, err := verImpl.NewEventFromTrustedJSON(js, redacted)",
  "if err != nil {",
  "continue",
  "}",
  "events = append(events, event)",
  "}",
  "return events"
]

def json_EventJSONs_UntrustedEvents : List String := [
  "func func(roomVersion RoomVersion) []PDU",
  "verImpl, err := GetRoomVersion(roomVersion)",
  "if err != nil {",
  "return nil",
  "}",
  "events := make([]PDU, 0, len(e))",
  "for _, js := range e {",
  "event, err := verImpl.NewEventFromUntrustedJSON(js)",
  "switch e := err.(type) { case EventValidationError: if !e.Persistable { continue } case nil: default: continue }",
  "if event == nil {",
  "continue",
  "}",
  "events = append(events, event)",
  "}",
  "return events"
]

def json__CanonicalJSON : List String := [
  "func func(input []byte) ([]byte, error)",
  "if !gjson.Valid(string(input)) {",
  "return nil, BadJSONError{errors.New(\"gjson validation failed\")}",
  "}",
  "return CanonicalJSONAssumeValid(input), nil"
]

def json__CanonicalJSONAssumeValid : List String := [
  "func func(input []byte) []byte",
  "input = CompactJSON(input, make([]byte, 0, len(input)))",
  "return SortJSON(input, make([]byte, 0, len(input)))"
]

def json__CompactJSON : List String := [
  "func func(input, output []byte) []byte",
  "var i int",
  "for ; i < len(input);  {",
  "c := input[i]",
  "i++",
  "if c <= ' ' {",
  "continue",
  "}",
  "if c == '-' && isNegativeZeroLiteral(input, i) {",
  "continue",
  "}",
  "output = append(output, c)",
  "if c == '\"' {",
  "for ; i < len(input);  {",
  "c = input[i]",
  "i++",
  "if c == '\\\\' {",
  "escape := input[i]",
  "i++",
  "if escape == 'u' {",
  "output, i = compactUnicodeEscape(input, output, i)",
  "} else if escape == '/' {",
  "output = append(output, escape)",
  "} else {",
  "output = append(output, '\\\\', escape)",
  "}",
  "} else {",
  "output = append(output, c)",
  "}",
  "if c == '\"' {",
  "break",
  "}",
  "}",
  "}",
  "}",
  "return output"
]

def json__EnforcedCanonicalJSON : List String := [
  "func func(input []byte, roomVersion RoomVersion) ([]byte, error)",
  "roomVersionImpl, err := GetRoomVersion(roomVersion)",
  "if err != nil {",
  "return nil, err",
  "}",
  "if err := roomVersionImpl.CheckCanonicalJSON(input); err != nil {",
  "return nil, BadJSONError{err}",
  "}",
  "return CanonicalJSON(input)"
]

def json__NewEventJSONsFromEvents : List String := [
  "func func(he []PDU) EventJSONs",
  "events := make(EventJSONs, len(he))",
  "for i := range he {",
  "events[i] = he[i].JSON()",
  "}",
  "return events"
]

def json__SortJSON : List String := [
  "func func(input, output []byte) []byte",
  "result := gjson.ParseBytes(input)",
  "return sortJSONValue(result, output)"
]

def json__compactUnicodeEscape : List String := [
  "func func(input, output []byte, index int) ([]byte, int)",
  "appendUTF8 := func(c rune) { var buffer [4]byte n := utf8.EncodeRune(buffer[:], c) output = append(output, buffer[:n]...) }",
  "const ( ESCAPES = \"uuuuuuuubtnufruuuuuuuuuuuuuuuuuu\" HEX = \"0123456789abcdef\" )",
  "if len(input)-index < 4 {",
  "return output, len(input)",
  "}",
  "c := readHexDigits(input[index : index+4])",
  "index += 4",
  "if c < ' ' {",
  "escape := ESCAPES[c]",
  "output = append(output, '\\\\', escape)",
  "if escape == 'u' {",
  "output = append(output, '0', '0', byte('0'+(c>>4)), HEX[c&0xF])",
  "}",
  "} else if c == '\\\\' || c == '\"' {",
  "output = append(output, '\\\\', byte(c))",
  "} else if utf16.IsSurrogate(c) {",
  "if input[index] != '\\\\' || input[index+1] != 'u' {",
  "return output, index",
  "}",
  "index += 2",
  "if len(input)-index < 4 {",
  "return output, index",
  "}",
  "c2 := readHexDigits(input[index : index+4])",
  "index += 4",
  "appendUTF8(utf16.DecodeRune(c, c2))",
  "} else {",
  "appendUTF8(c)",
  "}",
  "return output, index"
]

def json__isNegativeZeroLiteral : List String := [
  "func func(input []byte, i int) bool",
  "if i >= len(input) || input[i] != '0' {",
  "return false",
  "}",
  "if i+1 < len(input) && (input[i+1] == '.' || input[i+1] == 'e' || input[i+1] == 'E') {",
  "return false",
  "}",
  "if i >= 2 && (input[i-2] == 'e' || input[i-2] == 'E') {",
  "return false",
  "}",
  "return true"
]

def json__noVerifyCanonicalJSON : List String := [
  "func func(input []byte) error",
  "return nil"
]

def json__readHexDigits : List String := [
  "func func(input []byte) rune",
  "hex := binary.BigEndian.Uint32(input)",
  "hex -= 0x30303030",
  "hex &= 0x1F1F1F1F",
  "mask := hex & 0x10101010",
  "hex -= mask >> 1",
  "hex += mask >> 4",
  "hex |= hex >> 4",
  "hex &= 0xFF00FF",
  "hex |= hex >> 8",
  "return rune(hex & 0xFFFF)"
]

def json__sortJSONArray : List String := [
  "func func(input gjson.Result, output []byte) []byte",
  "sep := byte('[')",
  "input.ForEach(func(_, value gjson.Result) bool { output = append(output, sep) sep = ',' output = sortJSONValue(value, output) return true })",
  "if sep == '[' {",
  "output = append(output, '[', ']')",
  "} else {",
  "output = append(output, ']')",
  "}",
  "return output"
]

def json__sortJSONObject : List String := [
  "func func(input gjson.Result, output []byte) []byte",
  "type entry struct { key string raw string value gjson.Result }// The parsed key string // The raw (still escaped, quoted) key as it appears in the input",
  "var _entries [128]entry",
  "entries := _entries[:0]",
  "input.ForEach(func(key, value gjson.Result) bool { entries = append(entries, entry{key: key.String(), raw: key.Raw, value: value}) return true })",
  "slices.SortFunc(entries, func(a, b entry) int { return strings.Compare(a.key, b.key) })",
  "sep := byte('{')",
  "for _, entry := range entries {",
  "output = append(output, sep)",
  "sep = ','",
  "output = append(output, entry.raw...)",
  "output = append(output, ':')",
  "output = sortJSONValue(entry.value, output)",
  "}",
  "if sep == '{' {",
  "output = append(output, '{', '}')",
  "} else {",
  "output = append(output, '}')",
  "}",
  "return output"
]

def json__sortJSONValue : List String := [
  "func func(input gjson.Result, output []byte) []byte",
  "if input.IsArray() {",
  "return sortJSONArray(input, output)",
  "}",
  "if input.IsObject() {",
  "return sortJSONObject(input, output)",
  "}",
  "return append(output, input.Raw...)"
]

def json__verifyEnforcedCanonicalJSON : List String := [
  "func func(input []byte) error",
  "valid := true",
  "res := gjson.ParseBytes(input)",
  "var iter func(key, value gjson.Result) bool",
  "iter = func(_, value gjson.Result) bool { if value.IsArray() || value.IsObject() { value.ForEach(iter) return true } if value.Num < -9007199254740991 || value.Num > 9007199254740991 { valid = false return false } if value.Type == gjson.Number && strings.ContainsAny(value.Raw, \".eE\") { valid = false return false } if value.Num == 0 && value.Raw == \"-0\" { valid = false return false } return true }",
  "res.ForEach(iter)",
  "if !valid {",
  "return ErrCanonicalJSON",
  "}",
  "return nil"
]

def json_type_EventJSONs : List String := [
  "type EventJSONs []spec.RawJSON"
]

def signing__ListKeyIDs : List String := [
  "func func(signingName string, message []byte) ([]KeyID, error)",
  "var members map[string]json.RawMessage",
  "if err := json.Unmarshal(message, &members); err != nil {",
  "return nil, err",
  "}",
  "var object struct { Signatures map[string]map[KeyID]json.RawMessage }",
  "if raw, ok := members[\"signatures\"]; ok {",
  "if err := json.Unmarshal(raw, &object.Signatures); err != nil {",
  "return nil, err",
  "}",
  "}",
  "var result []KeyID",
  "for keyID := range object.Signatures[signingName] {",
  "result = append(result, keyID)",
  "}",
  "return result, nil"
]

def signing__SignJSON : List String := [
  "func func(signingName string, keyID KeyID, privateKey ed25519.PrivateKey, message []byte) (signed []byte, err error)",
  "preserve := struct { Signatures map[string]map[KeyID]spec.Base64Bytes `json:\"signatures\"` Unsigned spec.RawJSON `json:\"unsigned\"` }{Signatures: map[string]map[KeyID]spec.Base64Bytes{}}",
  "if err = checkStrictJSON(message, false, false); err != nil {",
  "return nil, err",
  "}",
  "var object map[string]json.RawMessage",
  "if err = json.Unmarshal(message, &object); err != nil {",
  "return nil, err",
  "}",
  "if raw, ok := object[\"signatures\"]; ok {",
  "if err = json.Unmarshal(raw, &preserve.Signatures); err != nil {",
  "return nil, err",
  "}",
  "}",
  "preserve.Unsigned = spec.RawJSON(object[\"unsigned\"])",
  "if message, err = sjson.DeleteBytes(message, \"signatures\"); err != nil {",
  "return nil, err",
  "}",
  "if message, err = sjson.DeleteBytes(message, \"unsigned\"); err != nil {",
  "return nil, err",
  "}",
  "canonical, err := CanonicalJSON(message)",
  "if err != nil {",
  "return nil, err",
  "}",
  "signature := spec.Base64Bytes(ed25519.Sign(privateKey, canonical))",
  "if preserve.Signatures == nil {",
  "preserve.Signatures = map[string]map[KeyID]spec.Base64Bytes{}",
  "}",
  "if existing := preserve.Signatures[signingName]; existing != nil {",
  "existing[keyID] = signature",
  "} else {",
  "preserve.Signatures[signingName] = map[KeyID]spec.Base64Bytes{keyID: signature}",
  "}",
  "signatures, err := json.Marshal(preserve.Signatures)",
  "if err != nil {",
  "return nil, err",
  "}",
  "if signed, err = sjson.SetRawBytes(canonical, \"signatures\", signatures); err != nil {",
  "return nil, err",
  "}",
  "if len(preserve.Unsigned) > 0 {",
  "if signed, err = sjson.SetRawBytes(signed, \"unsigned\", preserve.Unsigned); err != nil {",
  "return nil, err",
  "}",
  "}",
  "if signed, err = CanonicalJSON(signed); err != nil {",
  "return nil, err",
  "}",
  "return"
]

def signing__VerifyJSON : List String := [
  "func func(signingName string, keyID KeyID, publicKey ed25519.PublicKey, message []byte) error",
  "var object map[string]*json.RawMessage",
  "var signatures map[string]map[KeyID]spec.Base64Bytes",
  "if err := checkStrictJSON(message, true, true); err != nil {",
  "return err",
  "}",
  "if err := json.Unmarshal(message, &object); err != nil {",
  "return err",
  "}",
  "if object[\"signatures\"] == nil {",
  "return fmt.Errorf(\"No signatures\")",
  "}",
  "if err := json.Unmarshal(*object[\"signatures\"], &signatures); err != nil {",
  "return err",
  "}",
  "signature, ok := signatures[signingName][keyID]",
  "if !ok {",
  "return fmt.Errorf(\"No signature from %q with ID %q\", signingName, keyID)",
  "}",
  "if len(signature) != ed25519.SignatureSize {",
  "return fmt.Errorf(\"Bad signature length from %q with ID %q\", signingName, keyID)",
  "}",
  "if len(publicKey) != ed25519.PublicKeySize {",
  "return fmt.Errorf(\"Bad public key length for %q with ID %q\", signingName, keyID)",
  "}",
  "delete(object, \"unsigned\")",
  "delete(object, \"signatures\")",
  "unsorted, err := json.Marshal(object)",
  "if err != nil {",
  "return err",
  "}",
  "canonical, err := CanonicalJSON(unsorted)",
  "if err != nil {",
  "return err",
  "}",
  "if !ed25519.Verify(publicKey, canonical, signature) {",
  "return fmt.Errorf(\"Bad signature from %q with ID %q\", signingName, keyID)",
  "}",
  "return nil"
]

def signing__checkStrictJSON : List String := [
  "func func(message []byte, requireUTF8, skipUnsigned bool) error",
  "if !json.Valid(message) || !gjson.ValidBytes(message) {",
  "return fmt.Errorf(\"gomatrixserverlib: invalid JSON\")",
  "}",
  "walk := jsonWalk{decodeName: func(raw []byte, escaped bool) (string, bool) { if !escaped { return string(raw[1 : len(raw)-1]), true } return gjson.ParseBytes(raw).Str, true }, checkString: func(raw []byte) error { return checkStrictString(string(raw), requireUTF8) }}",
  "if skipUnsigned {",
  "walk.skipMember = func(name string) bool { return name == \"unsigned\" }",
  "}",
  "name, duplicate, err := walk.duplicateName(message)",
  "if err != nil {",
  "return err",
  "}",
  "if duplicate {",
  "return fmt.Errorf(\"gomatrixserverlib: duplicate object member %q\", name)",
  "}",
  "return nil"
]

def signing__checkStrictString : List String := [
  "func func(raw string, requireUTF8 bool) error",
  "if requireUTF8 && !utf8.ValidString(raw) {",
  "return fmt.Errorf(\"gomatrixserverlib: JSON string is not valid UTF-8\")",
  "}",
  "for i := 0; i+1 < len(raw); i++ {",
  "if raw[i] != '\\\\' {",
  "continue",
  "}",
  "i++",
  "if raw[i] != 'u' || i+4 >= len(raw) {",
  "continue",
  "}",
  "high := readHexDigits([]byte(raw[i+1 : i+5]))",
  "i += 4",
  "if !utf16.IsSurrogate(high) {",
  "continue",
  "}",
  "if i+6 >= len(raw) || raw[i+1] != '\\\\' || raw[i+2] != 'u' || utf16.DecodeRune(high, readHexDigits([]byte(raw[i+3:i+7]))) == utf8.RuneError {",
  "return fmt.Errorf(\"gomatrixserverlib: JSON string has an unpaired surrogate escape\")",
  "}",
  "i += 6",
  "}",
  "return nil"
]

def signing_type_KeyID : List String := [
  "type KeyID string"
]

def spec_base64_Base64Bytes_Decode : List String := [
  "func func(str string) error",
  "var err error",
  "if strings.ContainsAny(str, \"-_\") {",
  "*b64, err = base64.RawURLEncoding.DecodeString(str)",
  "} else {",
  "*b64, err = base64.RawStdEncoding.DecodeString(str)",
  "}",
  "return err"
]

def spec_base64_Base64Bytes_Encode : List String := [
  "func func() string",
  "return base64.RawStdEncoding.EncodeToString(b64)"
]

def spec_base64_Base64Bytes_MarshalJSON : List String := [
  "func func() ([]byte, error)",
  "return json.Marshal(b64.Encode())"
]

def spec_base64_Base64Bytes_MarshalYAML : List String := [
  "func func() (interface{}, error)",
  "return b64.Encode(), nil"
]

def spec_base64_Base64Bytes_Scan : List String := [
  "func func(src interface{}) error",
  "switch v := src.(type) { case string: return b64.Decode(v) case []byte: *b64 = append(Base64Bytes{}, v...) return nil case RawJSON: return b64.UnmarshalJSON(v) default: return fmt.Errorf(\"unsupported source type\") }"
]

def spec_base64_Base64Bytes_UnmarshalJSON : List String := [
  "func func(raw []byte) (err error)",
  "var str string",
  "if err = json.Unmarshal(raw, &str); err != nil {",
  "return",
  "}",
  "err = b64.Decode(str)",
  "return"
]

def spec_base64_Base64Bytes_UnmarshalYAML : List String := [
  "func func(unmarshal func(interface{}) error) (err error)",
  "var str string",
  "if err = unmarshal(&str); err != nil {",
  "return",
  "}",
  "err = b64.Decode(str)",
  "return"
]

def spec_base64_Base64Bytes_Value : List String := [
  "func func() (driver.Value, error)",
  "return b64.Encode(), nil"
]

def spec_base64_type_Base64Bytes : List String := [
  "type Base64Bytes []byte"
]

def functions : List String := ["json.go:EventJSONs.TrustedEvents", "json.go:EventJSONs.UntrustedEvents", "json.go:.CanonicalJSON", "json.go:.CanonicalJSONAssumeValid", "json.go:.CompactJSON", "json.go:.EnforcedCanonicalJSON", "json.go:.NewEventJSONsFromEvents", "json.go:.SortJSON", "json.go:.compactUnicodeEscape", "json.go:.isNegativeZeroLiteral", "json.go:.noVerifyCanonicalJSON", "json.go:.readHexDigits", "json.go:.sortJSONArray", "json.go:.sortJSONObject", "json.go:.sortJSONValue", "json.go:.verifyEnforcedCanonicalJSON", "json.go:type EventJSONs", "signing.go:.ListKeyIDs", "signing.go:.SignJSON", "signing.go:.VerifyJSON", "signing.go:.checkStrictJSON", "signing.go:.checkStrictString", "signing.go:type KeyID", "spec/base64.go:Base64Bytes.Decode", "spec/base64.go:Base64Bytes.Encode", "spec/base64.go:Base64Bytes.MarshalJSON", "spec/base64.go:Base64Bytes.MarshalYAML", "spec/base64.go:Base64Bytes.Scan", "spec/base64.go:Base64Bytes.UnmarshalJSON", "spec/base64.go:Base64Bytes.UnmarshalYAML", "spec/base64.go:Base64Bytes.Value", "spec/base64.go:type Base64Bytes"]

end VPins.C02
