/- PINNED copy of the statement skeletons of the Go functions the C06 model mirrors (written by tools/pin.sh
   when the model was last validated against the code). Compared with the regenerated VGen.SkelC06 in VProps/PinC06.lean. -/
namespace VPins.C06

def eventcrypto__VerifyAllEventSignatures : List String := [
  "func func(ctx context.Context, events []PDU, verifier JSONVerifier, userIDForSender spec.UserIDForSender) []error",
  "errors := make([]error, 0, len(events))",
  "for _, e := range events {",
  "errors = append(errors, VerifyEventSignatures(ctx, e, verifier, userIDForSender))",
  "}",
  "return errors"
]

def eventcrypto__VerifyEventSignatures : List String := [
  "func func(ctx context.Context, e PDU, verifier JSONVerifier, userIDForSender spec.UserIDForSender) error",
  "if userIDForSender == nil {",
  "panic(\"UserIDForSender func is nil\")",
  "}",
  "var serverName spec.ServerName",
  "needed := map[spec.ServerName]struct{}{}",
  "verImpl, err := GetRoomVersion(e.Version())",
  "if err != nil {",
  "return err",
  "}",
  "switch e.Version() {",
  "case RoomVersionPseudoIDs:",
  "needed[spec.ServerName(e.SenderID())] = struct{}{}",
  "default:",
  "sender, err := userIDForSender(e.RoomID(), e.SenderID())",
  "if err != nil {",
  "return fmt.Errorf(\"invalid sender userID: %w\", err)",
  "}",
  "if sender != nil {",
  "serverName = sender.Domain()",
  "needed[serverName] = struct{}{}",
  "}",
  "format := verImpl.EventIDFormat()",
  "if format == EventIDFormatV1 {",
  "_, serverName, err = SplitID('$', e.EventID())",
  "if err != nil {",
  "return fmt.Errorf(\"failed to split event ID: %w\", err)",
  "}",
  "needed[serverName] = struct{}{}",
  "}",
  "}",
  "if e.Type() == spec.MRoomMember {",
  "membership, err := membershipForSignatures(e)",
  "if err != nil {",
  "return fmt.Errorf(\"failed to get membership of membership event: %w\", err)",
  "}",
  "if verImpl.Version() == RoomVersionPseudoIDs && membership == spec.Join {",
  "mapping, err := getMXIDMapping(e)",
  "if err != nil {",
  "return err",
  "}",
  "if mapping.UserRoomKey != e.SenderID() {",
  "return fmt.Errorf(\"mxid_mapping is for %q, not for the sender %q\", mapping.UserRoomKey, e.SenderID())",
  "}",
  "err = validateMXIDMappingSignatures(ctx, e, *mapping, verifier, verImpl)",
  "if err != nil {",
  "return err",
  "}",
  "}",
  "if membership == spec.Invite {",
  "switch e.Version() {",
  "case RoomVersionPseudoIDs:",
  "needed[spec.ServerName(*e.StateKey())] = struct{}{}",
  "default:",
  "_, serverName, err = SplitID('@', *e.StateKey())",
  "if err != nil {",
  "return fmt.Errorf(\"failed to split state key: %w\", err)",
  "}",
  "needed[serverName] = struct{}{}",
  "}",
  "}",
  "if membership == spec.Join {",
  "auth, err := verImpl.RestrictedJoinServername(e.Content())",
  "if err != nil {",
  "return err",
  "}",
  "if auth != \"\" {",
  "needed[auth] = struct{}{}",
  "}",
  "}",
  "}",
  "redactedJSON, err := verImpl.RedactEventJSON(e.JSON())",
  "if err != nil {",
  "return fmt.Errorf(\"failed to redact event: %w\", err)",
  "}",
  "var toVerify []VerifyJSONRequest",
  "for serverName := range needed {",
  "v := VerifyJSONRequest{Message: redactedJSON, AtTS: e.OriginServerTS(), ServerName: serverName, ValidityCheckingFunc: verImpl.SignatureValidityCheck}",
  "toVerify = append(toVerify, v)",
  "}",
  "if verImpl.Version() == RoomVersionPseudoIDs {",
  "verifier = JSONVerifierSelf{}",
  "}",
  "results, err := verifier.VerifyJSONs(ctx, toVerify)",
  "if err != nil {",
  "return fmt.Errorf(\"failed to verify JSONs: %w\", err)",
  "}",
  "for _, result := range results {",
  "if result.Error != nil {",
  "return result.Error",
  "}",
  "}",
  "return nil"
]

def eventcrypto__addContentHashesToEvent : List String := [
  "func func(eventJSON []byte) ([]byte, error)",
  "var event map[string]spec.RawJSON",
  "if err := json.Unmarshal(eventJSON, &event); err != nil {",
  "return nil, err",
  "}",
  "unsignedJSON := event[\"unsigned\"]",
  "signatures := event[\"signatures\"]",
  "delete(event, \"signatures\")",
  "delete(event, \"unsigned\")",
  "delete(event, \"hashes\")",
  "hashableEventJSON, err := json.Marshal(event)",
  "if err != nil {",
  "return nil, err",
  "}",
  "hashableEventJSON, err = CanonicalJSON(hashableEventJSON)",
  "if err != nil {",
  "return nil, err",
  "}",
  "sha256Hash := sha256.Sum256(hashableEventJSON)",
  "hashes := struct { Sha256 spec.Base64Bytes `json:\"sha256\"` }{spec.Base64Bytes(sha256Hash[:])}",
  "hashesJSON, err := json.Marshal(&hashes)",
  "if err != nil {",
  "return nil, err",
  "}",
  "if len(unsignedJSON) > 0 {",
  "event[\"unsigned\"] = unsignedJSON",
  "}",
  "if len(signatures) > 0 {",
  "event[\"signatures\"] = signatures",
  "}",
  "event[\"hashes\"] = spec.RawJSON(hashesJSON)",
  "return json.Marshal(event)"
]

def eventcrypto__checkEventContentHash : List String := [
  "func func(eventJSON []byte) error",
  "var err error",
  "result := gjson.GetBytes(eventJSON, \"hashes.sha256\")",
  "var hash spec.Base64Bytes",
  "if err = hash.Decode(result.Str); err != nil {",
  "return err",
  "}",
  "hashableEventJSON := eventJSON",
  "for _, key := range []string{\"signatures\", \"unsigned\", \"hashes\"} {",
  "if hashableEventJSON, err = sjson.DeleteBytes(hashableEventJSON, key); err != nil {",
  "return err",
  "}",
  "}",
  "sha256Hash := sha256.Sum256(hashableEventJSON)",
  "if !bytes.Equal(sha256Hash[:], []byte(hash)) {",
  "return fmt.Errorf(\"Invalid Sha256 content hash: %v != %v\", sha256Hash[:], []byte(hash))",
  "}",
  "return nil"
]

def eventcrypto__emptyAuthorisedViaServerName : List String := [
  "func func([]byte) (spec.ServerName, error)",
  "return \"\", nil"
]

def eventcrypto__extractAuthorisedViaServerName : List String := [
  "func func(content []byte) (spec.ServerName, error)",
  "var members map[string]json.RawMessage",
  "if err := json.Unmarshal(content, &members); err != nil {",
  "return \"\", fmt.Errorf(\"failed to read member content: %w\", err)",
  "}",
  "if v, ok := members[\"join_authorised_via_users_server\"]; ok {",
  "var userID string",
  "if err := json.Unmarshal(v, &userID); err != nil {",
  "return \"\", fmt.Errorf(\"failed to read authorised user: %w\", err)",
  "}",
  "_, serverName, err := SplitID('@', userID)",
  "if err != nil {",
  "return \"\", fmt.Errorf(\"failed to split authorised server: %w\", err)",
  "}",
  "if serverName == \"\" {",
  "return \"\", fmt.Errorf(\"authorised user %q has no server name\", userID)",
  "}",
  "return serverName, nil",
  "}",
  "return \"\", nil"
]

def eventcrypto__getMXIDMapping : List String := [
  "func func(e PDU) (*MXIDMapping, error)",
  "var content MemberContent",
  "exact, err := exactFieldsOnly(e.Content(), &content)",
  "if err != nil {",
  "return nil, err",
  "}",
  "err = json.Unmarshal(exact, &content)",
  "if err != nil {",
  "return nil, err",
  "}",
  "if content.MXIDMapping == nil {",
  "return nil, fmt.Errorf(\"missing mxid_mapping\")",
  "}",
  "return content.MXIDMapping, nil"
]

def eventcrypto__membershipForSignatures : List String := [
  "func func(e PDU) (string, error)",
  "var content struct { Membership string `json:\"membership\"` }",
  "exact, err := exactFieldsOnly(e.Content(), &content)",
  "if err != nil {",
  "return \"\", err",
  "}",
  "if err = json.Unmarshal(exact, &content); err != nil {",
  "return \"\", err",
  "}",
  "if e.StateKey() == nil {",
  "return \"\", fmt.Errorf(\"gomatrixserverlib: not a m.room.member event, missing state key\")",
  "}",
  "return content.Membership, nil"
]

def eventcrypto__referenceOfEvent : List String := [
  "func func(eventJSON []byte, roomVersion RoomVersion) (eventReference, error)",
  "verImpl, err := GetRoomVersion(roomVersion)",
  "if err != nil {",
  "return eventReference{}, err",
  "}",
  "return referenceOfEventForVersion(eventJSON, verImpl)"
]

def eventcrypto__referenceOfEventForVersion : List String := [
  "func func(eventJSON []byte, verImpl IRoomVersion) (eventReference, error)",
  "redactedJSON, err := verImpl.RedactEventJSON(eventJSON)",
  "if err != nil {",
  "return eventReference{}, err",
  "}",
  "var event map[string]spec.RawJSON",
  "if err = json.Unmarshal(redactedJSON, &event); err != nil {",
  "return eventReference{}, err",
  "}",
  "delete(event, \"signatures\")",
  "delete(event, \"unsigned\")",
  "hashableEventJSON, err := json.Marshal(event)",
  "if err != nil {",
  "return eventReference{}, err",
  "}",
  "hashableEventJSON, err = CanonicalJSON(hashableEventJSON)",
  "if err != nil {",
  "return eventReference{}, err",
  "}",
  "sha256Hash := sha256.Sum256(hashableEventJSON)",
  "var eventID string",
  "eventFormat := verImpl.EventFormat()",
  "eventIDFormat := verImpl.EventIDFormat()",
  "switch eventFormat {",
  "case EventFormatV1:",
  "if err = json.Unmarshal(event[\"event_id\"], &eventID); err != nil {",
  "return eventReference{}, err",
  "}",
  "case EventFormatV2:",
  "var encoder *base64.Encoding",
  "switch eventIDFormat {",
  "case EventIDFormatV2:",
  "encoder = base64.RawStdEncoding.WithPadding(base64.NoPadding)",
  "case EventIDFormatV3:",
  "encoder = base64.RawURLEncoding.WithPadding(base64.NoPadding)",
  "default:",
  "return eventReference{}, UnsupportedRoomVersionError{Version: verImpl.Version()}",
  "}",
  "eventID = fmt.Sprintf(\"$%s\", encoder.EncodeToString(sha256Hash[:]))",
  "default:",
  "return eventReference{}, UnsupportedRoomVersionError{Version: verImpl.Version()}",
  "}",
  "return eventReference{eventID, sha256Hash[:]}, nil"
]

def eventcrypto__signEvent : List String := [
  "func func(signingName string, keyID KeyID, privateKey ed25519.PrivateKey, eventJSON []byte, roomVersion RoomVersion) ([]byte, error)",
  "verImpl, err := GetRoomVersion(roomVersion)",
  "if err != nil {",
  "return nil, err",
  "}",
  "redactedJSON, err := verImpl.RedactEventJSON(eventJSON)",
  "if err != nil {",
  "return nil, err",
  "}",
  "signedJSON, err := SignJSON(signingName, keyID, privateKey, redactedJSON)",
  "if err != nil {",
  "return nil, err",
  "}",
  "var signedEvent struct { Signatures spec.RawJSON `json:\"signatures\"` }",
  "if err := json.Unmarshal(signedJSON, &signedEvent); err != nil {",
  "return nil, err",
  "}",
  "var event map[string]spec.RawJSON",
  "if err := json.Unmarshal(eventJSON, &event); err != nil {",
  "return nil, err",
  "}",
  "event[\"signatures\"] = signedEvent.Signatures",
  "return json.Marshal(event)"
]

def eventcrypto__validateMXIDMappingSignatures : List String := [
  "func func(ctx context.Context, e PDU, mapping MXIDMapping, verifier JSONVerifier, verImpl IRoomVersion) error",
  "mappingBytes, err := json.Marshal(mapping)",
  "if err != nil {",
  "return err",
  "}",
  "_, userServer, err := SplitID('@', mapping.UserID)",
  "if err != nil {",
  "return fmt.Errorf(\"failed to verify MXIDMapping: %w\", err)",
  "}",
  "if _, ok := mapping.Signatures[userServer]; !ok {",
  "return fmt.Errorf(\"failed to verify MXIDMapping: not signed by %q\", userServer)",
  "}",
  "var toVerify []VerifyJSONRequest",
  "for s := range mapping.Signatures {",
  "v := VerifyJSONRequest{Message: mappingBytes, AtTS: e.OriginServerTS(), ServerName: s, ValidityCheckingFunc: verImpl.SignatureValidityCheck}",
  "toVerify = append(toVerify, v)",
  "}",
  "results, err := verifier.VerifyJSONs(ctx, toVerify)",
  "if err != nil {",
  "return fmt.Errorf(\"failed to verify MXIDMapping: %w\", err)",
  "}",
  "for _, result := range results {",
  "if result.Error != nil {",
  "return fmt.Errorf(\"failed to verify MXIDMapping: %w\", result.Error)",
  "}",
  "}",
  "return err"
]

def keyring_DirectKeyFetcher_FetchKeys : List String := [
  "func func(ctx context.Context, requests map[PublicKeyLookupRequest]spec.Timestamp) (map[PublicKeyLookupRequest]PublicKeyLookupResult, error)",
  "localServerRequests := []PublicKeyLookupRequest{}",
  "byServer := map[spec.ServerName]map[PublicKeyLookupRequest]spec.Timestamp{}",
  "for req, ts := range requests {",
  "if d.IsLocalServerName(req.ServerName) {",
  "localServerRequests = append(localServerRequests, req)",
  "continue",
  "}",
  "server := byServer[req.ServerName]",
  "if server == nil {",
  "server = map[PublicKeyLookupRequest]spec.Timestamp{}",
  "byServer[req.ServerName] = server",
  "}",
  "server[req] = ts",
  "}",
  "numWorkers := 64",
  "if len(byServer) < numWorkers {",
  "numWorkers = len(byServer)",
  "}",
  "results := map[PublicKeyLookupRequest]PublicKeyLookupResult{}",
  "localKey := &PublicKeyLookupResult{VerifyKey: VerifyKey{Key: d.LocalPublicKey}, ExpiredTS: PublicKeyNotExpired, ValidUntilTS: spec.AsTimestamp(time.Unix(1<<37, 0))}",
  "for _, req := range localServerRequests {",
  "results[req] = *localKey",
  "}",
  "var resultsMutex sync.Mutex",
  "var wait sync.WaitGroup",
  "wait.Add(numWorkers)",
  "pending := make(chan spec.ServerName, len(byServer))",
  "for serverName := range byServer {",
  "pending <- serverName",
  "}",
  "close(pending)",
  "worker := func(ch <-chan spec.ServerName) { defer wait.Done() for server := range ch { serverResults, err := d.fetchKeysForServer(ctx, server) if err != nil { serverResults, err = d.fetchNotaryKeysForServer(ctx, server) if err != nil { continue } } resultsMutex.Lock() for req, keys := range serverResults { results[req] = keys } resultsMutex.Unlock() } }",
  "for i := 0; i < numWorkers; i++ {",
  "go worker(pending)",
  "}",
  "wait.Wait()",
  "return results, nil"
]

def keyring_DirectKeyFetcher_FetcherName : List String := [
  "func func() string",
  "return \"DirectKeyFetcher\""
]

def keyring_DirectKeyFetcher_fetchKeysForServer : List String := [
  "func func(ctx context.Context, serverName spec.ServerName) (map[PublicKeyLookupRequest]PublicKeyLookupResult, error)",
  "ctx, cancel := context.WithTimeout(ctx, time.Second*15)",
  "defer cancel()",
  "keys, err := d.Client.GetServerKeys(ctx, serverName)",
  "if err != nil {",
  "if err != nil {",
  "return nil, err",
  "}",
  "}",
  "checks, _ := CheckKeys(serverName, time.Unix(0, 0), keys)",
  "if !checks.AllChecksOK {",
  "return nil, fmt.Errorf(\"gomatrixserverlib: key response direct from %q failed checks\", serverName)",
  "}",
  "results := map[PublicKeyLookupRequest]PublicKeyLookupResult{}",
  "mapServerKeysToPublicKeyLookupResult(keys, results)",
  "return results, nil"
]

def keyring_DirectKeyFetcher_fetchNotaryKeysForServer : List String := [
  "func func(ctx context.Context, serverName spec.ServerName) (map[PublicKeyLookupRequest]PublicKeyLookupResult, error)",
  "ctx, cancel := context.WithTimeout(ctx, time.Second*15)",
  "defer cancel()",
  "var keys ServerKeys",
  "allKeys, err := d.Client.LookupServerKeys(ctx, serverName, map[PublicKeyLookupRequest]spec.Timestamp{{serverName, \"\"}: spec.AsTimestamp(time.Now())})",
  "if err != nil {",
  "return nil, err",
  "}",
  "found := false",
  "for _, serverKeys := range allKeys {",
  "if serverKeys.ServerName == serverName {",
  "keys = serverKeys",
  "found = true",
  "break",
  "}",
  "}",
  "if !found {",
  "return nil, fmt.Errorf(\"gomatrixserverlib: notary key response contained no results for %q\", serverName)",
  "}",
  "checks, _ := CheckKeys(serverName, time.Unix(0, 0), keys)",
  "if !checks.AllChecksOK {",
  "return nil, fmt.Errorf(\"gomatrixserverlib: notary key response direct from %q failed checks\", serverName)",
  "}",
  "results := map[PublicKeyLookupRequest]PublicKeyLookupResult{}",
  "mapServerKeysToPublicKeyLookupResult(keys, results)",
  "return results, nil"
]

def keyring_JSONVerifierSelf_VerifyJSONs : List String := [
  "func func(ctx context.Context, requests []VerifyJSONRequest) ([]VerifyJSONResult, error)",
  "results := make([]VerifyJSONResult, len(requests))",
  "for i := range requests {",
  "key, err := spec.SenderID(requests[i].ServerName).RawBytes()",
  "if err != nil {",
  "results[i].Error = fmt.Errorf(\"unable to get key from senderID for %s: %w\", requests[i].ServerName, err)",
  "continue",
  "}",
  "if err = VerifyJSON(string(requests[i].ServerName), \"ed25519:1\", ed25519.PublicKey(key), requests[i].Message); err != nil {",
  "results[i].Error = err",
  "continue",
  "}",
  "}",
  "return results, nil"
]

def keyring_KeyRing_VerifyJSONs : List String := [
  "func func(ctx context.Context, requests []VerifyJSONRequest) ([]VerifyJSONResult, error)",
  "logger := util.GetLogger(ctx)",
  "results := make([]VerifyJSONResult, len(requests))",
  "keyIDs := make([][]KeyID, len(requests))",
  "numRequests := len(requests)",
  "for i := range requests {",
  "ids, err := ListKeyIDs(string(requests[i].ServerName), requests[i].Message)",
  "if err != nil {",
  "results[i].Error = fmt.Errorf(\"gomatrixserverlib: error extracting key IDs\")",
  "continue",
  "}",
  "for _, keyID := range ids {",
  "if k.isAlgorithmSupported(keyID) {",
  "keyIDs[i] = append(keyIDs[i], keyID)",
  "}",
  "}",
  "if len(keyIDs[i]) == 0 {",
  "results[i].Error = fmt.Errorf(\"gomatrixserverlib: not signed by %q with a supported algorithm\", requests[i].ServerName)",
  "continue",
  "}",
  "results[i].Error = fmt.Errorf(\"gomatrixserverlib: could not download key for %q\", requests[i].ServerName)",
  "}",
  "keyRequests := k.publicKeyRequests(requests, results, keyIDs)",
  "if len(keyRequests) == 0 {",
  "return results, nil",
  "}",
  "keysFromDatabase, err := k.KeyDatabase.FetchKeys(ctx, keyRequests)",
  "if err != nil {",
  "return nil, err",
  "}",
  "keysFetched := map[PublicKeyLookupRequest]PublicKeyLookupResult{}",
  "keysToStore := map[PublicKeyLookupRequest]PublicKeyLookupResult{}",
  "now := spec.AsTimestamp(time.Now())",
  "for req, res := range keysFromDatabase {",
  "if res.ExpiredTS != PublicKeyNotExpired {",
  "keysFetched[req] = res",
  "delete(keyRequests, req)",
  "continue",
  "}",
  "keysFetched[req] = res",
  "if now < res.ValidUntilTS && res.ExpiredTS == PublicKeyNotExpired {",
  "delete(keyRequests, req)",
  "}",
  "}",
  "if len(keysFetched) == numRequests {",
  "k.checkUsingKeys(requests, results, keyIDs, keysFetched)",
  "errored := false",
  "for _, r := range results {",
  "if r.Error != nil {",
  "errored = true",
  "break",
  "}",
  "}",
  "if !errored {",
  "return results, nil",
  "}",
  "}",
  "for _, fetcher := range k.KeyFetchers {",
  "if len(keyRequests) == 0 {",
  "break",
  "}",
  "fetcherLogger := logger.WithField(\"fetcher\", fetcher.FetcherName())",
  "fetcherLogger.WithField(\"num_key_requests\", len(keyRequests)).Debug(\"Requesting keys from fetcher\")",
  "fetched, err := fetcher.FetchKeys(ctx, keyRequests)",
  "if err != nil {",
  "continue",
  "}",
  "if len(fetched) == 0 {",
  "continue",
  "}",
  "fetcherLogger.WithField(\"num_keys_fetched\", len(fetched)).Debug(\"Got keys from fetcher\")",
  "for req, res := range fetched {",
  "if _, requested := keyRequests[req]; !requested {",
  "if _, have := keysFetched[req]; have {",
  "continue",
  "}",
  "}",
  "keysFetched[req] = res",
  "keysToStore[req] = res",
  "delete(keyRequests, req)",
  "}",
  "}",
  "if len(keyRequests) > 0 {",
  "requestedServers := make([]string, 0, len(keyRequests))",
  "for reqs := range keyRequests {",
  "requestedServers = append(requestedServers, string(reqs.ServerName))",
  "}",
  "logger.WithFields(logrus.Fields{\"servers\": requestedServers, \"fetchers\": len(k.KeyFetchers)}).Warn(\"failed to fetch keys for some servers\")",
  "}",
  "k.checkUsingKeys(requests, results, keyIDs, keysFetched)",
  "if err := k.KeyDatabase.StoreKeys(ctx, keysToStore); err != nil {",
  "return nil, err",
  "}",
  "return results, nil"
]

def keyring_KeyRing_checkUsingKeys : List String := [
  "func func(requests []VerifyJSONRequest, results []VerifyJSONResult, keyIDs [][]KeyID, keys map[PublicKeyLookupRequest]PublicKeyLookupResult)",
  "for i := range requests {",
  "if results[i].Error == nil {",
  "continue",
  "}",
  "for _, keyID := range keyIDs[i] {",
  "serverKey, ok := keys[PublicKeyLookupRequest{requests[i].ServerName, keyID}]",
  "if !ok {",
  "continue",
  "}",
  "if !serverKey.WasValidAt(requests[i].AtTS, requests[i].ValidityCheckingFunc) {",
  "results[i].Error = fmt.Errorf(\"gomatrixserverlib: key with ID %q for %q not valid at %d\", keyID, requests[i].ServerName, requests[i].AtTS)",
  "continue",
  "}",
  "if err := VerifyJSON(string(requests[i].ServerName), keyID, ed25519.PublicKey(serverKey.Key), requests[i].Message); err != nil {",
  "results[i].Error = err",
  "continue",
  "}",
  "results[i].Error = nil",
  "break",
  "}",
  "}"
]

def keyring_KeyRing_isAlgorithmSupported : List String := [
  "func func(keyID KeyID) bool",
  "return strings.HasPrefix(string(keyID), \"ed25519:\")"
]

def keyring_KeyRing_publicKeyRequests : List String := [
  "func func(requests []VerifyJSONRequest, results []VerifyJSONResult, keyIDs [][]KeyID) map[PublicKeyLookupRequest]spec.Timestamp",
  "keyRequests := map[PublicKeyLookupRequest]spec.Timestamp{}",
  "for i := range requests {",
  "if results[i].Error == nil {",
  "continue",
  "}",
  "for _, keyID := range keyIDs[i] {",
  "k := PublicKeyLookupRequest{requests[i].ServerName, keyID}",
  "maxTS := keyRequests[k]",
  "if maxTS <= requests[i].AtTS {",
  "keyRequests[k] = requests[i].AtTS",
  "}",
  "}",
  "}",
  "return keyRequests"
]

def keyring_PerspectiveKeyFetcher_FetchKeys : List String := [
  "func func(ctx context.Context, requests map[PublicKeyLookupRequest]spec.Timestamp) (map[PublicKeyLookupRequest]PublicKeyLookupResult, error)",
  "serverKeys, err := p.Client.LookupServerKeys(ctx, p.PerspectiveServerName, requests)",
  "if err != nil {",
  "return nil, fmt.Errorf(\"gomatrixserverlib: unable to lookup server keys: %w\", err)",
  "}",
  "results := map[PublicKeyLookupRequest]PublicKeyLookupResult{}",
  "for _, keys := range serverKeys {",
  "var valid bool",
  "keyIDs, err := ListKeyIDs(string(p.PerspectiveServerName), keys.Raw)",
  "if err != nil {",
  "return nil, fmt.Errorf(\"gomatrixserverlib: unable to list key IDs: %w\", err)",
  "}",
  "for _, keyID := range keyIDs {",
  "perspectiveKey, ok := p.PerspectiveServerKeys[keyID]",
  "if !ok {",
  "continue",
  "}",
  "if err := VerifyJSON(string(p.PerspectiveServerName), keyID, perspectiveKey, keys.Raw); err != nil {",
  "return nil, fmt.Errorf(\"gomatrixserverlib: unable to verify response: %w\", err)",
  "}",
  "valid = true",
  "break",
  "}",
  "if !valid {",
  "return nil, fmt.Errorf(\"gomatrixserverlib: not signed with a known key for the perspective server\")",
  "}",
  "checks, _ := CheckKeys(keys.ServerName, time.Unix(0, 0), keys)",
  "if !checks.AllChecksOK {",
  "return nil, fmt.Errorf(\"gomatrixserverlib: key response from perspective server failed checks\")",
  "}",
  "mapServerKeysToPublicKeyLookupResult(keys, results)",
  "}",
  "return results, nil"
]

def keyring_PerspectiveKeyFetcher_FetcherName : List String := [
  "func func() string",
  "return fmt.Sprintf(\"perspective server %s\", p.PerspectiveServerName)"
]

def keyring_PublicKeyLookupRequest_MarshalText : List String := [
  "func func() ([]byte, error)",
  "return []byte(fmt.Sprintf(\"%s/%s\", r.ServerName, r.KeyID)), nil"
]

def keyring_PublicKeyLookupRequest_UnmarshalText : List String := [
  "func func(text []byte) error",
  "parts := strings.SplitN(string(text), \"/\", 2)",
  "if len(parts) < 2 {",
  "return errors.New(\"expected at least one / separator in \" + string(text))",
  "}",
  "r.ServerName, r.KeyID = spec.ServerName(parts[0]), KeyID(parts[1])",
  "return nil"
]

def keyring__NoStrictValidityCheck : List String := [
  "func func(_, _ spec.Timestamp) bool",
  "return true"
]

def keyring__StrictValiditySignatureCheck : List String := [
  "func func(atTs, validUntil spec.Timestamp) bool",
  "if validUntil == PublicKeyNotValid {",
  "return false",
  "}",
  "sevenDaysFuture := time.Now().Add(time.Hour * 24 * 7)",
  "validUntilTS := validUntil",
  "if sevenDaysFutureTS := spec.AsTimestamp(sevenDaysFuture); validUntilTS > sevenDaysFutureTS {",
  "validUntilTS = sevenDaysFutureTS",
  "}",
  "if atTs > validUntilTS {",
  "return false",
  "}",
  "return true"
]

def keyring__mapServerKeysToPublicKeyLookupResult : List String := [
  "func func(serverKeys ServerKeys, results map[PublicKeyLookupRequest]PublicKeyLookupResult)",
  "for keyID, key := range serverKeys.VerifyKeys {",
  "results[PublicKeyLookupRequest{ServerName: serverKeys.ServerName, KeyID: keyID}] = PublicKeyLookupResult{VerifyKey: key, ValidUntilTS: serverKeys.ValidUntilTS, ExpiredTS: PublicKeyNotExpired}",
  "}",
  "for keyID, key := range serverKeys.OldVerifyKeys {",
  "results[PublicKeyLookupRequest{ServerName: serverKeys.ServerName, KeyID: keyID}] = PublicKeyLookupResult{VerifyKey: key.VerifyKey, ValidUntilTS: PublicKeyNotValid, ExpiredTS: key.ExpiredTS}",
  "}"
]

def keyring_type_DirectKeyFetcher : List String := [
  "type DirectKeyFetcher struct { Client KeyClient IsLocalServerName func(server spec.ServerName) bool LocalPublicKey spec.Base64Bytes }"
]

def keyring_type_JSONVerifier : List String := [
  "type JSONVerifier interface { VerifyJSONs(ctx context.Context, requests []VerifyJSONRequest) ([]VerifyJSONResult, error) }"
]

def keyring_type_JSONVerifierSelf : List String := [
  "type JSONVerifierSelf struct{}"
]

def keyring_type_KeyClient : List String := [
  "type KeyClient interface { GetServerKeys(ctx context.Context, matrixServer spec.ServerName) (ServerKeys, error) LookupServerKeys(ctx context.Context, matrixServer spec.ServerName, keyRequests map[PublicKeyLookupRequest]spec.Timestamp) ([]ServerKeys, error) }"
]

def keyring_type_KeyDatabase : List String := [
  "type KeyDatabase interface { KeyFetcher StoreKeys(ctx context.Context, results map[PublicKeyLookupRequest]PublicKeyLookupResult) error }"
]

def keyring_type_KeyFetcher : List String := [
  "type KeyFetcher interface { FetchKeys(ctx context.Context, requests map[PublicKeyLookupRequest]spec.Timestamp) (map[PublicKeyLookupRequest]PublicKeyLookupResult, error) FetcherName() string }"
]

def keyring_type_KeyRing : List String := [
  "type KeyRing struct { KeyFetchers []KeyFetcher KeyDatabase KeyDatabase }"
]

def keyring_type_PerspectiveKeyFetcher : List String := [
  "type PerspectiveKeyFetcher struct { PerspectiveServerName spec.ServerName PerspectiveServerKeys map[KeyID]ed25519.PublicKey Client KeyClient }"
]

def keyring_type_PublicKeyLookupRequest : List String := [
  "type PublicKeyLookupRequest struct { ServerName spec.ServerName `json:\"server_name\"` KeyID KeyID `json:\"key_id\"` }"
]

def keyring_type_PublicKeyLookupResult : List String := [
  "type PublicKeyLookupResult struct { VerifyKey ExpiredTS spec.Timestamp `json:\"expired_ts\"` ValidUntilTS spec.Timestamp `json:\"valid_until_ts\"` }"
]

def keyring_type_PublicKeyNotaryLookupRequest : List String := [
  "type PublicKeyNotaryLookupRequest struct { ServerKeys map[spec.ServerName]map[KeyID]PublicKeyNotaryQueryCriteria `json:\"server_keys\"` }"
]

def keyring_type_PublicKeyNotaryQueryCriteria : List String := [
  "type PublicKeyNotaryQueryCriteria struct { MinimumValidUntilTS spec.Timestamp `json:\"minimum_valid_until_ts\"` }"
]

def keyring_type_SignatureValidityCheckFunc : List String := [
  "type SignatureValidityCheckFunc func(atTS, validUntil spec.Timestamp) bool"
]

def keyring_type_VerifyJSONRequest : List String := [
  "type VerifyJSONRequest struct { ServerName spec.ServerName AtTS spec.Timestamp Message []byte ValidityCheckingFunc SignatureValidityCheckFunc }"
]

def keyring_type_VerifyJSONResult : List String := [
  "type VerifyJSONResult struct{ Error error }"
]

def keys_ServerKeys_MarshalJSON : List String := [
  "func func() ([]byte, error)",
  "if len(keys.Raw) == 0 {",
  "js, err := json.Marshal(keys.ServerKeyFields)",
  "if err != nil {",
  "return nil, err",
  "}",
  "return js, nil",
  "}",
  "return keys.Raw, nil"
]

def keys_ServerKeys_PublicKey : List String := [
  "func func(keyID KeyID, atTS spec.Timestamp) []byte",
  "if currentKey, ok := keys.VerifyKeys[keyID]; ok && (atTS <= keys.ValidUntilTS) {",
  "return currentKey.Key",
  "}",
  "if oldKey, ok := keys.OldVerifyKeys[keyID]; ok && (atTS < oldKey.ExpiredTS) {",
  "return oldKey.Key",
  "}",
  "return nil"
]

def keys_ServerKeys_UnmarshalJSON : List String := [
  "func func(data []byte) error",
  "keys.Raw = data",
  "return json.Unmarshal(data, &keys.ServerKeyFields)"
]

def keys__CheckKeys : List String := [
  "func func(serverName spec.ServerName, now time.Time, keys ServerKeys) (checks KeyChecks, ed25519Keys map[KeyID]spec.Base64Bytes)",
  "checks.MatchingServerName = serverName == keys.ServerName",
  "checks.FutureValidUntilTS = keys.ValidUntilTS.Time().After(now)",
  "checks.AllChecksOK = checks.MatchingServerName && checks.FutureValidUntilTS",
  "ed25519Keys = checkVerifyKeys(keys, &checks)",
  "if !checks.AllChecksOK {",
  "ed25519Keys = nil",
  "}",
  "return"
]

def keys__checkVerifyKeys : List String := [
  "func func(keys ServerKeys, checks *KeyChecks) map[KeyID]spec.Base64Bytes",
  "allEd25519ChecksOK := true",
  "checks.Ed25519Checks = map[KeyID]Ed25519Checks{}",
  "verifyKeys := map[KeyID]spec.Base64Bytes{}",
  "for keyID, keyData := range keys.VerifyKeys {",
  "algorithm := strings.SplitN(string(keyID), \":\", 2)[0]",
  "publicKey := keyData.Key",
  "if algorithm == \"ed25519\" {",
  "checks.HasEd25519Key = true",
  "checks.AllEd25519ChecksOK = &allEd25519ChecksOK",
  "entry := Ed25519Checks{ValidEd25519: len(publicKey) == 32}",
  "if entry.ValidEd25519 {",
  "err := VerifyJSON(string(keys.ServerName), keyID, []byte(publicKey), keys.Raw)",
  "entry.MatchingSignature = err == nil",
  "}",
  "checks.Ed25519Checks[keyID] = entry",
  "if entry.MatchingSignature {",
  "verifyKeys[keyID] = publicKey",
  "} else {",
  "allEd25519ChecksOK = false",
  "}",
  "}",
  "}",
  "if checks.AllChecksOK {",
  "checks.AllChecksOK = checks.HasEd25519Key && allEd25519ChecksOK",
  "}",
  "return verifyKeys"
]

def keys_type_Ed25519Checks : List String := [
  "type Ed25519Checks struct { ValidEd25519 bool MatchingSignature bool }"
]

def keys_type_KeyChecks : List String := [
  "type KeyChecks struct { AllChecksOK bool MatchingServerName bool FutureValidUntilTS bool HasEd25519Key bool AllEd25519ChecksOK *bool Ed25519Checks map[KeyID]Ed25519Checks }"
]

def keys_type_OldVerifyKey : List String := [
  "type OldVerifyKey struct { VerifyKey ExpiredTS spec.Timestamp `json:\"expired_ts\"` }"
]

def keys_type_ServerKeyFields : List String := [
  "type ServerKeyFields struct { ServerName spec.ServerName `json:\"server_name\"` VerifyKeys map[KeyID]VerifyKey `json:\"verify_keys\"` ValidUntilTS spec.Timestamp `json:\"valid_until_ts\"` OldVerifyKeys map[KeyID]OldVerifyKey `json:\"old_verify_keys\"` }"
]

def keys_type_ServerKeys : List String := [
  "type ServerKeys struct { Raw []byte ServerKeyFields }"
]

def keys_type_VerifyKey : List String := [
  "type VerifyKey struct { Key spec.Base64Bytes `json:\"key\"` }"
]

def redactevent__exactFieldsOnly : List String := [
  "func func(eventJSON []byte, keepStruct interface{}) ([]byte, error)",
  "var members map[string]json.RawMessage",
  "if err := json.Unmarshal(eventJSON, &members); err != nil {",
  "return nil, err",
  "}",
  "fields := reflect.TypeOf(keepStruct).Elem()",
  "exact := make(map[string]json.RawMessage, fields.NumField())",
  "for i := 0; i < fields.NumField(); i++ {",
  "name, _, _ := strings.Cut(fields.Field(i).Tag.Get(\"json\"), \",\")",
  "if value, ok := members[name]; ok {",
  "exact[name] = value",
  "}",
  "}",
  "return json.Marshal(exact)"
]

def redactevent__exactMembersOnly : List String := [
  "func func(content []byte, keepStruct interface{}) []byte",
  "if object := bytes.TrimLeft(content, \" \\t\\r\\n\"); len(object) == 0 || object[0] != '{' {",
  "return content",
  "}",
  "exact, err := exactFieldsOnly(content, keepStruct)",
  "if err != nil {",
  "return content",
  "}",
  "return exact"
]

def redactevent__redactEventJSON : List String := [
  "func func[T unredactableEvent](eventJSON []byte, unredactableEvent T, eventTypeToKeepContentFields map[string][]string) ([]byte, error)",
  "eventJSON, err := exactFieldsOnly(eventJSON, unredactableEvent)",
  "if err != nil {",
  "return nil, err",
  "}",
  "if err = json.Unmarshal(eventJSON, unredactableEvent); err != nil {",
  "return nil, err",
  "}",
  "newContent := map[string]interface{}{}",
  "keepContentFields, ok := eventTypeToKeepContentFields[unredactableEvent.GetType()]",
  "if ok && len(keepContentFields) == 0 {",
  "newContent = unredactableEvent.GetContent()",
  "} else {",
  "for _, contentKey := range keepContentFields {",
  "val, ok := unredactableEvent.GetContent()[contentKey]",
  "if ok {",
  "newContent[contentKey] = val",
  "}",
  "}",
  "}",
  "unredactableEvent.SetContent(newContent)",
  "return json.Marshal(&unredactableEvent)"
]

def redactevent__redactEventJSONV1 : List String := [
  "func func(eventJSON []byte) ([]byte, error)",
  "return redactEventJSON(eventJSON, &unredactableEventFieldsV1{}, unredactableContentFieldsV1)"
]

def redactevent__redactEventJSONV2 : List String := [
  "func func(eventJSON []byte) ([]byte, error)",
  "return redactEventJSON(eventJSON, &unredactableEventFieldsV1{}, unredactableContentFieldsV2)"
]

def redactevent__redactEventJSONV3 : List String := [
  "func func(eventJSON []byte) ([]byte, error)",
  "return redactEventJSON(eventJSON, &unredactableEventFieldsV1{}, unredactableContentFieldsV3)"
]

def redactevent__redactEventJSONV4 : List String := [
  "func func(eventJSON []byte) ([]byte, error)",
  "return redactEventJSON(eventJSON, &unredactableEventFieldsV1{}, unredactableContentFieldsV4)"
]

def redactevent__redactEventJSONV5 : List String := [
  "func func(eventJSON []byte) ([]byte, error)",
  "return redactEventJSON(eventJSON, &unredactableEventFieldsV2{}, unredactableContentFieldsV5)"
]

def redactevent_type_unredactableEvent : List String := [
  "type unredactableEvent interface { *unredactableEventFieldsV1 | *unredactableEventFieldsV2 GetType() string GetContent() map[string]interface{} SetContent(map[string]interface{}) }"
]

def redactevent_type_unredactableEventFieldsV1 : List String := [
  "type unredactableEventFieldsV1 struct { EventID spec.RawJSON `json:\"event_id,omitempty\"` Type string `json:\"type\"` RoomID spec.RawJSON `json:\"room_id,omitempty\"` Sender spec.RawJSON `json:\"sender,omitempty\"` StateKey spec.RawJSON `json:\"state_key,omitempty\"` Content map[string]interface{} `json:\"content\"` Hashes spec.RawJSON `json:\"hashes,omitempty\"` Signatures spec.RawJSON `json:\"signatures,omitempty\"` Depth spec.RawJSON `json:\"depth,omitempty\"` PrevEvents spec.RawJSON `json:\"prev_events,omitempty\"` PrevState spec.RawJSON `json:\"prev_state,omitempty\"` AuthEvents spec.RawJSON `json:\"auth_events,omitempty\"` Origin spec.RawJSON `json:\"origin,omitempty\"` OriginServerTS spec.RawJSON `json:\"origin_server_ts,omitempty\"` Membership spec.RawJSON `json:\"membership,omitempty\"` }"
]

def redactevent_type_unredactableEventFieldsV2 : List String := [
  "type unredactableEventFieldsV2 struct { EventID spec.RawJSON `json:\"event_id,omitempty\"` Type string `json:\"type\"` RoomID spec.RawJSON `json:\"room_id,omitempty\"` Sender spec.RawJSON `json:\"sender,omitempty\"` StateKey spec.RawJSON `json:\"state_key,omitempty\"` Content map[string]interface{} `json:\"content\"` Hashes spec.RawJSON `json:\"hashes,omitempty\"` Signatures spec.RawJSON `json:\"signatures,omitempty\"` Depth spec.RawJSON `json:\"depth,omitempty\"` PrevEvents spec.RawJSON `json:\"prev_events,omitempty\"` AuthEvents spec.RawJSON `json:\"auth_events,omitempty\"` OriginServerTS spec.RawJSON `json:\"origin_server_ts,omitempty\"` }"
]

def redactevent_unredactableEventFieldsV1_GetContent : List String := [
  "func func() map[string]interface{}",
  "return u.Content"
]

def redactevent_unredactableEventFieldsV1_GetType : List String := [
  "func func() string",
  "return u.Type"
]

def redactevent_unredactableEventFieldsV1_SetContent : List String := [
  "func func(content map[string]interface{})",
  "u.Content = content"
]

def redactevent_unredactableEventFieldsV2_GetContent : List String := [
  "func func() map[string]interface{}",
  "return u.Content"
]

def redactevent_unredactableEventFieldsV2_GetType : List String := [
  "func func() string",
  "return u.Type"
]

def redactevent_unredactableEventFieldsV2_SetContent : List String := [
  "func func(content map[string]interface{})",
  "u.Content = content"
]

def functions : List String := ["eventcrypto.go:.VerifyAllEventSignatures", "eventcrypto.go:.VerifyEventSignatures", "eventcrypto.go:.addContentHashesToEvent", "eventcrypto.go:.checkEventContentHash", "eventcrypto.go:.emptyAuthorisedViaServerName", "eventcrypto.go:.extractAuthorisedViaServerName", "eventcrypto.go:.getMXIDMapping", "eventcrypto.go:.membershipForSignatures", "eventcrypto.go:.referenceOfEvent", "eventcrypto.go:.referenceOfEventForVersion", "eventcrypto.go:.signEvent", "eventcrypto.go:.validateMXIDMappingSignatures", "keyring.go:DirectKeyFetcher.FetchKeys", "keyring.go:DirectKeyFetcher.FetcherName", "keyring.go:DirectKeyFetcher.fetchKeysForServer", "keyring.go:DirectKeyFetcher.fetchNotaryKeysForServer", "keyring.go:JSONVerifierSelf.VerifyJSONs", "keyring.go:KeyRing.VerifyJSONs", "keyring.go:KeyRing.checkUsingKeys", "keyring.go:KeyRing.isAlgorithmSupported", "keyring.go:KeyRing.publicKeyRequests", "keyring.go:PerspectiveKeyFetcher.FetchKeys", "keyring.go:PerspectiveKeyFetcher.FetcherName", "keyring.go:PublicKeyLookupRequest.MarshalText", "keyring.go:PublicKeyLookupRequest.UnmarshalText", "keyring.go:.NoStrictValidityCheck", "keyring.go:.StrictValiditySignatureCheck", "keyring.go:.mapServerKeysToPublicKeyLookupResult", "keyring.go:type DirectKeyFetcher", "keyring.go:type JSONVerifier", "keyring.go:type JSONVerifierSelf", "keyring.go:type KeyClient", "keyring.go:type KeyDatabase", "keyring.go:type KeyFetcher", "keyring.go:type KeyRing", "keyring.go:type PerspectiveKeyFetcher", "keyring.go:type PublicKeyLookupRequest", "keyring.go:type PublicKeyLookupResult", "keyring.go:type PublicKeyNotaryLookupRequest", "keyring.go:type PublicKeyNotaryQueryCriteria", "keyring.go:type SignatureValidityCheckFunc", "keyring.go:type VerifyJSONRequest", "keyring.go:type VerifyJSONResult", "keys.go:ServerKeys.MarshalJSON", "keys.go:ServerKeys.PublicKey", "keys.go:ServerKeys.UnmarshalJSON", "keys.go:.CheckKeys", "keys.go:.checkVerifyKeys", "keys.go:type Ed25519Checks", "keys.go:type KeyChecks", "keys.go:type OldVerifyKey", "keys.go:type ServerKeyFields", "keys.go:type ServerKeys", "keys.go:type VerifyKey", "redactevent.go:.exactFieldsOnly", "redactevent.go:.exactMembersOnly", "redactevent.go:.redactEventJSON", "redactevent.go:.redactEventJSONV1", "redactevent.go:.redactEventJSONV2", "redactevent.go:.redactEventJSONV3", "redactevent.go:.redactEventJSONV4", "redactevent.go:.redactEventJSONV5", "redactevent.go:type unredactableEvent", "redactevent.go:type unredactableEventFieldsV1", "redactevent.go:type unredactableEventFieldsV2", "redactevent.go:unredactableEventFieldsV1.GetContent", "redactevent.go:unredactableEventFieldsV1.GetType", "redactevent.go:unredactableEventFieldsV1.SetContent", "redactevent.go:unredactableEventFieldsV2.GetContent", "redactevent.go:unredactableEventFieldsV2.GetType", "redactevent.go:unredactableEventFieldsV2.SetContent"]

end VPins.C06
