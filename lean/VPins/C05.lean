/- PINNED copy of the statement skeletons of the Go functions the C05 model mirrors (written by tools/pin.sh
   when the model was last validated against the code). Compared with the regenerated VGen.SkelC05 in VProps/PinC05.lean. -/
namespace VPins.C05

def eventV1_eventV1_Redact : List String := [
  "func func()",
  "if e.redacted {",
  "return",
  "}",
  "verImpl, err := GetRoomVersion(e.roomVersion)",
  "if err != nil {",
  "panic(fmt.Errorf(\"gomatrixserverlib: invalid event %v\", err))",
  "}",
  "eventJSON, err := verImpl.RedactEventJSON(e.eventJSON)",
  "if err != nil {",
  "panic(fmt.Errorf(\"gomatrixserverlib: invalid event %v\", err))",
  "}",
  "if eventJSON, err = EnforcedCanonicalJSON(eventJSON, e.roomVersion); err != nil {",
  "panic(fmt.Errorf(\"gomatrixserverlib: invalid event %v\", err))",
  "}",
  "var res eventV1",
  "err = json.Unmarshal(eventJSON, &res)",
  "if err != nil {",
  "panic(fmt.Errorf(\"gomatrixserverlib: populateFieldsFromJSON failed %v\", err))",
  "}",
  "res.redacted = true",
  "res.roomVersion = e.roomVersion",
  "res.eventJSON = eventJSON",
  "*e = res"
]

def eventV2_eventV2_Redact : List String := [
  "func func()",
  "if e.redacted {",
  "return",
  "}",
  "verImpl, err := GetRoomVersion(e.roomVersion)",
  "if err != nil {",
  "panic(fmt.Errorf(\"gomatrixserverlib: invalid event %v\", err))",
  "}",
  "eventJSON, err := verImpl.RedactEventJSON(e.eventJSON)",
  "if err != nil {",
  "panic(fmt.Errorf(\"gomatrixserverlib: invalid event %v\", err))",
  "}",
  "if eventJSON, err = EnforcedCanonicalJSON(eventJSON, e.roomVersion); err != nil {",
  "panic(fmt.Errorf(\"gomatrixserverlib: invalid event %v\", err))",
  "}",
  "var res eventV2",
  "err = json.Unmarshal(eventJSON, &res)",
  "if err != nil {",
  "panic(fmt.Errorf(\"gomatrixserverlib: Redact failed %v\", err))",
  "}",
  "res.redacted = true",
  "res.eventJSON = eventJSON",
  "res.roomVersion = e.roomVersion",
  "if res.EventIDRaw == \"\" {",
  "res.EventIDRaw = e.EventIDRaw",
  "}",
  "*e = res"
]

def redactevent__redactEventJSON : List String := [
  "func func[T unredactableEvent](eventJSON []byte, unredactableEvent T, eventTypeToKeepContentFields map[string][]string) ([]byte, error)",
  "if err := json.Unmarshal(eventJSON, unredactableEvent); err != nil {",
  "return nil, err",
  "}",
  "newContent := map[string]interface{}{}",
  "keepContentFields, ok := eventTypeToKeepContentFields[unredactableEvent.GetType()]",
  "if ok && len(keepContentFields) == 0 {",
  "newContent = unredactableEvent.GetContent()",
  "} else {",
  "for _, contentKey := range keepContentFields {",
  "val, ok := unredactableEvent.GetContent()[contentKey]",
  "if ok {",
  "newContent[contentKey] = val",
  "}",
  "}",
  "}",
  "unredactableEvent.SetContent(newContent)",
  "return json.Marshal(&unredactableEvent)"
]

def redactevent__redactEventJSONV1 : List String := [
  "func func(eventJSON []byte) ([]byte, error)",
  "return redactEventJSON(eventJSON, &unredactableEventFieldsV1{}, unredactableContentFieldsV1)"
]

def redactevent__redactEventJSONV2 : List String := [
  "func func(eventJSON []byte) ([]byte, error)",
  "return redactEventJSON(eventJSON, &unredactableEventFieldsV1{}, unredactableContentFieldsV2)"
]

def redactevent__redactEventJSONV3 : List String := [
  "func func(eventJSON []byte) ([]byte, error)",
  "return redactEventJSON(eventJSON, &unredactableEventFieldsV1{}, unredactableContentFieldsV3)"
]

def redactevent__redactEventJSONV4 : List String := [
  "func func(eventJSON []byte) ([]byte, error)",
  "return redactEventJSON(eventJSON, &unredactableEventFieldsV1{}, unredactableContentFieldsV4)"
]

def redactevent__redactEventJSONV5 : List String := [
  "func func(eventJSON []byte) ([]byte, error)",
  "return redactEventJSON(eventJSON, &unredactableEventFieldsV2{}, unredactableContentFieldsV5)"
]

def redactevent_unredactableEventFieldsV1_GetContent : List String := [
  "func func() map[string]interface{}",
  "return u.Content"
]

def redactevent_unredactableEventFieldsV1_GetType : List String := [
  "func func() string",
  "return u.Type"
]

def redactevent_unredactableEventFieldsV1_SetContent : List String := [
  "func func(content map[string]interface{})",
  "u.Content = content"
]

def redactevent_unredactableEventFieldsV2_GetContent : List String := [
  "func func() map[string]interface{}",
  "return u.Content"
]

def redactevent_unredactableEventFieldsV2_GetType : List String := [
  "func func() string",
  "return u.Type"
]

def redactevent_unredactableEventFieldsV2_SetContent : List String := [
  "func func(content map[string]interface{})",
  "u.Content = content"
]

def functions : List String := ["eventV1.go:eventV1.Redact", "eventV2.go:eventV2.Redact", "redactevent.go:.redactEventJSON", "redactevent.go:.redactEventJSONV1", "redactevent.go:.redactEventJSONV2", "redactevent.go:.redactEventJSONV3", "redactevent.go:.redactEventJSONV4", "redactevent.go:.redactEventJSONV5", "redactevent.go:unredactableEventFieldsV1.GetContent", "redactevent.go:unredactableEventFieldsV1.GetType", "redactevent.go:unredactableEventFieldsV1.SetContent", "redactevent.go:unredactableEventFieldsV2.GetContent", "redactevent.go:unredactableEventFieldsV2.GetType", "redactevent.go:unredactableEventFieldsV2.SetContent"]

end VPins.C05
