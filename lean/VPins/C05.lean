/- PINNED copy of the statement skeletons of the Go functions the C05 model mirrors (written by tools/pin.sh
   when the model was last validated against the code). Compared with the regenerated VGen.SkelC05 in VProps/PinC05.lean. -/
namespace VPins.C05

def eventV1_eventV1_Redact : List String := [
  "func func()",
  "if e.redacted {",
  "return",
  "}",
  "verImpl, err := GetRoomVersion(e.roomVersion)",
  "if err != nil {",
  "panic(fmt.Errorf(\"gomatrixserverlib: invalid event %v\", err))",
  "}",
  "eventJSON, err := verImpl.RedactEventJSON(e.eventJSON)",
  "if err != nil {",
  "panic(fmt.Errorf(\"gomatrixserverlib: invalid event %v\", err))",
  "}",
  "if eventJSON, err = EnforcedCanonicalJSON(eventJSON, e.roomVersion); err != nil {",
  "panic(fmt.Errorf(\"gomatrixserverlib: invalid event %v\", err))",
  "}",
  "var res eventV1",
  "err = json.Unmarshal(eventJSON, &res)",
  "if err != nil {",
  "panic(fmt.Errorf(\"gomatrixserverlib: populateFieldsFromJSON failed %v\", err))",
  "}",
  "res.redacted = true",
  "res.roomVersion = e.roomVersion",
  "res.eventJSON = eventJSON",
  "*e = res"
]

def eventV2_eventV2_Redact : List String := [
  "func func()",
  "if e.redacted {",
  "return",
  "}",
  "verImpl, err := GetRoomVersion(e.roomVersion)",
  "if err != nil {",
  "panic(fmt.Errorf(\"gomatrixserverlib: invalid event %v\", err))",
  "}",
  "eventJSON, err := verImpl.RedactEventJSON(e.eventJSON)",
  "if err != nil {",
  "panic(fmt.Errorf(\"gomatrixserverlib: invalid event %v\", err))",
  "}",
  "if eventJSON, err = EnforcedCanonicalJSON(eventJSON, e.roomVersion); err != nil {",
  "panic(fmt.Errorf(\"gomatrixserverlib: invalid event %v\", err))",
  "}",
  "var res eventV2",
  "err = json.Unmarshal(eventJSON, &res)",
  "if err != nil {",
  "panic(fmt.Errorf(\"gomatrixserverlib: Redact failed %v\", err))",
  "}",
  "res.redacted = true",
  "res.eventJSON = eventJSON",
  "res.roomVersion = e.roomVersion",
  "if res.EventIDRaw == \"\" {",
  "res.EventIDRaw = e.EventIDRaw",
  "}",
  "*e = res"
]

def eventcrypto__VerifyAllEventSignatures : List String := [
  "func func(ctx context.Context, events []PDU, verifier JSONVerifier, userIDForSender spec.UserIDForSender) []error",
  "errors := make([]error, 0, len(events))",
  "for _, e := range events {",
  "errors = append(errors, VerifyEventSignatures(ctx, e, verifier, userIDForSender))",
  "}",
  "return errors"
]

def eventcrypto__VerifyEventSignatures : List String := [
  "func func(ctx context.Context, e PDU, verifier JSONVerifier, userIDForSender spec.UserIDForSender) error",
  "if userIDForSender == nil {",
  "panic(\"UserIDForSender func is nil\")",
  "}",
  "var serverName spec.ServerName",
  "needed := map[spec.ServerName]struct{}{}",
  "verImpl, err := GetRoomVersion(e.Version())",
  "if err != nil {",
  "return err",
  "}",
  "switch e.Version() {",
  "case RoomVersionPseudoIDs:",
  "needed[spec.ServerName(e.SenderID())] = struct{}{}",
  "default:",
  "sender, err := userIDForSender(e.RoomID(), e.SenderID())",
  "if err != nil {",
  "return fmt.Errorf(\"invalid sender userID: %w\", err)",
  "}",
  "if sender != nil {",
  "serverName = sender.Domain()",
  "needed[serverName] = struct{}{}",
  "}",
  "format := verImpl.EventIDFormat()",
  "if format == EventIDFormatV1 {",
  "_, serverName, err = SplitID('$', e.EventID())",
  "if err != nil {",
  "return fmt.Errorf(\"failed to split event ID: %w\", err)",
  "}",
  "needed[serverName] = struct{}{}",
  "}",
  "}",
  "if e.Type() == spec.MRoomMember {",
  "membership, err := membershipForSignatures(e)",
  "if err != nil {",
  "return fmt.Errorf(\"failed to get membership of membership event: %w\", err)",
  "}",
  "if verImpl.Version() == RoomVersionPseudoIDs && membership == spec.Join {",
  "mapping, err := getMXIDMapping(e)",
  "if err != nil {",
  "return err",
  "}",
  "if mapping.UserRoomKey != e.SenderID() {",
  "return fmt.Errorf(\"mxid_mapping is for %q, not for the sender %q\", mapping.UserRoomKey, e.SenderID())",
  "}",
  "err = validateMXIDMappingSignatures(ctx, e, *mapping, verifier, verImpl)",
  "if err != nil {",
  "return err",
  "}",
  "}",
  "if membership == spec.Invite {",
  "switch e.Version() {",
  "case RoomVersionPseudoIDs:",
  "needed[spec.ServerName(*e.StateKey())] = struct{}{}",
  "default:",
  "_, serverName, err = SplitID('@', *e.StateKey())",
  "if err != nil {",
  "return fmt.Errorf(\"failed to split state key: %w\", err)",
  "}",
  "needed[serverName] = struct{}{}",
  "}",
  "}",
  "if membership == spec.Join {",
  "auth, err := verImpl.RestrictedJoinServername(e.Content())",
  "if err != nil {",
  "return err",
  "}",
  "if auth != \"\" {",
  "needed[auth] = struct{}{}",
  "}",
  "}",
  "}",
  "redactedJSON, err := verImpl.RedactEventJSON(e.JSON())",
  "if err != nil {",
  "return fmt.Errorf(\"failed to redact event: %w\", err)",
  "}",
  "var toVerify []VerifyJSONRequest",
  "for serverName := range needed {",
  "v := VerifyJSONRequest{Message: redactedJSON, AtTS: e.OriginServerTS(), ServerName: serverName, ValidityCheckingFunc: verImpl.SignatureValidityCheck}",
  "toVerify = append(toVerify, v)",
  "}",
  "if verImpl.Version() == RoomVersionPseudoIDs {",
  "verifier = JSONVerifierSelf{}",
  "}",
  "results, err := verifier.VerifyJSONs(ctx, toVerify)",
  "if err != nil {",
  "return fmt.Errorf(\"failed to verify JSONs: %w\", err)",
  "}",
  "for _, result := range results {",
  "if result.Error != nil {",
  "return result.Error",
  "}",
  "}",
  "return nil"
]

def eventcrypto__addContentHashesToEvent : List String := [
  "func func(eventJSON []byte) ([]byte, error)",
  "var event map[string]spec.RawJSON",
  "if err := json.Unmarshal(eventJSON, &event); err != nil {",
  "return nil, err",
  "}",
  "unsignedJSON := event[\"unsigned\"]",
  "signatures := event[\"signatures\"]",
  "delete(event, \"signatures\")",
  "delete(event, \"unsigned\")",
  "delete(event, \"hashes\")",
  "hashableEventJSON, err := json.Marshal(event)",
  "if err != nil {",
  "return nil, err",
  "}",
  "hashableEventJSON, err = CanonicalJSON(hashableEventJSON)",
  "if err != nil {",
  "return nil, err",
  "}",
  "sha256Hash := sha256.Sum256(hashableEventJSON)",
  "hashes := struct { Sha256 spec.Base64Bytes `json:\"sha256\"` }{spec.Base64Bytes(sha256Hash[:])}",
  "hashesJSON, err := json.Marshal(&hashes)",
  "if err != nil {",
  "return nil, err",
  "}",
  "if len(unsignedJSON) > 0 {",
  "event[\"unsigned\"] = unsignedJSON",
  "}",
  "if len(signatures) > 0 {",
  "event[\"signatures\"] = signatures",
  "}",
  "event[\"hashes\"] = spec.RawJSON(hashesJSON)",
  "return json.Marshal(event)"
]

def eventcrypto__checkEventContentHash : List String := [
  "func func(eventJSON []byte) error",
  "var err error",
  "result := gjson.GetBytes(eventJSON, \"hashes.sha256\")",
  "var hash spec.Base64Bytes",
  "if err = hash.Decode(result.Str); err != nil {",
  "return err",
  "}",
  "hashableEventJSON := eventJSON",
  "for _, key := range []string{\"signatures\", \"unsigned\", \"hashes\"} {",
  "if hashableEventJSON, err = sjson.DeleteBytes(hashableEventJSON, key); err != nil {",
  "return err",
  "}",
  "}",
  "sha256Hash := sha256.Sum256(hashableEventJSON)",
  "if !bytes.Equal(sha256Hash[:], []byte(hash)) {",
  "return fmt.Errorf(\"Invalid Sha256 content hash: %v != %v\", sha256Hash[:], []byte(hash))",
  "}",
  "return nil"
]

def eventcrypto__emptyAuthorisedViaServerName : List String := [
  "func func([]byte) (spec.ServerName, error)",
  "return \"\", nil"
]

def eventcrypto__extractAuthorisedViaServerName : List String := [
  "func func(content []byte) (spec.ServerName, error)",
  "var members map[string]json.RawMessage",
  "if err := json.Unmarshal(content, &members); err != nil {",
  "return \"\", fmt.Errorf(\"failed to read member content: %w\", err)",
  "}",
  "if v, ok := members[\"join_authorised_via_users_server\"]; ok {",
  "var userID string",
  "if err := json.Unmarshal(v, &userID); err != nil {",
  "return \"\", fmt.Errorf(\"failed to read authorised user: %w\", err)",
  "}",
  "_, serverName, err := SplitID('@', userID)",
  "if err != nil {",
  "return \"\", fmt.Errorf(\"failed to split authorised server: %w\", err)",
  "}",
  "if serverName == \"\" {",
  "return \"\", fmt.Errorf(\"authorised user %q has no server name\", userID)",
  "}",
  "return serverName, nil",
  "}",
  "return \"\", nil"
]

def eventcrypto__getMXIDMapping : List String := [
  "func func(e PDU) (*MXIDMapping, error)",
  "var content MemberContent",
  "exact, err := exactFieldsOnly(e.Content(), &content)",
  "if err != nil {",
  "return nil, err",
  "}",
  "err = json.Unmarshal(exact, &content)",
  "if err != nil {",
  "return nil, err",
  "}",
  "if content.MXIDMapping == nil {",
  "return nil, fmt.Errorf(\"missing mxid_mapping\")",
  "}",
  "return content.MXIDMapping, nil"
]

def eventcrypto__membershipForSignatures : List String := [
  "func func(e PDU) (string, error)",
  "var content struct { Membership string `json:\"membership\"` }",
  "exact, err := exactFieldsOnly(e.Content(), &content)",
  "if err != nil {",
  "return \"\", err",
  "}",
  "if err = json.Unmarshal(exact, &content); err != nil {",
  "return \"\", err",
  "}",
  "if e.StateKey() == nil {",
  "return \"\", fmt.Errorf(\"gomatrixserverlib: not a m.room.member event, missing state key\")",
  "}",
  "return content.Membership, nil"
]

def eventcrypto__referenceOfEvent : List String := [
  "func func(eventJSON []byte, roomVersion RoomVersion) (eventReference, error)",
  "verImpl, err := GetRoomVersion(roomVersion)",
  "if err != nil {",
  "return eventReference{}, err",
  "}",
  "return referenceOfEventForVersion(eventJSON, verImpl)"
]

def eventcrypto__referenceOfEventForVersion : List String := [
  "func func(eventJSON []byte, verImpl IRoomVersion) (eventReference, error)",
  "redactedJSON, err := verImpl.RedactEventJSON(eventJSON)",
  "if err != nil {",
  "return eventReference{}, err",
  "}",
  "var event map[string]spec.RawJSON",
  "if err = json.Unmarshal(redactedJSON, &event); err != nil {",
  "return eventReference{}, err",
  "}",
  "delete(event, \"signatures\")",
  "delete(event, \"unsigned\")",
  "hashableEventJSON, err := json.Marshal(event)",
  "if err != nil {",
  "return eventReference{}, err",
  "}",
  "hashableEventJSON, err = CanonicalJSON(hashableEventJSON)",
  "if err != nil {",
  "return eventReference{}, err",
  "}",
  "sha256Hash := sha256.Sum256(hashableEventJSON)",
  "var eventID string",
  "eventFormat := verImpl.EventFormat()",
  "eventIDFormat := verImpl.EventIDFormat()",
  "switch eventFormat {",
  "case EventFormatV1:",
  "if err = json.Unmarshal(event[\"event_id\"], &eventID); err != nil {",
  "return eventReference{}, err",
  "}",
  "case EventFormatV2:",
  "var encoder *base64.Encoding",
  "switch eventIDFormat {",
  "case EventIDFormatV2:",
  "encoder = base64.RawStdEncoding.WithPadding(base64.NoPadding)",
  "case EventIDFormatV3:",
  "encoder = base64.RawURLEncoding.WithPadding(base64.NoPadding)",
  "default:",
  "return eventReference{}, UnsupportedRoomVersionError{Version: verImpl.Version()}",
  "}",
  "eventID = fmt.Sprintf(\"$%s\", encoder.EncodeToString(sha256Hash[:]))",
  "default:",
  "return eventReference{}, UnsupportedRoomVersionError{Version: verImpl.Version()}",
  "}",
  "return eventReference{eventID, sha256Hash[:]}, nil"
]

def eventcrypto__signEvent : List String := [
  "func func(signingName string, keyID KeyID, privateKey ed25519.PrivateKey, eventJSON []byte, roomVersion RoomVersion) ([]byte, error)",
  "verImpl, err := GetRoomVersion(roomVersion)",
  "if err != nil {",
  "return nil, err",
  "}",
  "redactedJSON, err := verImpl.RedactEventJSON(eventJSON)",
  "if err != nil {",
  "return nil, err",
  "}",
  "signedJSON, err := SignJSON(signingName, keyID, privateKey, redactedJSON)",
  "if err != nil {",
  "return nil, err",
  "}",
  "var signedEvent struct { Signatures spec.RawJSON `json:\"signatures\"` }",
  "if err := json.Unmarshal(signedJSON, &signedEvent); err != nil {",
  "return nil, err",
  "}",
  "var event map[string]spec.RawJSON",
  "if err := json.Unmarshal(eventJSON, &event); err != nil {",
  "return nil, err",
  "}",
  "event[\"signatures\"] = signedEvent.Signatures",
  "return json.Marshal(event)"
]

def eventcrypto__validateMXIDMappingSignatures : List String := [
  "func func(ctx context.Context, e PDU, mapping MXIDMapping, verifier JSONVerifier, verImpl IRoomVersion) error",
  "mappingBytes, err := json.Marshal(mapping)",
  "if err != nil {",
  "return err",
  "}",
  "_, userServer, err := SplitID('@', mapping.UserID)",
  "if err != nil {",
  "return fmt.Errorf(\"failed to verify MXIDMapping: %w\", err)",
  "}",
  "if _, ok := mapping.Signatures[userServer]; !ok {",
  "return fmt.Errorf(\"failed to verify MXIDMapping: not signed by %q\", userServer)",
  "}",
  "var toVerify []VerifyJSONRequest",
  "for s := range mapping.Signatures {",
  "v := VerifyJSONRequest{Message: mappingBytes, AtTS: e.OriginServerTS(), ServerName: s, ValidityCheckingFunc: verImpl.SignatureValidityCheck}",
  "toVerify = append(toVerify, v)",
  "}",
  "results, err := verifier.VerifyJSONs(ctx, toVerify)",
  "if err != nil {",
  "return fmt.Errorf(\"failed to verify MXIDMapping: %w\", err)",
  "}",
  "for _, result := range results {",
  "if result.Error != nil {",
  "return fmt.Errorf(\"failed to verify MXIDMapping: %w\", result.Error)",
  "}",
  "}",
  "return err"
]

def eventversion_RoomVersionImpl_RedactEventJSON : List String := [
  "func func(eventJSON []byte) ([]byte, error)",
  "return v.redactionAlgorithm(eventJSON)"
]

def redactevent__exactFieldsOnly : List String := [
  "func func(eventJSON []byte, keepStruct interface{}) ([]byte, error)",
  "var members map[string]json.RawMessage",
  "if err := json.Unmarshal(eventJSON, &members); err != nil {",
  "return nil, err",
  "}",
  "fields := reflect.TypeOf(keepStruct).Elem()",
  "exact := make(map[string]json.RawMessage, fields.NumField())",
  "for i := 0; i < fields.NumField(); i++ {",
  "name, _, _ := strings.Cut(fields.Field(i).Tag.Get(\"json\"), \",\")",
  "if value, ok := members[name]; ok {",
  "exact[name] = value",
  "}",
  "}",
  "return json.Marshal(exact)"
]

def redactevent__exactMembersOnly : List String := [
  "func func(content []byte, keepStruct interface{}) []byte",
  "if object := bytes.TrimLeft(content, \" \\t\\r\\n\"); len(object) == 0 || object[0] != '{' {",
  "return content",
  "}",
  "exact, err := exactFieldsOnly(content, keepStruct)",
  "if err != nil {",
  "return content",
  "}",
  "return exact"
]

def redactevent__redactEventJSON : List String := [
  "func func[T unredactableEvent](eventJSON []byte, unredactableEvent T, eventTypeToKeepContentFields map[string][]string) ([]byte, error)",
  "eventJSON, err := exactFieldsOnly(eventJSON, unredactableEvent)",
  "if err != nil {",
  "return nil, err",
  "}",
  "if err = json.Unmarshal(eventJSON, unredactableEvent); err != nil {",
  "return nil, err",
  "}",
  "newContent := map[string]interface{}{}",
  "keepContentFields, ok := eventTypeToKeepContentFields[unredactableEvent.GetType()]",
  "if ok && len(keepContentFields) == 0 {",
  "newContent = unredactableEvent.GetContent()",
  "} else {",
  "for _, contentKey := range keepContentFields {",
  "val, ok := unredactableEvent.GetContent()[contentKey]",
  "if ok {",
  "newContent[contentKey] = val",
  "}",
  "}",
  "}",
  "unredactableEvent.SetContent(newContent)",
  "return json.Marshal(&unredactableEvent)"
]

def redactevent__redactEventJSONV1 : List String := [
  "func func(eventJSON []byte) ([]byte, error)",
  "return redactEventJSON(eventJSON, &unredactableEventFieldsV1{}, unredactableContentFieldsV1)"
]

def redactevent__redactEventJSONV2 : List String := [
  "func func(eventJSON []byte) ([]byte, error)",
  "return redactEventJSON(eventJSON, &unredactableEventFieldsV1{}, unredactableContentFieldsV2)"
]

def redactevent__redactEventJSONV3 : List String := [
  "func func(eventJSON []byte) ([]byte, error)",
  "return redactEventJSON(eventJSON, &unredactableEventFieldsV1{}, unredactableContentFieldsV3)"
]

def redactevent__redactEventJSONV4 : List String := [
  "func func(eventJSON []byte) ([]byte, error)",
  "return redactEventJSON(eventJSON, &unredactableEventFieldsV1{}, unredactableContentFieldsV4)"
]

def redactevent__redactEventJSONV5 : List String := [
  "func func(eventJSON []byte) ([]byte, error)",
  "return redactEventJSON(eventJSON, &unredactableEventFieldsV2{}, unredactableContentFieldsV5)"
]

def redactevent_type_unredactableEvent : List String := [
  "type unredactableEvent interface { *unredactableEventFieldsV1 | *unredactableEventFieldsV2 GetType() string GetContent() map[string]interface{} SetContent(map[string]interface{}) }"
]

def redactevent_type_unredactableEventFieldsV1 : List String := [
  "type unredactableEventFieldsV1 struct { EventID spec.RawJSON `json:\"event_id,omitempty\"` Type string `json:\"type\"` RoomID spec.RawJSON `json:\"room_id,omitempty\"` Sender spec.RawJSON `json:\"sender,omitempty\"` StateKey spec.RawJSON `json:\"state_key,omitempty\"` Content map[string]interface{} `json:\"content\"` Hashes spec.RawJSON `json:\"hashes,omitempty\"` Signatures spec.RawJSON `json:\"signatures,omitempty\"` Depth spec.RawJSON `json:\"depth,omitempty\"` PrevEvents spec.RawJSON `json:\"prev_events,omitempty\"` PrevState spec.RawJSON `json:\"prev_state,omitempty\"` AuthEvents spec.RawJSON `json:\"auth_events,omitempty\"` Origin spec.RawJSON `json:\"origin,omitempty\"` OriginServerTS spec.RawJSON `json:\"origin_server_ts,omitempty\"` Membership spec.RawJSON `json:\"membership,omitempty\"` }"
]

def redactevent_type_unredactableEventFieldsV2 : List String := [
  "type unredactableEventFieldsV2 struct { EventID spec.RawJSON `json:\"event_id,omitempty\"` Type string `json:\"type\"` RoomID spec.RawJSON `json:\"room_id,omitempty\"` Sender spec.RawJSON `json:\"sender,omitempty\"` StateKey spec.RawJSON `json:\"state_key,omitempty\"` Content map[string]interface{} `json:\"content\"` Hashes spec.RawJSON `json:\"hashes,omitempty\"` Signatures spec.RawJSON `json:\"signatures,omitempty\"` Depth spec.RawJSON `json:\"depth,omitempty\"` PrevEvents spec.RawJSON `json:\"prev_events,omitempty\"` AuthEvents spec.RawJSON `json:\"auth_events,omitempty\"` OriginServerTS spec.RawJSON `json:\"origin_server_ts,omitempty\"` }"
]

def redactevent_unredactableEventFieldsV1_GetContent : List String := [
  "func func() map[string]interface{}",
  "return u.Content"
]

def redactevent_unredactableEventFieldsV1_GetType : List String := [
  "func func() string",
  "return u.Type"
]

def redactevent_unredactableEventFieldsV1_SetContent : List String := [
  "func func(content map[string]interface{})",
  "u.Content = content"
]

def redactevent_unredactableEventFieldsV2_GetContent : List String := [
  "func func() map[string]interface{}",
  "return u.Content"
]

def redactevent_unredactableEventFieldsV2_GetType : List String := [
  "func func() string",
  "return u.Type"
]

def redactevent_unredactableEventFieldsV2_SetContent : List String := [
  "func func(content map[string]interface{})",
  "u.Content = content"
]

def functions : List String := ["eventV1.go:eventV1.Redact", "eventV2.go:eventV2.Redact", "eventcrypto.go:.VerifyAllEventSignatures", "eventcrypto.go:.VerifyEventSignatures", "eventcrypto.go:.addContentHashesToEvent", "eventcrypto.go:.checkEventContentHash", "eventcrypto.go:.emptyAuthorisedViaServerName", "eventcrypto.go:.extractAuthorisedViaServerName", "eventcrypto.go:.getMXIDMapping", "eventcrypto.go:.membershipForSignatures", "eventcrypto.go:.referenceOfEvent", "eventcrypto.go:.referenceOfEventForVersion", "eventcrypto.go:.signEvent", "eventcrypto.go:.validateMXIDMappingSignatures", "eventversion.go:RoomVersionImpl.RedactEventJSON", "redactevent.go:.exactFieldsOnly", "redactevent.go:.exactMembersOnly", "redactevent.go:.redactEventJSON", "redactevent.go:.redactEventJSONV1", "redactevent.go:.redactEventJSONV2", "redactevent.go:.redactEventJSONV3", "redactevent.go:.redactEventJSONV4", "redactevent.go:.redactEventJSONV5", "redactevent.go:type unredactableEvent", "redactevent.go:type unredactableEventFieldsV1", "redactevent.go:type unredactableEventFieldsV2", "redactevent.go:unredactableEventFieldsV1.GetContent", "redactevent.go:unredactableEventFieldsV1.GetType", "redactevent.go:unredactableEventFieldsV1.SetContent", "redactevent.go:unredactableEventFieldsV2.GetContent", "redactevent.go:unredactableEventFieldsV2.GetType", "redactevent.go:unredactableEventFieldsV2.SetContent"]

end VPins.C05
