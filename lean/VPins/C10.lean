/- PINNED copy of the statement skeletons of the Go functions the C10 model mirrors (written by tools/pin.sh
   when the model was last validated against the code). Compared with the regenerated VGen.SkelC10 in VProps/PinC10.lean. -/
namespace VPins.C10

def eventauth_AuthEvents_AddEvent : List String := [
  "func func(event PDU) error",
  "if event.StateKey() == nil {",
  "return fmt.Errorf(\"AddEvent: event %q does not have a state key\", event.Type())",
  "}",
  "a.roomIDs[event.RoomID().String()] = struct{}{}",
  "a.events[StateKeyTuple{event.Type(), *event.StateKey()}] = event",
  "return nil"
]

def eventauth_AuthEvents_Clear : List String := [
  "func func()",
  "for k := range a.events {",
  "delete(a.events, k)",
  "}",
  "for k := range a.roomIDs {",
  "delete(a.roomIDs, k)",
  "}"
]

def eventauth_AuthEvents_Create : List String := [
  "func func() (PDU, error)",
  "return a.events[StateKeyTuple{spec.MRoomCreate, \"\"}], nil"
]

def eventauth_AuthEvents_JoinRules : List String := [
  "func func() (PDU, error)",
  "return a.events[StateKeyTuple{spec.MRoomJoinRules, \"\"}], nil"
]

def eventauth_AuthEvents_Member : List String := [
  "func func(stateKey spec.SenderID) (PDU, error)",
  "return a.events[StateKeyTuple{spec.MRoomMember, string(stateKey)}], nil"
]

def eventauth_AuthEvents_PowerLevels : List String := [
  "func func() (PDU, error)",
  "return a.events[StateKeyTuple{spec.MRoomPowerLevels, \"\"}], nil"
]

def eventauth_AuthEvents_ThirdPartyInvite : List String := [
  "func func(stateKey string) (PDU, error)",
  "return a.events[StateKeyTuple{spec.MRoomThirdPartyInvite, stateKey}], nil"
]

def eventauth_AuthEvents_Valid : List String := [
  "func func() bool",
  "return len(a.roomIDs) <= 1"
]

def eventauth_NotAllowed_Error : List String := [
  "func func() string",
  "return \"eventauth: \" + a.Message"
]

def eventauth_StateNeeded_AuthEventReferences : List String := [
  "func func(provider AuthEventProvider) (refs []string, err error)",
  "refs = make([]string, 0, 5)",
  "var e PDU",
  "if s.Create {",
  "if e, err = provider.Create(); err != nil {",
  "return",
  "} else if e != nil {",
  "refs = append(refs, e.EventID())",
  "}",
  "}",
  "if s.JoinRules {",
  "if e, err = provider.JoinRules(); err != nil {",
  "return",
  "} else if e != nil {",
  "refs = append(refs, e.EventID())",
  "}",
  "}",
  "if s.PowerLevels {",
  "if e, err = provider.PowerLevels(); err != nil {",
  "return",
  "} else if e != nil {",
  "refs = append(refs, e.EventID())",
  "}",
  "}",
  "for _, userID := range s.Member {",
  "if e, err = provider.Member(spec.SenderID(userID)); err != nil {",
  "return",
  "} else if e != nil {",
  "refs = append(refs, e.EventID())",
  "}",
  "}",
  "for _, token := range s.ThirdPartyInvite {",
  "if e, err = provider.ThirdPartyInvite(token); err != nil {",
  "return",
  "} else if e != nil {",
  "refs = append(refs, e.EventID())",
  "}",
  "}",
  "return"
]

def eventauth_StateNeeded_Tuples : List String := [
  "func func() (res []StateKeyTuple)",
  "if s.Create {",
  "res = append(res, StateKeyTuple{spec.MRoomCreate, \"\"})",
  "}",
  "if s.JoinRules {",
  "res = append(res, StateKeyTuple{spec.MRoomJoinRules, \"\"})",
  "}",
  "if s.PowerLevels {",
  "res = append(res, StateKeyTuple{spec.MRoomPowerLevels, \"\"})",
  "}",
  "for _, senderID := range s.Member {",
  "res = append(res, StateKeyTuple{spec.MRoomMember, senderID})",
  "}",
  "for _, token := range s.ThirdPartyInvite {",
  "res = append(res, StateKeyTuple{spec.MRoomThirdPartyInvite, token})",
  "}",
  "return"
]

def eventauth__Allowed : List String := [
  "func func(event PDU, authEvents AuthEventProvider, userIDQuerier spec.UserIDForSender) error",
  "if !authEvents.Valid() {",
  "return errorf(\"authEvents contains events from different rooms\")",
  "}",
  "return newAllowerContext(authEvents, userIDQuerier, event.RoomID()).allowed(event)"
]

def eventauth__NewAuthEvents : List String := [
  "func func(events []PDU) (*AuthEvents, error)",
  "a := AuthEvents{events: make(map[StateKeyTuple]PDU, len(events)), roomIDs: make(map[string]struct{})}",
  "for _, e := range events {",
  "if err := a.AddEvent(e); err != nil {",
  "return nil, err",
  "}",
  "}",
  "return &a, nil"
]

def eventauth__StateNeededForAuth : List String := [
  "func func(events []PDU) (result StateNeeded)",
  "for _, event := range events {",
  "var content *membershipContent",
  "if event.Type() == spec.MRoomMember {",
  "_ = json.Unmarshal(exactMembersOnly(event.Content(), content), &content)",
  "}",
  "_ = accumulateStateNeeded(&result, event.Type(), event.SenderID(), event.StateKey(), content)",
  "}",
  "result.Member = util.UniqueStrings(result.Member)",
  "result.ThirdPartyInvite = util.UniqueStrings(result.ThirdPartyInvite)",
  "return"
]

def eventauth__StateNeededForProtoEvent : List String := [
  "func func(protoEvent *ProtoEvent) (result StateNeeded, err error)",
  "var content *membershipContent",
  "if protoEvent.Type == spec.MRoomMember {",
  "if err = json.Unmarshal(exactMembersOnly(protoEvent.Content, content), &content); err != nil {",
  "err = errorf(\"unparseable member event content: %s\", err.Error())",
  "return",
  "}",
  "}",
  "err = accumulateStateNeeded(&result, protoEvent.Type, spec.SenderID(protoEvent.SenderID), protoEvent.StateKey, content)",
  "result.Member = util.UniqueStrings(result.Member)",
  "result.ThirdPartyInvite = util.UniqueStrings(result.ThirdPartyInvite)",
  "return"
]

def eventauth__accumulateStateNeeded : List String := [
  "func func(result *StateNeeded, eventType string, sender spec.SenderID, stateKey *string, content *membershipContent) (err error)",
  "switch eventType {",
  "case spec.MRoomCreate:",
  "case spec.MRoomAliases:",
  "result.Create = true",
  "case spec.MRoomMember:",
  "if content == nil {",
  "err = errorf(\"missing memberContent for m.room.member event\")",
  "return",
  "}",
  "result.Create = true",
  "result.PowerLevels = true",
  "result.Member = append(result.Member, string(sender))",
  "if stateKey != nil {",
  "result.Member = append(result.Member, *stateKey)",
  "}",
  "if content.Membership == spec.Join || content.Membership == spec.Knock || content.Membership == spec.Invite {",
  "result.JoinRules = true",
  "}",
  "if content.AuthorizedVia != \"\" {",
  "result.Member = append(result.Member, content.AuthorizedVia)",
  "}",
  "if content.ThirdPartyInvite != nil {",
  "token, tokErr := thirdPartyInviteToken(content.ThirdPartyInvite)",
  "if tokErr != nil {",
  "err = errorf(\"could not get third-party token: %s\", tokErr)",
  "return",
  "}",
  "result.ThirdPartyInvite = append(result.ThirdPartyInvite, token)",
  "}",
  "default:",
  "result.Create = true",
  "result.PowerLevels = true",
  "result.Member = append(result.Member, string(sender))",
  "}",
  "return"
]

def eventauth__allowRestrictedJoins : List String := [
  "func func() error",
  "return nil"
]

def eventauth__checkEventLevels : List String := [
  "func func(senderLevel int64, oldPowerLevels, newPowerLevels PowerLevelContent) error",
  "type levelPair struct { old int64 new int64 }",
  "levelChecks := []levelPair{{oldPowerLevels.Ban, newPowerLevels.Ban}, {oldPowerLevels.Invite, newPowerLevels.Invite}, {oldPowerLevels.Kick, newPowerLevels.Kick}, {oldPowerLevels.Redact, newPowerLevels.Redact}, {oldPowerLevels.StateDefault, newPowerLevels.StateDefault}, {oldPowerLevels.EventsDefault, newPowerLevels.EventsDefault}, {oldPowerLevels.UsersDefault, newPowerLevels.UsersDefault}}",
  "const ( isStateEvent = false )",
  "for eventType := range newPowerLevels.Events {",
  "levelChecks = append(levelChecks, levelPair{oldPowerLevels.EventLevel(eventType, isStateEvent), newPowerLevels.EventLevel(eventType, isStateEvent)})",
  "}",
  "for eventType := range oldPowerLevels.Events {",
  "levelChecks = append(levelChecks, levelPair{oldPowerLevels.EventLevel(eventType, isStateEvent), newPowerLevels.EventLevel(eventType, isStateEvent)})",
  "}",
  "for _, level := range levelChecks {",
  "if level.old == level.new {",
  "continue",
  "}",
  "if senderLevel < level.new {",
  "return errorf(\"sender with level %d is not allowed to change level from %d to %d\"+\" because the new level is above the level of the sender\", senderLevel, level.old, level.new)",
  "}",
  "if senderLevel < level.old {",
  "return errorf(\"sender with level %d is not allowed to change level from %d to %d\"+\" because the current level is above the level of the sender\", senderLevel, level.old, level.new)",
  "}",
  "}",
  "return nil"
]

def eventauth__checkKnocking : List String := [
  "func func(roomVer, sender, target, joinRule, prevMembership string) error",
  "supported := joinRule == spec.Knock || joinRule == spec.KnockRestricted",
  "if !supported {",
  "return errorf(\"%q is not allowed to change the membership of %q from %q as room version %q does not support knocking on rooms with join rule %q\", sender, target, prevMembership, roomVer, joinRule)",
  "}",
  "switch prevMembership {",
  "case spec.Join, spec.Invite, spec.Ban:",
  "return errorf(\"%q is not allowed to change the membership of %q from %q as sender is already joined/invited/banned\", sender, target, prevMembership)",
  "}",
  "return nil"
]

def eventauth__checkNotificationLevels : List String := [
  "func func(senderLevel int64, oldPowerLevels, newPowerLevels PowerLevelContent) error",
  "type levelPair struct { old int64 new int64 userID string }",
  "notificationLevelChecks := []levelPair{}",
  "for notification := range newPowerLevels.Notifications {",
  "notificationLevelChecks = append(notificationLevelChecks, levelPair{oldPowerLevels.NotificationLevel(notification), newPowerLevels.NotificationLevel(notification), notification})",
  "}",
  "for notification := range oldPowerLevels.Notifications {",
  "notificationLevelChecks = append(notificationLevelChecks, levelPair{oldPowerLevels.NotificationLevel(notification), newPowerLevels.NotificationLevel(notification), notification})",
  "}",
  "for _, level := range notificationLevelChecks {",
  "if level.old == level.new {",
  "continue",
  "}",
  "if senderLevel < level.new {",
  "return errorf(\"sender with level %d is not allowed change notification level from %d to %d\"+\" because the new level is above the level of the sender\", senderLevel, level.old, level.new)",
  "}",
  "if senderLevel <= level.old {",
  "return errorf(\"sender with level %d is not allowed to change notification level from %d to %d\"+\" because the old level is equal to or above the level of the sender\", senderLevel, level.old, level.new)",
  "}",
  "}",
  "return nil"
]

def eventauth__checkPowerLevelEventV1 : List String := [
  "func func(sender string, createEvent PDU, oldPowerLevels, newPowerLevels PowerLevelContent) error",
  "return nil"
]

def eventauth__checkPowerLevelEventV2 : List String := [
  "func func(sender string, createEvent PDU, oldPowerLevels, newPowerLevels PowerLevelContent) error",
  "senderLevel := oldPowerLevels.UserLevel(spec.SenderID(sender))",
  "return checkNotificationLevels(senderLevel, oldPowerLevels, newPowerLevels)"
]

def eventauth__checkPowerLevelEventV3 : List String := [
  "func func(sender string, createEvent PDU, oldPowerLevels, newPowerLevels PowerLevelContent) error",
  "var content CreateContent",
  "if err := json.Unmarshal(exactMembersOnly(createEvent.Content(), &content), &content); err != nil {",
  "return errorf(\"checkPowerLevelEventV3 unparseable create event content: %s\", err.Error())",
  "}",
  "creators := []string{string(createEvent.SenderID())}",
  "creators = append(creators, content.AdditionalCreators...)",
  "senderLevel := oldPowerLevels.UserLevel(spec.SenderID(sender))",
  "if slices.Contains(creators, sender) {",
  "senderLevel = CreatorPowerLevel",
  "}",
  "if err := checkNotificationLevels(senderLevel, oldPowerLevels, newPowerLevels); err != nil {",
  "return err",
  "}",
  "for userID := range newPowerLevels.Users {",
  "if slices.Contains(creators, userID) {",
  "return &EventValidationError{Code: 400, Message: fmt.Sprintf(\"new power levels event must not contain creator '%s'\", userID)}",
  "}",
  "}",
  "return nil"
]

def eventauth__checkUserLevels : List String := [
  "func func(senderLevel int64, senderID spec.SenderID, oldPowerLevels, newPowerLevels PowerLevelContent) error",
  "type levelPair struct { old int64 new int64 }",
  "userLevelChecks := map[spec.SenderID]levelPair{}",
  "for userSenderID := range newPowerLevels.Users {",
  "userLevelChecks[spec.SenderID(userSenderID)] = levelPair{old: oldPowerLevels.UserLevel(spec.SenderID(userSenderID)), new: newPowerLevels.UserLevel(spec.SenderID(userSenderID))}",
  "}",
  "for userSenderID := range oldPowerLevels.Users {",
  "userLevelChecks[spec.SenderID(userSenderID)] = levelPair{old: oldPowerLevels.UserLevel(spec.SenderID(userSenderID)), new: newPowerLevels.UserLevel(spec.SenderID(userSenderID))}",
  "}",
  "for userSenderID, level := range userLevelChecks {",
  "if level.old == level.new {",
  "continue",
  "}",
  "if senderLevel < level.new {",
  "return errorf(\"sender %q with level %d is not allowed change user %q level from %d to %d\"+\" because the new level is above the level of the sender\", senderID, senderLevel, userSenderID, level.old, level.new)",
  "}",
  "if userSenderID == senderID {",
  "continue",
  "}",
  "if senderLevel <= level.old {",
  "return errorf(\"sender %q with level %d is not allowed to change user %q level from %d to %d\"+\" because the old level is equal to or above the level of the sender\", senderID, senderLevel, userSenderID, level.old, level.new)",
  "}",
  "}",
  "return nil"
]

def eventauth__disallowKnocking : List String := [
  "func func(roomVer, sender, target, joinRule, prevMembership string) error",
  "if sender == target {",
  "return errorf(\"%q is not allowed to change their membership from %q as room version %q does not support knocking on rooms with join rule %q\", sender, prevMembership, roomVer, joinRule)",
  "}",
  "return errorf(\"%q is not allowed to change the membership of %q from %q as room version %q does not support knocking on rooms with join rule %q\", sender, target, prevMembership, roomVer, joinRule)"
]

def eventauth__disallowRestrictedJoins : List String := [
  "func func() error",
  "return errorf(\"restricted joins are not supported in this room version\")"
]

def eventauth__errorf : List String := [
  "func func(message string, args ...interface{}) error",
  "return &NotAllowed{Message: fmt.Sprintf(message, args...)}"
]

def eventauth__newAllowerContext : List String := [
  "func func(provider AuthEventProvider, userIDQuerier spec.UserIDForSender, roomID spec.RoomID) *allowerContext",
  "a := &allowerContext{userIDQuerier: userIDQuerier, roomID: roomID}",
  "a.update(provider)",
  "return a"
]

def eventauth__thirdPartyInviteToken : List String := [
  "func func(thirdPartyInvite *MemberThirdPartyInvite) (string, error)",
  "if thirdPartyInvite.Signed.Token == \"\" {",
  "return \"\", fmt.Errorf(\"missing 'third_party_invite.signed.token' JSON key\")",
  "}",
  "return thirdPartyInvite.Signed.Token, nil"
]

def eventauth_allowerContext_aliasEventAllowed : List String := [
  "func func(event PDU) error",
  "sender, err := a.userIDQuerier(a.roomID, event.SenderID())",
  "if err != nil {",
  "return err",
  "}",
  "if sender == nil {",
  "return errorf(\"userID not found for sender %q in room %q\", event.SenderID(), event.RoomID().String())",
  "}",
  "if event.RoomID().String() != a.create.roomID {",
  "return errorf(\"create event has different roomID: %q (%s) != %q (%s)\", event.RoomID().String(), event.EventID(), a.create.roomID, a.create.eventID)",
  "}",
  "if err := a.create.DomainAllowed(string(sender.Domain())); err != nil {",
  "return err",
  "}",
  "if event.StateKey() == nil {",
  "return errorf(\"alias event must be a state event\")",
  "}",
  "switch event.Version() {",
  "case RoomVersionPseudoIDs:",
  "if !event.StateKeyEquals(string(event.SenderID())) {",
  "return errorf(\"alias state_key does not match sender domain, %q != %q\", event.SenderID(), *event.StateKey())",
  "}",
  "default:",
  "if !event.StateKeyEquals(string(sender.Domain())) {",
  "return errorf(\"alias state_key does not match sender domain, %q != %q\", sender.Domain(), *event.StateKey())",
  "}",
  "}",
  "return nil"
]

def eventauth_allowerContext_allowed : List String := [
  "func func(event PDU) error",
  "if !a.provider.Valid() {",
  "return errorf(\"authEvents contains events from different rooms\")",
  "}",
  "switch event.Type() {",
  "case spec.MRoomCreate:",
  "return a.createEventAllowed(event)",
  "case spec.MRoomAliases:",
  "return a.aliasEventAllowed(event)",
  "}",
  "if a.powerLevelsErr != nil {",
  "return a.powerLevelsErr",
  "}",
  "switch event.Type() {",
  "case spec.MRoomMember:",
  "return a.memberEventAllowed(event)",
  "case spec.MRoomPowerLevels:",
  "return a.powerLevelsEventAllowed(event)",
  "case spec.MRoomRedaction:",
  "return a.redactEventAllowed(event)",
  "default:",
  "return a.defaultEventAllowed(event)",
  "}"
]

def eventauth_allowerContext_createEventAllowed : List String := [
  "func func(event PDU) error",
  "if !event.StateKeyEquals(\"\") {",
  "return errorf(\"create event state key is not empty: %v\", event.StateKey())",
  "}",
  "if len(event.PrevEventIDs()) > 0 {",
  "return errorf(\"create event must be the first event in the room: found %d prev_events\", len(event.PrevEventIDs()))",
  "}",
  "sender, err := a.userIDQuerier(a.roomID, event.SenderID())",
  "if err != nil {",
  "return err",
  "}",
  "if sender == nil {",
  "return errorf(\"userID not found for sender %q in room %q\", event.SenderID(), event.RoomID().String())",
  "}",
  "verImpl, err := GetRoomVersion(event.Version())",
  "if err != nil {",
  "return nil",
  "}",
  "if err = verImpl.CheckCreateEvent(event, *sender, KnownRoomVersion); err != nil {",
  "return err",
  "}",
  "return nil"
]

def eventauth_allowerContext_defaultEventAllowed : List String := [
  "func func(event PDU) error",
  "allower, err := a.newEventAllower(event.SenderID())",
  "if err != nil {",
  "return err",
  "}",
  "return allower.commonChecks(event)"
]

def eventauth_allowerContext_memberEventAllowed : List String := [
  "func func(event PDU) error",
  "allower, err := a.newMembershipAllower(a.provider, event)",
  "if err != nil {",
  "return err",
  "}",
  "return allower.membershipAllowed(event)"
]

def eventauth_allowerContext_newEventAllower : List String := [
  "func func(senderID spec.SenderID) (e eventAllower, err error)",
  "e.allowerContext = a",
  "if e.member, err = NewMemberContentFromAuthEvents(a.provider, senderID); err != nil {",
  "return",
  "}",
  "return"
]

def eventauth_allowerContext_newMembershipAllower : List String := [
  "func func(authEvents AuthEventProvider, event PDU) (m membershipAllower, err error)",
  "m.allowerContext = a",
  "m.joinRule = a.joinRule",
  "m.roomVersionImpl, err = GetRoomVersion(event.Version())",
  "if err != nil {",
  "return",
  "}",
  "stateKey := event.StateKey()",
  "if stateKey == nil {",
  "err = errorf(\"m.room.member must be a state event\")",
  "return",
  "}",
  "m.targetID = *stateKey",
  "m.senderID = string(event.SenderID())",
  "if m.newMember, err = NewMemberContentFromEvent(event); err != nil {",
  "return",
  "}",
  "if m.oldMember, err = NewMemberContentFromAuthEvents(authEvents, spec.SenderID(m.targetID)); err != nil {",
  "return",
  "}",
  "if m.senderMember, err = NewMemberContentFromAuthEvents(authEvents, spec.SenderID(m.senderID)); err != nil {",
  "return",
  "}",
  "if m.newMember.ThirdPartyInvite != nil && m.newMember.Membership == spec.Invite {",
  "var token string",
  "if token, err = thirdPartyInviteToken(m.newMember.ThirdPartyInvite); err != nil {",
  "err = errorf(\"could not get third-party token: %s\", err)",
  "return",
  "}",
  "if m.thirdPartyInvite, err = NewThirdPartyInviteContentFromAuthEvents(authEvents, token); err != nil {",
  "return",
  "}",
  "}",
  "return"
]

def eventauth_allowerContext_powerLevelsEventAllowed : List String := [
  "func func(event PDU) error",
  "allower, err := a.newEventAllower(event.SenderID())",
  "if err != nil {",
  "return err",
  "}",
  "if err = allower.commonChecks(event); err != nil {",
  "return err",
  "}",
  "newPowerLevels, err := NewPowerLevelContentFromEvent(event)",
  "if err != nil {",
  "return err",
  "}",
  "for senderID := range newPowerLevels.Users {",
  "sender, err := a.userIDQuerier(a.roomID, spec.SenderID(senderID))",
  "if err != nil {",
  "return err",
  "}",
  "if sender == nil || !isValidUserID(sender.String()) {",
  "return errorf(\"Not a valid user ID: %q\", senderID)",
  "}",
  "}",
  "oldPowerLevels := a.powerLevels",
  "senderLevel := a.userPowerLevel(event.SenderID())",
  "if err = checkEventLevels(senderLevel, oldPowerLevels, newPowerLevels); err != nil {",
  "return err",
  "}",
  "verImpl, err := GetRoomVersion(event.Version())",
  "if err != nil {",
  "return nil",
  "}",
  "if err = verImpl.CheckPowerLevelEvent(string(event.SenderID()), a.createEvent, oldPowerLevels, newPowerLevels); err != nil {",
  "return err",
  "}",
  "return checkUserLevels(senderLevel, event.SenderID(), oldPowerLevels, newPowerLevels)"
]

def eventauth_allowerContext_redactEventAllowed : List String := [
  "func func(event PDU) error",
  "allower, err := a.newEventAllower(event.SenderID())",
  "if err != nil {",
  "return err",
  "}",
  "if err = allower.commonChecks(event); err != nil {",
  "return err",
  "}",
  "roomVersion := allower.create.RoomVersion",
  "if roomVersion != nil && *roomVersion != \"1\" && *roomVersion != \"2\" {",
  "return nil",
  "}",
  "redactDomain, err := domainFromID(event.Redacts())",
  "if err != nil {",
  "return err",
  "}",
  "sender, err := a.userIDQuerier(a.roomID, event.SenderID())",
  "if err != nil {",
  "return err",
  "}",
  "if string(sender.Domain()) == redactDomain {",
  "return nil",
  "}",
  "senderLevel := allower.userPowerLevel(event.SenderID())",
  "redactLevel := allower.powerLevels.Redact",
  "if senderLevel >= redactLevel {",
  "return nil",
  "}",
  "return errorf(\"%q is not allowed to redact message from %q. %d < %d\", sender, redactDomain, senderLevel, redactLevel)"
]

def eventauth_allowerContext_resetCreate : List String := [
  "func func()",
  "a.create = CreateContent{}",
  "a.creators = nil",
  "a.privilegedCreators = false"
]

def eventauth_allowerContext_update : List String := [
  "func func(provider AuthEventProvider)",
  "if provider != a.provider {",
  "a.provider = provider",
  "a.createEvent, a.powerLevelsEvent, a.joinRuleEvent = nil, nil, nil",
  "a.resetCreate()",
  "a.powerLevels = PowerLevelContent{}",
  "a.powerLevelsErr = nil",
  "a.joinRule = JoinRuleContent{}",
  "}",
  "if e, _ := provider.Create(); a.createEvent == nil || a.createEvent != e {",
  "if c, err := NewCreateContentFromAuthEvents(provider, a.userIDQuerier); err == nil {",
  "a.createEvent = e",
  "a.create = c",
  "a.creators = CreatorsFromCreateEvent(e)",
  "verImpl := MustGetRoomVersion(e.Version())",
  "a.privilegedCreators = verImpl.PrivilegedCreators()",
  "} else {",
  "a.createEvent = nil",
  "a.resetCreate()",
  "}",
  "}",
  "if e, _ := provider.PowerLevels(); a.powerLevelsEvent == nil || a.powerLevelsEvent != e {",
  "creator := \"\"",
  "if a.createEvent != nil {",
  "creator = string(a.createEvent.SenderID())",
  "}",
  "if p, err := NewPowerLevelContentFromAuthEvents(provider, creator); err == nil {",
  "a.powerLevelsEvent = e",
  "a.powerLevels = p",
  "a.powerLevelsErr = nil",
  "} else {",
  "a.powerLevelsEvent = nil",
  "a.powerLevels = PowerLevelContent{}",
  "a.powerLevelsErr = err",
  "}",
  "}",
  "if e, _ := provider.JoinRules(); a.joinRuleEvent == nil || a.joinRuleEvent != e {",
  "if j, err := NewJoinRuleContentFromAuthEvents(provider); err == nil {",
  "a.joinRuleEvent, _ = provider.JoinRules()",
  "a.joinRule = j",
  "} else {",
  "a.joinRuleEvent = nil",
  "a.joinRule = JoinRuleContent{}",
  "}",
  "}"
]

def eventauth_allowerContext_userPowerLevel : List String := [
  "func func(userID spec.SenderID) int64",
  "if a.privilegedCreators {",
  "if slices.Contains(a.creators, string(userID)) {",
  "return CreatorPowerLevel",
  "}",
  "}",
  "if a.powerLevelsEvent == nil {",
  "if userID == a.createEvent.SenderID() {",
  "return CreatorPowerLevel - 1",
  "}",
  "return 0",
  "}",
  "return a.powerLevels.UserLevel(userID)"
]

def eventauth_eventAllower_commonChecks : List String := [
  "func func(event PDU) error",
  "if event.RoomID().String() != e.create.roomID {",
  "return errorf(\"create event has different roomID1: %q (%s) != %q (%s)\", event.RoomID().String(), event.EventID(), e.create.roomID, e.create.eventID)",
  "}",
  "stateKey := event.StateKey()",
  "userID, err := e.userIDQuerier(e.roomID, event.SenderID())",
  "if err != nil {",
  "return err",
  "}",
  "if userID == nil {",
  "return errorf(\"userID not found for sender %q in room %q\", event.SenderID(), event.RoomID().String())",
  "}",
  "if err := e.create.UserIDAllowed(*userID); err != nil {",
  "return err",
  "}",
  "if e.member.Membership != spec.Join {",
  "return errorf(\"sender %q not in room\", event.SenderID())",
  "}",
  "senderLevel := e.userPowerLevel(event.SenderID())",
  "eventLevel := e.powerLevels.EventLevel(event.Type(), stateKey != nil)",
  "if senderLevel < eventLevel {",
  "return errorf(\"sender %q is not allowed to send event. %d < %d\", event.SenderID(), senderLevel, eventLevel)",
  "}",
  "if event.Type() != spec.MRoomThirdPartyInvite && stateKey != nil && len(*stateKey) > 0 && (*stateKey)[0] == '@' {",
  "if spec.SenderID(*stateKey) != event.SenderID() {",
  "return errorf(\"sender %q is not allowed to modify the state belonging to %q\", event.SenderID(), *stateKey)",
  "}",
  "}",
  "return nil"
]

def eventauth_membershipAllower_membershipAllowed : List String := [
  "func func(event PDU) error",
  "if m.create.roomID != event.RoomID().String() {",
  "return errorf(\"create event has different roomID: %q (%s) != %q (%s)\", event.RoomID().String(), event.EventID(), m.create.roomID, m.create.eventID)",
  "}",
  "var sender *spec.UserID",
  "var err error",
  "if event.Type() == spec.MRoomMember {",
  "mapping := membershipContent{}",
  "if err := json.Unmarshal(exactMembersOnly(event.Content(), &mapping), &mapping); err != nil {",
  "return err",
  "}",
  "if mapping.MXIDMapping != nil && event.Version() == RoomVersionPseudoIDs {",
  "sender, err = spec.NewUserID(mapping.MXIDMapping.UserID, true)",
  "if err != nil {",
  "return err",
  "}",
  "}",
  "}",
  "if sender == nil {",
  "sender, err = m.userIDQuerier(m.roomID, spec.SenderID(m.senderID))",
  "if err != nil {",
  "return err",
  "}",
  "}",
  "if sender == nil {",
  "return errorf(\"userID not found for sender %q in room %q\", m.senderID, event.RoomID().String())",
  "}",
  "if err := m.create.UserIDAllowed(*sender); err != nil {",
  "return err",
  "}",
  "if m.targetID == string(m.createEvent.SenderID()) && m.newMember.Membership == spec.Join && m.senderID == m.targetID && len(event.PrevEventIDs()) == 1 {",
  "prevEventID := event.PrevEventIDs()[0]",
  "if prevEventID == m.create.eventID {",
  "return nil",
  "}",
  "}",
  "if m.newMember.Membership == spec.Invite && m.newMember.ThirdPartyInvite != nil {",
  "return m.membershipAllowedFromThirdPartyInvite()",
  "}",
  "if m.targetID == m.senderID {",
  "return m.membershipAllowedSelf()",
  "}",
  "return m.membershipAllowedOther()"
]

def eventauth_membershipAllower_membershipAllowedFromThirdPartyInvite : List String := [
  "func func() error",
  "if m.targetID != m.newMember.ThirdPartyInvite.Signed.MXID {",
  "return errorf(\"The invite target %s doesn't match with the Matrix ID provided by the identity server %s\", m.targetID, m.newMember.ThirdPartyInvite.Signed.MXID)",
  "}",
  "marshalledSigned, err := json.Marshal(m.newMember.ThirdPartyInvite.Signed)",
  "if err != nil {",
  "return err",
  "}",
  "for _, publicKey := range m.thirdPartyInvite.PublicKeys {",
  "for domain, signatures := range m.newMember.ThirdPartyInvite.Signed.Signatures {",
  "for keyID := range signatures {",
  "if strings.HasPrefix(keyID, \"ed25519\") {",
  "if err = VerifyJSON(domain, KeyID(keyID), ed25519.PublicKey(publicKey.PublicKey), marshalledSigned); err == nil {",
  "return nil",
  "}",
  "}",
  "}",
  "}",
  "}",
  "return errorf(\"Couldn't verify signature on third-party invite for %s\", m.targetID)"
]

def eventauth_membershipAllower_membershipAllowedOther : List String := [
  "func func() error",
  "senderLevel := m.userPowerLevel(spec.SenderID(m.senderID))",
  "targetLevel := m.userPowerLevel(spec.SenderID(m.targetID))",
  "if m.senderMember.Membership != spec.Join {",
  "return errorf(\"sender %q is not in the room\", m.senderID)",
  "}",
  "switch m.newMember.Membership {",
  "case spec.Ban:",
  "if senderLevel >= m.powerLevels.Ban && senderLevel > targetLevel {",
  "return nil",
  "}",
  "return m.membershipFailed(\"sender has insufficient power to ban (sender level %d, target level %d, ban level %d)\", senderLevel, targetLevel, m.powerLevels.Ban)",
  "case spec.Leave:",
  "if m.oldMember.Membership == spec.Ban {",
  "if senderLevel >= m.powerLevels.Ban {",
  "return nil",
  "}",
  "return m.membershipFailed(\"sender has insufficient power to unban (sender level %d, ban level %d)\", senderLevel, m.powerLevels.Ban)",
  "}",
  "if senderLevel >= m.powerLevels.Kick && senderLevel > targetLevel {",
  "return nil",
  "}",
  "return m.membershipFailed(\"sender has insufficient power to kick (sender level %d, target level %d, kick level %d)\", senderLevel, targetLevel, m.powerLevels.Kick)",
  "case spec.Invite:",
  "if senderLevel < m.powerLevels.Invite {",
  "return m.membershipFailed(\"sender has insufficient power to invite (sender level %d, invite level %d)\", senderLevel, m.powerLevels.Invite)",
  "}",
  "switch m.oldMember.Membership {",
  "case spec.Join, spec.Ban:",
  "return m.membershipFailed(\"target cannot be invited when their membership is %q\", m.oldMember.Membership)",
  "default:",
  "return nil",
  "}",
  "case spec.Knock, spec.Join:",
  "return m.membershipFailed(\"sender cannot set membership of another user to %q\", m.newMember.Membership)",
  "default:",
  "return m.membershipFailed(\"membership %q is unknown\", m.newMember.Membership)",
  "}"
]

def eventauth_membershipAllower_membershipAllowedSelf : List String := [
  "func func() error",
  "if m.oldMember.Membership == spec.Leave && m.newMember.Membership == spec.Leave {",
  "return nil",
  "}",
  "if m.oldMember.Membership == spec.Ban {",
  "return m.membershipFailed(\"sender cannot set their own membership to %q\", m.newMember.Membership)",
  "}",
  "switch m.newMember.Membership {",
  "case spec.Knock:",
  "return m.roomVersionImpl.CheckKnockingAllowed(string(m.roomVersionImpl.Version()), m.senderID, m.targetID, m.joinRule.JoinRule, m.oldMember.Membership)",
  "case spec.Join:",
  "if m.joinRule.JoinRule == spec.Restricted || m.joinRule.JoinRule == spec.KnockRestricted {",
  "if err := m.membershipAllowedSelfForRestrictedJoin(); err != nil {",
  "return err",
  "}",
  "if m.joinRule.JoinRule == spec.Public {",
  "return nil",
  "}",
  "}",
  "if m.oldMember.Membership == spec.Invite {",
  "return nil",
  "}",
  "if m.oldMember.Membership == spec.Join {",
  "return nil",
  "}",
  "if m.joinRule.JoinRule == spec.Public {",
  "return nil",
  "}",
  "return m.membershipFailed(\"join rule %q forbids it\", m.joinRule.JoinRule)",
  "case spec.Leave:",
  "switch m.oldMember.Membership {",
  "case spec.Join:",
  "return nil",
  "case spec.Invite:",
  "return nil",
  "case spec.Knock:",
  "return m.roomVersionImpl.CheckKnockingAllowed(string(m.roomVersionImpl.Version()), m.senderID, m.targetID, spec.Knock, m.oldMember.Membership)",
  "default:",
  "return m.membershipFailed(\"sender cannot leave from membership state %q\", m.oldMember.Membership)",
  "}",
  "case spec.Invite, spec.Ban:",
  "return m.membershipFailed(\"sender cannot set their own membership to %q\", m.newMember.Membership)",
  "default:",
  "return m.membershipFailed(\"membership %q is unknown\", m.newMember.Membership)",
  "}"
]

def eventauth_membershipAllower_membershipAllowedSelfForRestrictedJoin : List String := [
  "func func() error",
  "if err := m.roomVersionImpl.CheckRestrictedJoinsAllowed(); err != nil {",
  "return errorf(\"restricted joins are not supported in this room version\")",
  "}",
  "if m.oldMember.Membership == spec.Join || m.oldMember.Membership == spec.Invite || m.newMember.AuthorisedVia == \"\" {",
  "m.joinRule.JoinRule = spec.Invite",
  "return nil",
  "}",
  "switch m.roomVersionImpl.Version() {",
  "case RoomVersionPseudoIDs:",
  "default:",
  "if _, _, err := SplitID('@', m.newMember.AuthorisedVia); err != nil {",
  "return errorf(\"the 'join_authorised_via_users_server' contains an invalid value %q\", m.newMember.AuthorisedVia)",
  "}",
  "}",
  "otherMember, err := m.provider.Member(spec.SenderID(m.newMember.AuthorisedVia))",
  "if err != nil {",
  "return errorf(\"failed to find the membership event for 'join_authorised_via_users_server' user %q\", m.newMember.AuthorisedVia)",
  "}",
  "if otherMember == nil {",
  "return errorf(\"failed to find the membership event for 'join_authorised_via_users_server' user %q\", m.newMember.AuthorisedVia)",
  "}",
  "otherMembership, err := otherMember.Membership()",
  "if err != nil {",
  "return errorf(\"failed to find the membership status for 'join_authorised_via_users_server' user %q\", m.newMember.AuthorisedVia)",
  "}",
  "if otherMembership != spec.Join {",
  "return errorf(\"the nominated 'join_authorised_via_users_server' user %q is not joined to the room\", m.newMember.AuthorisedVia)",
  "}",
  "if pl := m.userPowerLevel(spec.SenderID(m.newMember.AuthorisedVia)); pl < m.powerLevels.Invite {",
  "return errorf(\"the nominated 'join_authorised_via_users_server' user %q does not have permission to invite (%d < %d)\", m.newMember.AuthorisedVia, pl, m.powerLevels.Invite)",
  "}",
  "m.joinRule.JoinRule = spec.Public",
  "return nil"
]

def eventauth_membershipAllower_membershipFailed : List String := [
  "func func(format string, args ...interface{}) error",
  "if m.senderID == m.targetID {",
  "return errorf(\"%q is not allowed to change their membership from %q to %q as \"+format, append([]interface{}{m.targetID, m.oldMember.Membership, m.newMember.Membership}, args...)...)",
  "}",
  "return errorf(\"%q is not allowed to change the membership of %q from %q to %q as \"+format, append([]interface{}{m.senderID, m.targetID, m.oldMember.Membership, m.newMember.Membership}, args...)...)"
]

def eventauth_type_AuthEventProvider : List String := [
  "type AuthEventProvider interface { Create() (PDU, error) JoinRules() (PDU, error) PowerLevels() (PDU, error) Member(stateKey spec.SenderID) (PDU, error) ThirdPartyInvite(stateKey string) (PDU, error) Valid() bool }"
]

def eventauth_type_AuthEvents : List String := [
  "type AuthEvents struct { events map[StateKeyTuple]PDU roomIDs map[string]struct{} }"
]

def eventauth_type_NotAllowed : List String := [
  "type NotAllowed struct{ Message string }"
]

def eventauth_type_StateNeeded : List String := [
  "type StateNeeded struct { Create bool JoinRules bool PowerLevels bool Member []string ThirdPartyInvite []string }"
]

def eventauth_type_allowerContext : List String := [
  "type allowerContext struct { provider AuthEventProvider userIDQuerier spec.UserIDForSender createEvent PDU powerLevelsEvent PDU joinRuleEvent PDU create CreateContent creators []string privilegedCreators bool powerLevels PowerLevelContent joinRule JoinRuleContent powerLevelsErr error roomID spec.RoomID }"
]

def eventauth_type_eventAllower : List String := [
  "type eventAllower struct { *allowerContext member MemberContent }"
]

def eventauth_type_membershipAllower : List String := [
  "type membershipAllower struct { *allowerContext roomVersionImpl IRoomVersion thirdPartyInvite ThirdPartyInviteContent targetID string senderID string senderMember MemberContent oldMember MemberContent newMember MemberContent joinRule JoinRuleContent }"
]

def eventauth_type_membershipContent : List String := [
  "type membershipContent struct { Membership string `json:\"membership\"` ThirdPartyInvite *MemberThirdPartyInvite `json:\"third_party_invite,omitempty\"` AuthorizedVia string `json:\"join_authorised_via_users_server,omitempty\"` MXIDMapping *MXIDMapping `json:\"mxid_mapping,omitempty\"` }"
]

def stateresolution__ResolveConflicts : List String := [
  "func func(version RoomVersion, events []PDU, authEvents []PDU, userIDForSender spec.UserIDForSender, isRejectedFn IsRejected) ([]PDU, error)",
  "type stateKeyTuple struct { Type string StateKey string }",
  "eventIDMap := map[string]struct{}{}",
  "eventMap := make(map[stateKeyTuple][]PDU)",
  "var conflicted, notConflicted, resolved []PDU",
  "for _, event := range events {",
  "if _, ok := eventIDMap[event.EventID()]; ok {",
  "continue",
  "}",
  "eventIDMap[event.EventID()] = struct{}{}",
  "if event.StateKey() == nil {",
  "continue",
  "}",
  "tuple := stateKeyTuple{event.Type(), *event.StateKey()}",
  "eventMap[tuple] = append(eventMap[tuple], event)",
  "}",
  "for _, list := range eventMap {",
  "if len(list) > 1 {",
  "conflicted = append(conflicted, list...)",
  "} else {",
  "notConflicted = append(notConflicted, list...)",
  "}",
  "}",
  "verImpl, err := GetRoomVersion(version)",
  "if err != nil {",
  "return nil, err",
  "}",
  "stateResAlgo := verImpl.StateResAlgorithm()",
  "switch stateResAlgo {",
  "case StateResV1:",
  "resolved = ResolveStateConflicts(conflicted, authEvents, userIDForSender)",
  "resolved = append(resolved, notConflicted...)",
  "case StateResV2:",
  "fallthrough",
  "case StateResV2_1:",
  "resolved = ResolveStateConflictsV2(conflicted, notConflicted, authEvents, userIDForSender, isRejectedFn)",
  "default:",
  "return nil, fmt.Errorf(\"unsupported state resolution algorithm %v\", stateResAlgo)",
  "}",
  "return resolved, nil"
]

def stateresolution__ResolveConflictsNew : List String := [
  "func func(version RoomVersion, stateSets [][]PDU, authEvents []PDU, userIDForSender spec.UserIDForSender, isRejectedFn IsRejected) ([]PDU, error)",
  "verImpl, err := GetRoomVersion(version)",
  "if err != nil {",
  "return nil, err",
  "}",
  "stateResAlgo := verImpl.StateResAlgorithm()",
  "var resolved []PDU",
  "switch stateResAlgo {",
  "case StateResV1:",
  "conflicted, notConflicted := splitConflictedUnconflicted(stateResAlgo, stateSets)",
  "resolved = ResolveStateConflicts(conflicted, authEvents, userIDForSender)",
  "resolved = append(resolved, notConflicted...)",
  "case StateResV2:",
  "fallthrough",
  "case StateResV2_1:",
  "resolved = ResolveStateConflictsV2New(stateResAlgo, stateSets, authEvents, userIDForSender, isRejectedFn)",
  "default:",
  "return nil, fmt.Errorf(\"unsupported state resolution algorithm %v\", stateResAlgo)",
  "}",
  "return resolved, nil"
]

def stateresolution__ResolveStateConflicts : List String := [
  "func func(conflicted []PDU, authEvents []PDU, userIDForSender spec.UserIDForSender) []PDU",
  "r := stateResolver{valid: true}",
  "r.resolvedThirdPartyInvites = map[string]PDU{}",
  "r.resolvedMembers = map[spec.SenderID]PDU{}",
  "r.addConflicted(conflicted)",
  "for i := range authEvents {",
  "r.addAuthEvent(authEvents[i])",
  "}",
  "r.resolveAndAddAuthBlocks([][]PDU{r.creates}, userIDForSender)",
  "r.resolveAndAddAuthBlocks([][]PDU{r.powerLevels}, userIDForSender)",
  "r.resolveAndAddAuthBlocks([][]PDU{r.joinRules}, userIDForSender)",
  "r.resolveAndAddAuthBlocks(r.thirdPartyInvites, userIDForSender)",
  "r.resolveAndAddAuthBlocks(r.members, userIDForSender)",
  "for _, block := range r.others {",
  "if event := r.resolveNormalBlock(block, userIDForSender); event != nil {",
  "r.result = append(r.result, event)",
  "}",
  "}",
  "return r.result"
]

def stateresolution__sortConflictedEventsByDepthAndSHA1 : List String := [
  "func func(events []PDU) []conflictedEvent",
  "block := make([]conflictedEvent, len(events))",
  "for i := range events {",
  "event := events[i]",
  "block[i] = conflictedEvent{depth: event.Depth(), eventIDSHA1: sha1.Sum([]byte(event.EventID())), event: event}",
  "}",
  "sort.Sort(conflictedEventSorter(block))",
  "return block"
]

def stateresolution__splitConflictedUnconflicted : List String := [
  "func func(algoVersion StateResAlgorithm, stateSets [][]PDU) (conflicted, notConflicted []PDU)",
  "type stateKeyTuple struct { Type string StateKey string }",
  "eventIDCountMap := map[string]int{}",
  "eventMap := make(map[stateKeyTuple][]PDU)",
  "for _, events := range stateSets {",
  "for _, event := range events {",
  "numSeen := eventIDCountMap[event.EventID()]",
  "eventIDCountMap[event.EventID()] += 1",
  "if numSeen > 0 {",
  "continue",
  "}",
  "if event.StateKey() == nil {",
  "continue",
  "}",
  "tuple := stateKeyTuple{event.Type(), *event.StateKey()}",
  "eventMap[tuple] = append(eventMap[tuple], event)",
  "}",
  "}",
  "for _, list := range eventMap {",
  "if len(list) > 1 {",
  "conflicted = append(conflicted, list...)",
  "} else {",
  "if algoVersion == StateResV1 {",
  "notConflicted = append(notConflicted, list...)",
  "continue",
  "}",
  "for _, event := range list {",
  "if numSeen := eventIDCountMap[event.EventID()]; numSeen == len(stateSets) {",
  "notConflicted = append(notConflicted, list...)",
  "} else {",
  "conflicted = append(conflicted, event)",
  "}",
  "}",
  "}",
  "}",
  "return"
]

def stateresolution_conflictedEventSorter_Len : List String := [
  "func func() int",
  "return len(s)"
]

def stateresolution_conflictedEventSorter_Swap : List String := [
  "func func(i, j int)",
  "s[i], s[j] = s[j], s[i]"
]

def stateresolution_stateResolver_Create : List String := [
  "func func() (PDU, error)",
  "return r.resolvedCreate, nil"
]

def stateresolution_stateResolver_JoinRules : List String := [
  "func func() (PDU, error)",
  "return r.resolvedJoinRules, nil"
]

def stateresolution_stateResolver_Member : List String := [
  "func func(key spec.SenderID) (PDU, error)",
  "return r.resolvedMembers[key], nil"
]

def stateresolution_stateResolver_PowerLevels : List String := [
  "func func() (PDU, error)",
  "return r.resolvedPowerLevels, nil"
]

def stateresolution_stateResolver_ThirdPartyInvite : List String := [
  "func func(key string) (PDU, error)",
  "return r.resolvedThirdPartyInvites[key], nil"
]

def stateresolution_stateResolver_Valid : List String := [
  "func func() bool",
  "return r.valid"
]

def stateresolution_stateResolver_addAuthEvent : List String := [
  "func func(event PDU)",
  "if event.StateKey() == nil {",
  "return",
  "}",
  "if event.RoomID().String() != \"\" && r.roomID == \"\" {",
  "r.roomID = event.RoomID().String()",
  "}",
  "if r.roomID != event.RoomID().String() {",
  "r.valid = false",
  "}",
  "switch event.Type() {",
  "case spec.MRoomCreate:",
  "if event.StateKeyEquals(\"\") {",
  "r.resolvedCreate = event",
  "}",
  "case spec.MRoomPowerLevels:",
  "if event.StateKeyEquals(\"\") {",
  "r.resolvedPowerLevels = event",
  "}",
  "case spec.MRoomJoinRules:",
  "if event.StateKeyEquals(\"\") {",
  "r.resolvedJoinRules = event",
  "}",
  "case spec.MRoomMember:",
  "r.resolvedMembers[spec.SenderID(*event.StateKey())] = event",
  "case spec.MRoomThirdPartyInvite:",
  "r.resolvedThirdPartyInvites[*event.StateKey()] = event",
  "}"
]

def stateresolution_stateResolver_addConflicted : List String := [
  "func func(events []PDU)",
  "type conflictKey struct { eventType string stateKey string }",
  "offsets := map[conflictKey]int{}",
  "for _, event := range events {",
  "key := conflictKey{event.Type(), *event.StateKey()}",
  "blockList := &r.others",
  "switch key.eventType {",
  "case spec.MRoomCreate:",
  "if key.stateKey == \"\" {",
  "r.creates = append(r.creates, event)",
  "continue",
  "}",
  "case spec.MRoomPowerLevels:",
  "if key.stateKey == \"\" {",
  "r.powerLevels = append(r.powerLevels, event)",
  "continue",
  "}",
  "case spec.MRoomJoinRules:",
  "if key.stateKey == \"\" {",
  "r.joinRules = append(r.joinRules, event)",
  "continue",
  "}",
  "case spec.MRoomMember:",
  "blockList = &r.members",
  "case spec.MRoomThirdPartyInvite:",
  "blockList = &r.thirdPartyInvites",
  "}",
  "offset, ok := offsets[key]",
  "if !ok {",
  "offset = len(*blockList)",
  "*blockList = append(*blockList, nil)",
  "offsets[key] = offset",
  "}",
  "block := &(*blockList)[offset]",
  "*block = append(*block, event)",
  "}"
]

def stateresolution_stateResolver_authEventAt : List String := [
  "func func(eventType, stateKey string) PDU",
  "switch eventType {",
  "case spec.MRoomCreate:",
  "if stateKey == \"\" {",
  "return r.resolvedCreate",
  "}",
  "case spec.MRoomPowerLevels:",
  "if stateKey == \"\" {",
  "return r.resolvedPowerLevels",
  "}",
  "case spec.MRoomJoinRules:",
  "if stateKey == \"\" {",
  "return r.resolvedJoinRules",
  "}",
  "case spec.MRoomMember:",
  "return r.resolvedMembers[spec.SenderID(stateKey)]",
  "case spec.MRoomThirdPartyInvite:",
  "return r.resolvedThirdPartyInvites[stateKey]",
  "}",
  "return nil"
]

def stateresolution_stateResolver_removeAuthEvent : List String := [
  "func func(eventType, stateKey string)",
  "switch eventType {",
  "case spec.MRoomCreate:",
  "if stateKey == \"\" {",
  "r.resolvedCreate = nil",
  "}",
  "case spec.MRoomPowerLevels:",
  "if stateKey == \"\" {",
  "r.resolvedPowerLevels = nil",
  "}",
  "case spec.MRoomJoinRules:",
  "if stateKey == \"\" {",
  "r.resolvedJoinRules = nil",
  "}",
  "case spec.MRoomMember:",
  "r.resolvedMembers[spec.SenderID(stateKey)] = nil",
  "case spec.MRoomThirdPartyInvite:",
  "r.resolvedThirdPartyInvites[stateKey] = nil",
  "}"
]

def stateresolution_stateResolver_resolveAndAddAuthBlocks : List String := [
  "func func(blocks [][]PDU, userIDForSender spec.UserIDForSender)",
  "start := len(r.result)",
  "for _, block := range blocks {",
  "if len(block) == 0 {",
  "continue",
  "}",
  "if event := r.resolveAuthBlock(block, userIDForSender); event != nil {",
  "r.result = append(r.result, event)",
  "}",
  "}",
  "for i := start; i < len(r.result); i++ {",
  "r.addAuthEvent(r.result[i])",
  "}"
]

def stateresolution_stateResolver_resolveAuthBlock : List String := [
  "func func(events []PDU, userIDForSender spec.UserIDForSender) PDU",
  "block := sortConflictedEventsByDepthAndSHA1(events)",
  "result := block[0].event",
  "previous := r.authEventAt(result.Type(), *result.StateKey())",
  "r.addAuthEvent(result)",
  "for i := 1; i < len(block); i++ {",
  "event := block[i].event",
  "if Allowed(event, r, userIDForSender) == nil {",
  "result = event",
  "r.addAuthEvent(result)",
  "} else {",
  "break",
  "}",
  "}",
  "r.removeAuthEvent(result.Type(), *result.StateKey())",
  "if previous != nil {",
  "r.addAuthEvent(previous)",
  "}",
  "return result"
]

def stateresolution_stateResolver_resolveNormalBlock : List String := [
  "func func(events []PDU, userIDForSender spec.UserIDForSender) PDU",
  "block := sortConflictedEventsByDepthAndSHA1(events)",
  "for i := len(block) - 1; i > 0; i-- {",
  "event := block[i].event",
  "if Allowed(event, r, userIDForSender) == nil {",
  "return event",
  "}",
  "}",
  "return block[0].event"
]

def stateresolution_type_conflictedEvent : List String := [
  "type conflictedEvent struct { depth int64 eventIDSHA1 [sha1.Size]byte event PDU }"
]

def stateresolution_type_conflictedEventSorter : List String := [
  "type conflictedEventSorter []conflictedEvent"
]

def stateresolution_type_stateResolver : List String := [
  "type stateResolver struct { creates []PDU powerLevels []PDU joinRules []PDU thirdPartyInvites [][]PDU members [][]PDU others [][]PDU resolvedCreate PDU resolvedPowerLevels PDU resolvedJoinRules PDU resolvedThirdPartyInvites map[string]PDU resolvedMembers map[spec.SenderID]PDU result []PDU roomID string valid bool }"
]

def stateresolutionv2__HeaderedReverseTopologicalOrdering : List String := [
  "func func(events []PDU, order TopologicalOrder) []PDU",
  "r := stateResolverV2{resolvedCreate: getCreateEvent(events)}",
  "input := make([]PDU, len(events))",
  "for i := range events {",
  "unwrapped := events[i]",
  "input[i] = unwrapped",
  "}",
  "result := make([]PDU, len(input))",
  "for i, e := range r.reverseTopologicalOrdering(input, order) {",
  "result[i] = e",
  "}",
  "return result"
]

def stateresolutionv2__ResolveStateConflictsV2 : List String := [
  "func func(conflicted, unconflicted, authEvents []PDU, userIDForSender spec.UserIDForSender, isRejectedFn IsRejected) []PDU",
  "var createEvent PDU",
  "for _, ev := range authEvents {",
  "if ev.Type() == spec.MRoomCreate && ev.StateKeyEquals(\"\") {",
  "createEvent = ev",
  "break",
  "}",
  "}",
  "if createEvent == nil {",
  "return nil",
  "}",
  "conflictedControlEvents := make([]PDU, 0, len(conflicted))",
  "conflictedOthers := make([]PDU, 0, len(conflicted))",
  "authProvider, _ := NewAuthEvents(nil)",
  "r := stateResolverV2{authEventMap: eventMapFromEvents(authEvents), authProvider: authProvider, conflictedEventMap: eventMapFromEvents(conflicted), powerLevelContents: make(map[string]*PowerLevelContent), powerLevelMainlinePos: make(map[string]int), resolvedThirdPartyInvites: make(map[string]PDU, len(conflicted)), resolvedMembers: make(map[spec.SenderID]PDU, len(conflicted)), resolvedOthers: make(map[StateKeyTuple]PDU, len(conflicted)), result: make([]PDU, 0, len(conflicted)+len(unconflicted)), isRejectedFn: isRejectedFn, isRejectedCache: make(map[string]bool)}",
  "var roomID *spec.RoomID",
  "if len(conflicted) > 0 {",
  "validRoomID := conflicted[0].RoomID()",
  "roomID = &validRoomID",
  "}",
  "if len(unconflicted) > 0 {",
  "validRoomID := unconflicted[0].RoomID()",
  "roomID = &validRoomID",
  "}",
  "if len(authEvents) > 0 {",
  "validRoomID := authEvents[0].RoomID()",
  "roomID = &validRoomID",
  "}",
  "if roomID == nil {",
  "return r.result",
  "}",
  "r.allower = newAllowerContext(r.authProvider, userIDForSender, *roomID)",
  "isUnconflicted := make(map[string]struct{}, len(unconflicted))",
  "for _, u := range unconflicted {",
  "isUnconflicted[u.EventID()] = struct{}{}",
  "}",
  "fullConflictedSet := append(conflicted, r.calculateAuthDifference()...)",
  "visited := make(map[string]struct{}, len(conflicted)+len(authEvents))",
  "var fullControlSet func(event PDU) []PDU",
  "fullControlSet = func(event PDU) []PDU { events := []PDU{event} for _, authEventID := range event.AuthEventIDs() { if _, ok := visited[authEventID]; ok { continue } visited[authEventID] = struct{}{} if event, ok := r.conflictedEventMap[authEventID]; ok { events = append(events, fullControlSet(event)...) } } return events }",
  "conflictedPulledIn := make(map[string]struct{}, len(conflicted)+len(authEvents))",
  "for _, p := range fullConflictedSet {",
  "if _, unconflicted := isUnconflicted[p.EventID()]; unconflicted {",
  "continue",
  "}",
  "if isControlEvent(p) {",
  "relatedEvents := fullControlSet(p)",
  "for _, event := range relatedEvents {",
  "conflictedPulledIn[event.EventID()] = struct{}{}",
  "}",
  "conflictedControlEvents = append(conflictedControlEvents, relatedEvents...)",
  "}",
  "}",
  "for _, p := range fullConflictedSet {",
  "eventID := p.EventID()",
  "if _, unconflicted := isUnconflicted[eventID]; unconflicted || isControlEvent(p) {",
  "continue",
  "}",
  "if _, ok := conflictedPulledIn[eventID]; !ok {",
  "conflictedOthers = append(conflictedOthers, p)",
  "}",
  "}",
  "r.applyEvents(unconflicted...)",
  "conflictedControlEvents = r.reverseTopologicalOrdering(conflictedControlEvents, TopologicalOrderByAuthEvents)",
  "r.authAndApplyEvents(conflictedControlEvents...)",
  "for pos, event := range r.createPowerLevelMainline() {",
  "r.powerLevelMainlinePos[event.EventID()] = pos",
  "}",
  "conflictedOthers = r.mainlineOrdering(conflictedOthers)",
  "r.authAndApplyEvents(conflictedOthers...)",
  "r.applyEvents(unconflicted...)",
  "if r.resolvedCreate != nil {",
  "r.result = append(r.result, r.resolvedCreate)",
  "}",
  "if r.resolvedJoinRules != nil {",
  "r.result = append(r.result, r.resolvedJoinRules)",
  "}",
  "if r.resolvedPowerLevels != nil {",
  "r.result = append(r.result, r.resolvedPowerLevels)",
  "}",
  "for _, member := range r.resolvedMembers {",
  "r.result = append(r.result, member)",
  "}",
  "for _, invite := range r.resolvedThirdPartyInvites {",
  "r.result = append(r.result, invite)",
  "}",
  "for _, other := range r.resolvedOthers {",
  "r.result = append(r.result, other)",
  "}",
  "return r.result"
]

def stateresolutionv2__ResolveStateConflictsV2New : List String := [
  "func func(stateResAlgo StateResAlgorithm, stateSets [][]PDU, authEvents []PDU, userIDForSender spec.UserIDForSender, isRejectedFn IsRejected) []PDU",
  "if len(stateSets) < 2 {",
  "panic(\"must provide at least 2 stateSets to resolve conflicts\")",
  "}",
  "conflicted, unconflicted := splitConflictedUnconflicted(stateResAlgo, stateSets)",
  "conflictedControlEvents := make([]PDU, 0, len(conflicted))",
  "conflictedOthers := make([]PDU, 0, len(conflicted))",
  "authProvider, _ := NewAuthEvents(nil)",
  "r := stateResolverV2{authEventMap: eventMapFromEvents(authEvents), authProvider: authProvider, conflictedEventMap: eventMapFromEvents(conflicted), powerLevelContents: make(map[string]*PowerLevelContent), powerLevelMainlinePos: make(map[string]int), resolvedThirdPartyInvites: make(map[string]PDU, len(conflicted)), resolvedMembers: make(map[spec.SenderID]PDU, len(conflicted)), resolvedOthers: make(map[StateKeyTuple]PDU, len(conflicted)), result: make([]PDU, 0, len(conflicted)+len(unconflicted)), isRejectedFn: isRejectedFn, isRejectedCache: make(map[string]bool)}",
  "var roomID *spec.RoomID",
  "if len(conflicted) > 0 {",
  "validRoomID := conflicted[0].RoomID()",
  "roomID = &validRoomID",
  "}",
  "if len(unconflicted) > 0 {",
  "validRoomID := unconflicted[0].RoomID()",
  "roomID = &validRoomID",
  "}",
  "if len(authEvents) > 0 {",
  "validRoomID := authEvents[0].RoomID()",
  "roomID = &validRoomID",
  "}",
  "if roomID == nil {",
  "return r.result",
  "}",
  "r.allower = newAllowerContext(r.authProvider, userIDForSender, *roomID)",
  "if r.createEvent = getCreateEvent(unconflicted); r.createEvent == nil {",
  "if r.createEvent = getCreateEvent(authEvents); r.createEvent == nil {",
  "r.createEvent = getCreateEvent(conflicted)",
  "}",
  "}",
  "unconflictedSet := newPDUSet(unconflicted)",
  "fullConflictedSet := append(conflicted, r.calculateAuthDifferenceNew(stateResAlgo, newPDUSet(conflicted), stateSets)...)",
  "visited := make(map[string]struct{}, len(conflicted)+len(authEvents))",
  "var fullControlSet func(event PDU) []PDU",
  "fullControlSet = func(event PDU) []PDU { events := []PDU{event} for _, authEventID := range event.AuthEventIDs() { if _, ok := visited[authEventID]; ok { continue } visited[authEventID] = struct{}{} if event, ok := r.conflictedEventMap[authEventID]; ok { events = append(events, fullControlSet(event)...) } } return events }",
  "conflictedPulledIn := make(map[string]struct{}, len(conflicted)+len(authEvents))",
  "for _, p := range fullConflictedSet {",
  "if unconflictedSet.Contains(p) {",
  "continue",
  "}",
  "if isControlEvent(p) {",
  "relatedEvents := fullControlSet(p)",
  "for _, event := range relatedEvents {",
  "conflictedPulledIn[event.EventID()] = struct{}{}",
  "}",
  "conflictedControlEvents = append(conflictedControlEvents, relatedEvents...)",
  "}",
  "}",
  "for _, p := range fullConflictedSet {",
  "if unconflictedSet.Contains(p) || isControlEvent(p) {",
  "continue",
  "}",
  "if _, ok := conflictedPulledIn[p.EventID()]; !ok {",
  "conflictedOthers = append(conflictedOthers, p)",
  "}",
  "}",
  "if stateResAlgo == StateResV2 {",
  "unconflicted = r.reverseTopologicalOrdering(unconflicted, TopologicalOrderByAuthEvents)",
  "r.applyEvents(unconflicted...)",
  "}",
  "conflictedControlEvents = r.reverseTopologicalOrdering(conflictedControlEvents, TopologicalOrderByAuthEvents)",
  "r.authAndApplyEvents(conflictedControlEvents...)",
  "for pos, event := range r.createPowerLevelMainline() {",
  "r.powerLevelMainlinePos[event.EventID()] = pos",
  "}",
  "conflictedOthers = r.mainlineOrdering(conflictedOthers)",
  "r.authAndApplyEvents(conflictedOthers...)",
  "r.applyEvents(unconflicted...)",
  "if r.resolvedCreate != nil {",
  "r.result = append(r.result, r.resolvedCreate)",
  "}",
  "if r.resolvedJoinRules != nil {",
  "r.result = append(r.result, r.resolvedJoinRules)",
  "}",
  "if r.resolvedPowerLevels != nil {",
  "r.result = append(r.result, r.resolvedPowerLevels)",
  "}",
  "for _, member := range r.resolvedMembers {",
  "r.result = append(r.result, member)",
  "}",
  "for _, invite := range r.resolvedThirdPartyInvites {",
  "r.result = append(r.result, invite)",
  "}",
  "for _, other := range r.resolvedOthers {",
  "r.result = append(r.result, other)",
  "}",
  "return r.result"
]

def stateresolutionv2__ReverseTopologicalOrdering : List String := [
  "func func(input []PDU, order TopologicalOrder) []PDU",
  "r := stateResolverV2{resolvedCreate: getCreateEvent(input)}",
  "return r.reverseTopologicalOrdering(input, order)"
]

def stateresolutionv2__creatorsFromCreateEventOrNone : List String := [
  "func func(createEvent PDU) []string",
  "creators := []string{string(createEvent.SenderID())}",
  "var content CreateContent",
  "if err := json.Unmarshal(exactMembersOnly(createEvent.Content(), &content), &content); err != nil {",
  "return creators",
  "}",
  "return append(creators, content.AdditionalCreators...)"
]

def stateresolutionv2__eventMapFromEvents : List String := [
  "func func(events []PDU) map[string]PDU",
  "r := make(map[string]PDU, len(events))",
  "for _, e := range events {",
  "if _, ok := r[e.EventID()]; !ok {",
  "r[e.EventID()] = e",
  "}",
  "}",
  "return r"
]

def stateresolutionv2__getCreateEvent : List String := [
  "func func(input []PDU) PDU",
  "for _, ev := range input {",
  "if ev.Type() == spec.MRoomCreate && ev.StateKeyEquals(\"\") {",
  "return ev",
  "}",
  "}",
  "return nil"
]

def stateresolutionv2__isControlEvent : List String := [
  "func func(e PDU) bool",
  "switch e.Type() {",
  "case spec.MRoomPowerLevels:",
  "return e.StateKeyEquals(\"\")",
  "case spec.MRoomJoinRules:",
  "return e.StateKeyEquals(\"\")",
  "case spec.MRoomMember:",
  "if e.StateKey() == nil || e.StateKeyEquals(\"\") {",
  "break",
  "}",
  "if e.StateKeyEquals(string(e.SenderID())) {",
  "break",
  "}",
  "var content MemberContent",
  "if err := json.Unmarshal(exactMembersOnly(e.Content(), &content), &content); err != nil {",
  "break",
  "}",
  "if content.Membership == spec.Leave || content.Membership == spec.Ban {",
  "return true",
  "}",
  "default:",
  "}",
  "return false"
]

def stateresolutionv2__kahnsAlgorithmUsingAuthEvents : List String := [
  "func func(events []*stateResV2ConflictedPowerLevel) []*stateResV2ConflictedPowerLevel",
  "eventMap := make(map[string]*stateResV2ConflictedPowerLevel, len(events))",
  "graph := make([]*stateResV2ConflictedPowerLevel, 0, len(events))",
  "inDegree := make(map[string]int, len(events))",
  "for _, event := range events {",
  "if _, seen := eventMap[event.eventID]; seen {",
  "continue",
  "}",
  "eventMap[event.eventID] = event",
  "if _, ok := inDegree[event.eventID]; !ok {",
  "inDegree[event.eventID] = 0",
  "}",
  "for _, auth := range event.event.AuthEventIDs() {",
  "inDegree[auth]++",
  "}",
  "}",
  "noIncoming := make(stateResV2ConflictedPowerLevelHeap, 0, len(events))",
  "for eventID, count := range inDegree {",
  "if count == 0 {",
  "noIncoming.Push(eventMap[eventID])",
  "delete(eventMap, eventID)",
  "}",
  "}",
  "slices.SortStableFunc(noIncoming, sortStateResV2ConflictedPowerLevelHeap)",
  "for ; len(noIncoming) > 0;  {",
  "event := noIncoming.Pop()",
  "graph = append(graph, nil)",
  "copy(graph[1:], graph)",
  "graph[0] = event",
  "for _, auth := range event.event.AuthEventIDs() {",
  "inDegree[auth]--",
  "if inDegree[auth] == 0 {",
  "if _, ok := eventMap[auth]; ok {",
  "noIncoming.Push(eventMap[auth])",
  "delete(eventMap, auth)",
  "}",
  "}",
  "}",
  "slices.SortStableFunc(noIncoming, sortStateResV2ConflictedPowerLevelHeap)",
  "}",
  "if len(eventMap) > 0 {",
  "remaining := make(stateResV2ConflictedPowerLevelHeap, 0, len(events))",
  "for _, event := range eventMap {",
  "remaining.Push(event)",
  "}",
  "slices.SortStableFunc(remaining, sortStateResV2ConflictedPowerLevelHeap)",
  "graph = append(remaining, graph...)",
  "}",
  "return graph"
]

def stateresolutionv2__kahnsAlgorithmUsingPrevEvents : List String := [
  "func func(events []*stateResV2ConflictedOther) []*stateResV2ConflictedOther",
  "eventMap := make(map[string]*stateResV2ConflictedOther, len(events))",
  "graph := make([]*stateResV2ConflictedOther, 0, len(events))",
  "inDegree := make(map[string]int, len(events))",
  "for _, event := range events {",
  "if _, seen := eventMap[event.eventID]; seen {",
  "continue",
  "}",
  "eventMap[event.eventID] = event",
  "if _, ok := inDegree[event.eventID]; !ok {",
  "inDegree[event.eventID] = 0",
  "}",
  "for _, prev := range event.event.PrevEventIDs() {",
  "inDegree[prev]++",
  "}",
  "}",
  "noIncoming := make(stateResV2ConflictedOtherHeap, 0, len(events))",
  "for eventID, count := range inDegree {",
  "if count == 0 {",
  "noIncoming.Push(eventMap[eventID])",
  "delete(eventMap, eventID)",
  "}",
  "}",
  "slices.SortStableFunc(noIncoming, sortStateResV2ConflictedOtherHeap)",
  "for ; len(noIncoming) > 0;  {",
  "event := noIncoming.Pop()",
  "graph = append(graph, nil)",
  "copy(graph[1:], graph)",
  "graph[0] = event",
  "for _, prev := range event.event.PrevEventIDs() {",
  "inDegree[prev]--",
  "if inDegree[prev] == 0 {",
  "if _, ok := eventMap[prev]; ok {",
  "noIncoming.Push(eventMap[prev])",
  "delete(eventMap, prev)",
  "}",
  "}",
  "}",
  "slices.SortStableFunc(noIncoming, sortStateResV2ConflictedOtherHeap)",
  "}",
  "if len(eventMap) > 0 {",
  "remaining := make(stateResV2ConflictedOtherHeap, 0, len(events))",
  "for _, event := range eventMap {",
  "remaining = append(remaining, event)",
  "}",
  "slices.SortStableFunc(remaining, sortStateResV2ConflictedOtherHeap)",
  "graph = append(remaining, graph...)",
  "}",
  "return graph"
]

def stateresolutionv2__newPDUSet : List String := [
  "func func(pdus []PDU) *sets.HashSet[PDU, string]",
  "s := sets.NewHashSetFunc[PDU, string](len(pdus), func(p PDU) string { return p.EventID() })",
  "s.InsertSlice(pdus)",
  "return s"
]

def stateresolutionv2_stateResolverV2_applyEvents : List String := [
  "func func(events ...PDU)",
  "for _, event := range events {",
  "if st, sk := event.Type(), event.StateKey(); sk == nil {",
  "continue",
  "} else if *sk == \"\" {",
  "switch st {",
  "case spec.MRoomCreate:",
  "r.resolvedCreate = event",
  "case spec.MRoomPowerLevels:",
  "r.resolvedPowerLevels = event",
  "case spec.MRoomJoinRules:",
  "r.resolvedJoinRules = event",
  "default:",
  "r.resolvedOthers[StateKeyTuple{st, *sk}] = event",
  "}",
  "} else {",
  "switch st {",
  "case spec.MRoomThirdPartyInvite:",
  "r.resolvedThirdPartyInvites[*sk] = event",
  "case spec.MRoomMember:",
  "r.resolvedMembers[spec.SenderID(*sk)] = event",
  "default:",
  "r.resolvedOthers[StateKeyTuple{st, *sk}] = event",
  "}",
  "}",
  "}"
]

def stateresolutionv2_stateResolverV2_authAndApplyEvents : List String := [
  "func func(events ...PDU)",
  "addFromAuthEventsIfNotRejected := func(event PDU, eventType, stateKey string) { for _, authEventID := range event.AuthEventIDs() { rejected, ok := r.isRejectedCache[authEventID] if !ok { rejected = r.isRejectedFn(authEventID) r.isRejectedCache[authEventID] = rejected } if rejected { continue } authEv, ok := r.authEventMap[authEventID] if !ok { continue } if authEv.Type() != eventType || !authEv.StateKeyEquals(stateKey) { continue } _ = r.authProvider.AddEvent(authEv) } }",
  "for _, event := range events {",
  "r.authProvider.Clear()",
  "needed := StateNeededForAuth([]PDU{event})",
  "if resolved := r.resolvedCreate; needed.Create {",
  "if resolved != nil {",
  "_ = r.authProvider.AddEvent(resolved)",
  "} else {",
  "addFromAuthEventsIfNotRejected(event, spec.MRoomCreate, \"\")",
  "}",
  "}",
  "if resolved := r.resolvedJoinRules; needed.JoinRules {",
  "if resolved != nil {",
  "_ = r.authProvider.AddEvent(resolved)",
  "} else {",
  "addFromAuthEventsIfNotRejected(event, spec.MRoomJoinRules, \"\")",
  "}",
  "}",
  "if resolved := r.resolvedPowerLevels; needed.PowerLevels {",
  "if resolved != nil {",
  "_ = r.authProvider.AddEvent(resolved)",
  "} else {",
  "addFromAuthEventsIfNotRejected(event, spec.MRoomPowerLevels, \"\")",
  "}",
  "}",
  "for _, needed := range needed.Member {",
  "if resolved := r.resolvedMembers[spec.SenderID(needed)]; resolved != nil {",
  "_ = r.authProvider.AddEvent(resolved)",
  "} else {",
  "addFromAuthEventsIfNotRejected(event, spec.MRoomMember, needed)",
  "}",
  "}",
  "for _, needed := range needed.ThirdPartyInvite {",
  "if resolved := r.resolvedThirdPartyInvites[needed]; resolved != nil {",
  "_ = r.authProvider.AddEvent(resolved)",
  "} else {",
  "addFromAuthEventsIfNotRejected(event, spec.MRoomThirdPartyInvite, needed)",
  "}",
  "}",
  "r.allower.update(r.authProvider)",
  "if err := r.allower.allowed(event); err != nil {",
  "continue",
  "}",
  "r.applyEvents(event)",
  "}"
]

def stateresolutionv2_stateResolverV2_calculateAuthDifference : List String := [
  "func func() []PDU",
  "authDifference := make([]PDU, 0, len(r.conflictedEventMap)*3)",
  "authSets := make(map[string]map[string]PDU, len(r.conflictedEventMap))",
  "isInAuthList := func(k string, event PDU) bool { events, ok := authSets[k] if !ok { return false } _, ok = events[event.EventID()] return ok }",
  "isInAllAuthLists := func(event PDU) bool { for k, event := range authSets[event.EventID()] { if !isInAuthList(k, event) { return false } } return true }",
  "var iter func(eventID string, event PDU)",
  "iter = func(eventID string, event PDU) { for _, authEventID := range event.AuthEventIDs() { authEvent, ok := r.authEventMap[authEventID] if !ok { continue } if _, ok := authSets[eventID]; !ok { authSets[eventID] = map[string]PDU{} } if _, ok := authSets[eventID][authEventID]; ok { continue } authSets[eventID][authEventID] = authEvent iter(eventID, authEvent) } }",
  "for conflictedEventID, conflictedEvent := range r.conflictedEventMap {",
  "iter(conflictedEventID, conflictedEvent)",
  "}",
  "for _, event := range r.authEventMap {",
  "if !isInAllAuthLists(event) {",
  "authDifference = append(authDifference, event)",
  "}",
  "}",
  "return authDifference"
]

def stateresolutionv2_stateResolverV2_calculateAuthDifferenceNew : List String := [
  "func func(stateResAlgo StateResAlgorithm, conflictedEvents *sets.HashSet[PDU, string], stateSets [][]PDU) []PDU",
  "fullAuthChains := make([]*sets.HashSet[PDU, string], len(stateSets))",
  "completeConflictedSubgraph := newPDUSet(nil)",
  "for i, stateEvents := range stateSets {",
  "fullAuthChain, conflictedSubgraph := r.calculateFullAuthChainAndConflictedSubgraph(stateResAlgo, stateEvents, conflictedEvents)",
  "fullAuthChains[i] = fullAuthChain",
  "if stateResAlgo == StateResV2_1 {",
  "completeConflictedSubgraph.InsertSet(conflictedSubgraph)",
  "}",
  "}",
  "union := newPDUSet(nil)",
  "for _, fac := range fullAuthChains {",
  "union.InsertSet(fac)",
  "}",
  "var intersection sets.Collection[PDU] = fullAuthChains[0]",
  "for _, fac := range fullAuthChains[1:] {",
  "intersection = intersection.Intersect(fac)",
  "}",
  "authDifference := union.Difference(intersection)",
  "if stateResAlgo == StateResV2 {",
  "return authDifference.Slice()",
  "}",
  "return authDifference.Union(completeConflictedSubgraph).Slice()"
]

def stateresolutionv2_stateResolverV2_calculateFullAuthChainAndConflictedSubgraph : List String := [
  "func func(stateResAlgo StateResAlgorithm, stateSet []PDU, conflictedEvents *sets.HashSet[PDU, string]) (fullAuthChains, conflictedSubgraph *sets.HashSet[PDU, string])",
  "fullAuthChains = newPDUSet(nil)",
  "conflictedSubgraph = newPDUSet(nil)",
  "type pduVisitors struct { pdu PDU visiting [ // the current exploration path ]PDU originConflicted bool }// flag to indicate that the starting node is conflicted. // We are only interested in doing the book-keeping for 'visiting' for conflicted events.",
  "initial := make([]pduVisitors, len(stateSet))",
  "for i, p := range stateSet {",
  "initial[i] = pduVisitors{pdu: p, visiting: nil, originConflicted: conflictedEvents.Contains(p)}",
  "}",
  "stack := lane.NewStack(initial...)",
  "for ; stack.Size() > 0;  {",
  "curr, ok := stack.Pop()",
  "if !ok {",
  "break",
  "}",
  "shouldCalculateConflictedSubgraph := stateResAlgo == StateResV2_1 && curr.originConflicted",
  "if shouldCalculateConflictedSubgraph && conflictedEvents.Contains(curr.pdu) {",
  "for _, pathEvent := range curr.visiting {",
  "conflictedSubgraph.Insert(pathEvent)",
  "}",
  "conflictedSubgraph.Insert(curr.pdu)",
  "}",
  "for _, authEventID := range curr.pdu.AuthEventIDs() {",
  "authEvent, ok := r.authEventMap[authEventID]",
  "if !ok {",
  "continue",
  "}",
  "if fullAuthChains.Contains(authEvent) {",
  "if !shouldCalculateConflictedSubgraph {",
  "continue",
  "}",
  "}",
  "fullAuthChains.Insert(authEvent)",
  "if !shouldCalculateConflictedSubgraph {",
  "stack.Push(pduVisitors{pdu: authEvent, visiting: nil})",
  "continue",
  "}",
  "newVisiting := append(slices.Clone(curr.visiting), curr.pdu)",
  "stack.Push(pduVisitors{pdu: authEvent, visiting: newVisiting, originConflicted: curr.originConflicted})",
  "}",
  "}",
  "return fullAuthChains, conflictedSubgraph"
]

def stateresolutionv2_stateResolverV2_createPowerLevelMainline : List String := [
  "func func() []PDU",
  "var mainline []PDU",
  "visiting := make(map[string]struct{})",
  "var iter func(event PDU)",
  "iter = func(event PDU) { mainline = append(mainline, nil) copy(mainline[1:], mainline) mainline[0] = event for _, authEventID := range event.AuthEventIDs() { if authEvent, ok := r.authEventMap[authEventID]; ok { if authEvent.Type() == spec.MRoomPowerLevels && authEvent.StateKeyEquals(\"\") { if _, cyclic := visiting[authEventID]; cyclic { continue } visiting[authEventID] = struct{}{} iter(authEvent) delete(visiting, authEventID) } } } }",
  "if r.resolvedPowerLevels != nil {",
  "iter(r.resolvedPowerLevels)",
  "}",
  "return mainline"
]

def stateresolutionv2_stateResolverV2_getFirstPowerLevelMainlineEvent : List String := [
  "func func(event PDU) (mainlineEvent PDU, mainlinePosition int, steps int)",
  "isInMainline := func(searchEvent PDU) (int, bool) { pos, ok := r.powerLevelMainlinePos[searchEvent.EventID()] return pos, ok }",
  "visiting := make(map[string]struct{})",
  "var iter func(event PDU)",
  "iter = func(event PDU) { for _, authEventID := range event.AuthEventIDs() { authEvent, ok := r.authEventMap[authEventID] if !ok { continue } if authEvent.Type() != spec.MRoomPowerLevels || !authEvent.StateKeyEquals(\"\") { continue } if pos, isIn := isInMainline(authEvent); isIn { mainlineEvent = authEvent mainlinePosition = pos r.powerLevelMainlinePos[mainlineEvent.EventID()] = mainlinePosition return } if _, cyclic := visiting[authEventID]; cyclic { continue } steps++ visiting[authEventID] = struct{}{} iter(authEvent) delete(visiting, authEventID) } }",
  "iter(event)",
  "return"
]

def stateresolutionv2_stateResolverV2_getPowerLevelFromAuthEvents : List String := [
  "func func(event PDU) int64",
  "user := event.SenderID()",
  "verImpl := MustGetRoomVersion(event.Version())",
  "if verImpl.PrivilegedCreators() {",
  "createEvent := r.resolvedCreate",
  "if createEvent == nil {",
  "createEvent = r.createEvent",
  "}",
  "if createEvent != nil {",
  "for _, creator := range creatorsFromCreateEventOrNone(createEvent) {",
  "if creator == string(user) {",
  "return CreatorPowerLevel",
  "}",
  "}",
  "}",
  "}",
  "for _, authID := range event.AuthEventIDs() {",
  "authEvent, ok := r.authEventMap[authID]",
  "if !ok {",
  "continue",
  "}",
  "if authEvent.Type() != spec.MRoomPowerLevels || !authEvent.StateKeyEquals(\"\") {",
  "continue",
  "}",
  "content, ok := r.powerLevelContents[authID]",
  "if !ok {",
  "parsed, err := NewPowerLevelContentFromEvent(authEvent)",
  "if err != nil {",
  "return 0",
  "}",
  "content = &parsed",
  "r.powerLevelContents[authID] = content",
  "}",
  "return content.UserLevel(user)",
  "}",
  "return 0"
]

def stateresolutionv2_stateResolverV2_mainlineOrdering : List String := [
  "func func(events []PDU) []PDU",
  "block := r.wrapOtherEventsForSort(events)",
  "result := make([]PDU, 0, len(block))",
  "slices.SortStableFunc(block, sortStateResV2ConflictedOtherHeap)",
  "for _, s := range block {",
  "result = append(result, s.event)",
  "}",
  "return result"
]

def stateresolutionv2_stateResolverV2_reverseTopologicalOrdering : List String := [
  "func func(events []PDU, order TopologicalOrder) []PDU",
  "result := make([]PDU, 0, len(events))",
  "switch order {",
  "case TopologicalOrderByAuthEvents:",
  "block := r.wrapPowerLevelEventsForSort(events)",
  "for _, s := range kahnsAlgorithmUsingAuthEvents(block) {",
  "result = append(result, s.event)",
  "}",
  "case TopologicalOrderByPrevEvents:",
  "block := r.wrapOtherEventsForSort(events)",
  "for _, s := range kahnsAlgorithmUsingPrevEvents(block) {",
  "result = append(result, s.event)",
  "}",
  "default:",
  "panic(fmt.Sprintf(\"gomatrixserverlib.reverseTopologicalOrdering unknown Ordering %d\", order))",
  "}",
  "return result"
]

def stateresolutionv2_stateResolverV2_wrapOtherEventsForSort : List String := [
  "func func(events []PDU) []*stateResV2ConflictedOther",
  "block := make([]*stateResV2ConflictedOther, len(events))",
  "for i, event := range events {",
  "_, pos, steps := r.getFirstPowerLevelMainlineEvent(event)",
  "block[i] = &stateResV2ConflictedOther{mainlinePosition: pos, mainlineSteps: steps, originServerTS: event.OriginServerTS(), eventID: event.EventID(), event: event}",
  "}",
  "return block"
]

def stateresolutionv2_stateResolverV2_wrapPowerLevelEventsForSort : List String := [
  "func func(events []PDU) []*stateResV2ConflictedPowerLevel",
  "block := make([]*stateResV2ConflictedPowerLevel, len(events))",
  "for i, event := range events {",
  "block[i] = &stateResV2ConflictedPowerLevel{powerLevel: r.getPowerLevelFromAuthEvents(event), originServerTS: event.OriginServerTS(), eventID: event.EventID(), event: event}",
  "}",
  "return block"
]

def stateresolutionv2_type_IsRejected : List String := [
  "type IsRejected func(eventID string) bool"
]

def stateresolutionv2_type_TopologicalOrder : List String := [
  "type TopologicalOrder int"
]

def stateresolutionv2_type_stateResolverV2 : List String := [
  "type stateResolverV2 struct { allower *allowerContext authProvider *AuthEvents authEventMap map[string]PDU conflictedEventMap map[string]PDU powerLevelContents map[string]*PowerLevelContent powerLevelMainlinePos map[string]int resolvedCreate PDU createEvent PDU resolvedPowerLevels PDU resolvedJoinRules PDU resolvedThirdPartyInvites map[string]PDU resolvedMembers map[spec.SenderID]PDU resolvedOthers map[StateKeyTuple]PDU result []PDU isRejectedFn IsRejected isRejectedCache map[string]bool }"
]

def stateresolutionv2heaps_stateResV2ConflictedOtherHeap_Pop : List String := [
  "func func() *stateResV2ConflictedOther",
  "old := *s",
  "n := len(old)",
  "x := old[n-1]",
  "*s = old[:n-1]",
  "return x"
]

def stateresolutionv2heaps_stateResV2ConflictedOtherHeap_Push : List String := [
  "func func(x *stateResV2ConflictedOther)",
  "*s = append(*s, x)"
]

def stateresolutionv2heaps_stateResV2ConflictedPowerLevelHeap_Pop : List String := [
  "func func() *stateResV2ConflictedPowerLevel",
  "old := *s",
  "n := len(old)",
  "x := old[n-1]",
  "*s = old[:n-1]",
  "return x"
]

def stateresolutionv2heaps_stateResV2ConflictedPowerLevelHeap_Push : List String := [
  "func func(x *stateResV2ConflictedPowerLevel)",
  "*s = append(*s, x)"
]

def stateresolutionv2heaps_type_stateResV2ConflictedOther : List String := [
  "type stateResV2ConflictedOther struct { mainlinePosition int mainlineSteps int originServerTS spec.Timestamp eventID string event PDU }"
]

def stateresolutionv2heaps_type_stateResV2ConflictedOtherHeap : List String := [
  "type stateResV2ConflictedOtherHeap []*stateResV2ConflictedOther"
]

def stateresolutionv2heaps_type_stateResV2ConflictedPowerLevel : List String := [
  "type stateResV2ConflictedPowerLevel struct { powerLevel int64 originServerTS spec.Timestamp eventID string event PDU }"
]

def stateresolutionv2heaps_type_stateResV2ConflictedPowerLevelHeap : List String := [
  "type stateResV2ConflictedPowerLevelHeap []*stateResV2ConflictedPowerLevel"
]

def functions : List String := ["eventauth.go:AuthEvents.AddEvent", "eventauth.go:AuthEvents.Clear", "eventauth.go:AuthEvents.Create", "eventauth.go:AuthEvents.JoinRules", "eventauth.go:AuthEvents.Member", "eventauth.go:AuthEvents.PowerLevels", "eventauth.go:AuthEvents.ThirdPartyInvite", "eventauth.go:AuthEvents.Valid", "eventauth.go:NotAllowed.Error", "eventauth.go:StateNeeded.AuthEventReferences", "eventauth.go:StateNeeded.Tuples", "eventauth.go:.Allowed", "eventauth.go:.NewAuthEvents", "eventauth.go:.StateNeededForAuth", "eventauth.go:.StateNeededForProtoEvent", "eventauth.go:.accumulateStateNeeded", "eventauth.go:.allowRestrictedJoins", "eventauth.go:.checkEventLevels", "eventauth.go:.checkKnocking", "eventauth.go:.checkNotificationLevels", "eventauth.go:.checkPowerLevelEventV1", "eventauth.go:.checkPowerLevelEventV2", "eventauth.go:.checkPowerLevelEventV3", "eventauth.go:.checkUserLevels", "eventauth.go:.disallowKnocking", "eventauth.go:.disallowRestrictedJoins", "eventauth.go:.errorf", "eventauth.go:.newAllowerContext", "eventauth.go:.thirdPartyInviteToken", "eventauth.go:allowerContext.aliasEventAllowed", "eventauth.go:allowerContext.allowed", "eventauth.go:allowerContext.createEventAllowed", "eventauth.go:allowerContext.defaultEventAllowed", "eventauth.go:allowerContext.memberEventAllowed", "eventauth.go:allowerContext.newEventAllower", "eventauth.go:allowerContext.newMembershipAllower", "eventauth.go:allowerContext.powerLevelsEventAllowed", "eventauth.go:allowerContext.redactEventAllowed", "eventauth.go:allowerContext.resetCreate", "eventauth.go:allowerContext.update", "eventauth.go:allowerContext.userPowerLevel", "eventauth.go:eventAllower.commonChecks", "eventauth.go:membershipAllower.membershipAllowed", "eventauth.go:membershipAllower.membershipAllowedFromThirdPartyInvite", "eventauth.go:membershipAllower.membershipAllowedOther", "eventauth.go:membershipAllower.membershipAllowedSelf", "eventauth.go:membershipAllower.membershipAllowedSelfForRestrictedJoin", "eventauth.go:membershipAllower.membershipFailed", "eventauth.go:type AuthEventProvider", "eventauth.go:type AuthEvents", "eventauth.go:type NotAllowed", "eventauth.go:type StateNeeded", "eventauth.go:type allowerContext", "eventauth.go:type eventAllower", "eventauth.go:type membershipAllower", "eventauth.go:type membershipContent", "stateresolution.go:.ResolveConflicts", "stateresolution.go:.ResolveConflictsNew", "stateresolution.go:.ResolveStateConflicts", "stateresolution.go:.sortConflictedEventsByDepthAndSHA1", "stateresolution.go:.splitConflictedUnconflicted", "stateresolution.go:conflictedEventSorter.Len", "stateresolution.go:conflictedEventSorter.Swap", "stateresolution.go:stateResolver.Create", "stateresolution.go:stateResolver.JoinRules", "stateresolution.go:stateResolver.Member", "stateresolution.go:stateResolver.PowerLevels", "stateresolution.go:stateResolver.ThirdPartyInvite", "stateresolution.go:stateResolver.Valid", "stateresolution.go:stateResolver.addAuthEvent", "stateresolution.go:stateResolver.addConflicted", "stateresolution.go:stateResolver.authEventAt", "stateresolution.go:stateResolver.removeAuthEvent", "stateresolution.go:stateResolver.resolveAndAddAuthBlocks", "stateresolution.go:stateResolver.resolveAuthBlock", "stateresolution.go:stateResolver.resolveNormalBlock", "stateresolution.go:type conflictedEvent", "stateresolution.go:type conflictedEventSorter", "stateresolution.go:type stateResolver", "stateresolutionv2.go:.HeaderedReverseTopologicalOrdering", "stateresolutionv2.go:.ResolveStateConflictsV2", "stateresolutionv2.go:.ResolveStateConflictsV2New", "stateresolutionv2.go:.ReverseTopologicalOrdering", "stateresolutionv2.go:.creatorsFromCreateEventOrNone", "stateresolutionv2.go:.eventMapFromEvents", "stateresolutionv2.go:.getCreateEvent", "stateresolutionv2.go:.isControlEvent", "stateresolutionv2.go:.kahnsAlgorithmUsingAuthEvents", "stateresolutionv2.go:.kahnsAlgorithmUsingPrevEvents", "stateresolutionv2.go:.newPDUSet", "stateresolutionv2.go:stateResolverV2.applyEvents", "stateresolutionv2.go:stateResolverV2.authAndApplyEvents", "stateresolutionv2.go:stateResolverV2.calculateAuthDifference", "stateresolutionv2.go:stateResolverV2.calculateAuthDifferenceNew", "stateresolutionv2.go:stateResolverV2.calculateFullAuthChainAndConflictedSubgraph", "stateresolutionv2.go:stateResolverV2.createPowerLevelMainline", "stateresolutionv2.go:stateResolverV2.getFirstPowerLevelMainlineEvent", "stateresolutionv2.go:stateResolverV2.getPowerLevelFromAuthEvents", "stateresolutionv2.go:stateResolverV2.mainlineOrdering", "stateresolutionv2.go:stateResolverV2.reverseTopologicalOrdering", "stateresolutionv2.go:stateResolverV2.wrapOtherEventsForSort", "stateresolutionv2.go:stateResolverV2.wrapPowerLevelEventsForSort", "stateresolutionv2.go:type IsRejected", "stateresolutionv2.go:type TopologicalOrder", "stateresolutionv2.go:type stateResolverV2", "stateresolutionv2heaps.go:stateResV2ConflictedOtherHeap.Pop", "stateresolutionv2heaps.go:stateResV2ConflictedOtherHeap.Push", "stateresolutionv2heaps.go:stateResV2ConflictedPowerLevelHeap.Pop", "stateresolutionv2heaps.go:stateResV2ConflictedPowerLevelHeap.Push", "stateresolutionv2heaps.go:type stateResV2ConflictedOther", "stateresolutionv2heaps.go:type stateResV2ConflictedOtherHeap", "stateresolutionv2heaps.go:type stateResV2ConflictedPowerLevel", "stateresolutionv2heaps.go:type stateResV2ConflictedPowerLevelHeap"]

end VPins.C10
