/- PINNED copy of the statement skeletons of the Go functions the C16 model mirrors (written by tools/pin.sh
   when the model was last validated against the code). Compared with the regenerated VGen.SkelC16 in VProps/PinC16.lean. -/
namespace VPins.C16

def fclient_client_Client_CreateMediaDownloadRequest : List String := [
  "func func(ctx context.Context, matrixServer spec.ServerName, mediaID string) (*http.Response, error)",
  "requestURL := \"matrix://\" + string(matrixServer) + \"/_matrix/media/v3/download/\" + string(matrixServer) + \"/\" + mediaID + \"?allow_remote=false\"",
  "req, err := http.NewRequest(\"GET\", requestURL, nil)",
  "if err != nil {",
  "return nil, err",
  "}",
  "return fc.DoHTTPRequest(ctx, req)"
]

def fclient_client_Client_DoHTTPRequest : List String := [
  "func func(ctx context.Context, req *http.Request) (*http.Response, error)",
  "reqID := util.RandomString(12)",
  "logger := util.GetLogger(ctx).WithFields(logrus.Fields{\"out.req.ID\": reqID, \"out.req.method\": req.Method, \"out.req.uri\": req.URL})",
  "logger.Trace(\"Outgoing request\")",
  "newCtx := util.ContextWithLogger(ctx, logger)",
  "if fc.userAgent != \"\" {",
  "req.Header.Set(\"User-Agent\", fc.userAgent)",
  "}",
  "start := time.Now()",
  "resp, err := fc.client.Do(req.WithContext(newCtx))",
  "if err != nil {",
  "logger.WithContext(ctx).WithField(\"error\", err).Debug(\"Outgoing request failed\")",
  "return nil, err",
  "}",
  "logger.WithFields(logrus.Fields{\"out.req.code\": resp.StatusCode, \"out.req.duration_ms\": int(time.Since(start) / time.Millisecond)}).Trace(\"Outgoing request returned\")",
  "return resp, nil"
]

def fclient_client_Client_DoRequestAndParseResponse : List String := [
  "func func(ctx context.Context, req *http.Request, result interface{}) error",
  "response, err := fc.DoHTTPRequest(ctx, req)",
  "if response != nil {",
  "defer response.Body.Close()",
  "}",
  "if err != nil {",
  "return err",
  "}",
  "if response.StatusCode/100 != 2 {",
  "var contents []byte",
  "contents, err = io.ReadAll(response.Body)",
  "if err != nil {",
  "return err",
  "}",
  "var wrap error",
  "var respErr gomatrix.RespError",
  "if _ = json.Unmarshal(contents, &respErr); respErr.ErrCode != \"\" {",
  "wrap = respErr",
  "}",
  "msg := fmt.Sprintf(\"Failed to %s JSON (hostname %q path %q)\", req.Method, req.Host, req.URL.Path)",
  "if wrap == nil {",
  "msg += \": \" + string(contents)",
  "}",
  "return gomatrix.HTTPError{Code: response.StatusCode, Message: msg, WrappedError: wrap, Contents: contents}",
  "}",
  "if err = json.NewDecoder(response.Body).Decode(result); err != nil {",
  "return err",
  "}",
  "return nil"
]

def fclient_client_Client_GetServerKeys : List String := [
  "func func(ctx context.Context, matrixServer spec.ServerName) (gomatrixserverlib.ServerKeys, error)",
  "url := url.URL{Scheme: \"matrix\", Host: string(matrixServer), Path: \"/_matrix/key/v2/server\"}",
  "var body gomatrixserverlib.ServerKeys",
  "req, err := http.NewRequest(\"GET\", url.String(), nil)",
  "if err != nil {",
  "return body, err",
  "}",
  "err = fc.DoRequestAndParseResponse(ctx, req, &body)",
  "return body, err"
]

def fclient_client_Client_GetVersion : List String := [
  "func func(ctx context.Context, s spec.ServerName) (res Version, err error)",
  "url := url.URL{Scheme: \"matrix\", Host: string(s), Path: \"/_matrix/federation/v1/version\"}",
  "req, err := http.NewRequest(\"GET\", url.String(), nil)",
  "if err != nil {",
  "return",
  "}",
  "err = fc.DoRequestAndParseResponse(ctx, req, &res)",
  "return"
]

def fclient_client_Client_LookupServerKeys : List String := [
  "func func(ctx context.Context, matrixServer spec.ServerName, keyRequests map[gomatrixserverlib.PublicKeyLookupRequest]spec.Timestamp) ([]gomatrixserverlib.ServerKeys, error)",
  "url := url.URL{Scheme: \"matrix\", Host: string(matrixServer), Path: \"/_matrix/key/v2/query\"}",
  "type keyreq struct { MinimumValidUntilTS spec.Timestamp `json:\"minimum_valid_until_ts\"` }",
  "request := struct { ServerKeyMap map[spec.ServerName]map[gomatrixserverlib.KeyID]keyreq `json:\"server_keys\"` }{map[spec.ServerName]map[gomatrixserverlib.KeyID]keyreq{}}",
  "for k, ts := range keyRequests {",
  "server := request.ServerKeyMap[k.ServerName]",
  "if server == nil {",
  "server = map[gomatrixserverlib.KeyID]keyreq{}",
  "request.ServerKeyMap[k.ServerName] = server",
  "}",
  "if k.KeyID != \"\" {",
  "server[k.KeyID] = keyreq{ts}",
  "}",
  "}",
  "requestBytes, err := json.Marshal(request)",
  "if err != nil {",
  "return nil, err",
  "}",
  "var body struct { ServerKeyList []json.RawMessage `json:\"server_keys\"` }",
  "var res struct { ServerKeyList []gomatrixserverlib.ServerKeys }",
  "req, err := http.NewRequest(\"POST\", url.String(), bytes.NewBuffer(requestBytes))",
  "if err != nil {",
  "return nil, err",
  "}",
  "req.Header.Add(\"Content-Type\", \"application/json\")",
  "err = fc.DoRequestAndParseResponse(ctx, req, &body)",
  "if err != nil {",
  "return nil, err",
  "}",
  "for _, field := range body.ServerKeyList {",
  "var keys gomatrixserverlib.ServerKeys",
  "if err := json.Unmarshal(field, &keys); err == nil {",
  "res.ServerKeyList = append(res.ServerKeyList, keys)",
  "}",
  "}",
  "return res.ServerKeyList, nil"
]

def fclient_client_Client_LookupUserInfo : List String := [
  "func func(ctx context.Context, matrixServer spec.ServerName, token string) (u UserInfo, err error)",
  "url := url.URL{Scheme: \"matrix\", Host: string(matrixServer), Path: \"/_matrix/federation/v1/openid/userinfo\", RawQuery: url.Values{\"access_token\": []string{token}}.Encode()}",
  "req, err := http.NewRequest(\"GET\", url.String(), nil)",
  "if err != nil {",
  "return",
  "}",
  "var response *http.Response",
  "response, err = fc.DoHTTPRequest(ctx, req)",
  "if response != nil {",
  "defer response.Body.Close()",
  "}",
  "if err != nil {",
  "return",
  "}",
  "if response.StatusCode < 200 || response.StatusCode >= 300 {",
  "var errorOutput []byte",
  "errorOutput, err = io.ReadAll(response.Body)",
  "if err != nil {",
  "return",
  "}",
  "err = fmt.Errorf(\"HTTP %d : %s\", response.StatusCode, errorOutput)",
  "return",
  "}",
  "err = json.NewDecoder(response.Body).Decode(&u)",
  "if err != nil {",
  "return",
  "}",
  "userParts := strings.SplitN(u.Sub, \":\", 2)",
  "if len(userParts) != 2 || userParts[1] != string(matrixServer) {",
  "err = fmt.Errorf(\"userID doesn't match server name '%v' != '%v'\", u.Sub, matrixServer)",
  "return",
  "}",
  "return"
]

def fclient_client_Client_SetUserAgent : List String := [
  "func func(ua string)",
  "fc.userAgent = ua"
]

def fclient_client__NewClient : List String := [
  "func func(options ...ClientOption) *Client",
  "clientOpts := &clientOptions{timeout: requestTimeout}",
  "for _, option := range options {",
  "option(clientOpts)",
  "}",
  "if clientOpts.transport == nil {",
  "clientOpts.transport = newDestinationTripper(clientOpts.skipVerify, clientOpts.dnsCache, clientOpts.keepAlives, clientOpts.wellKnownSRV, clientOpts.allowNetworks, clientOpts.denyNetworks)",
  "}",
  "client := &Client{client: http.Client{Transport: clientOpts.transport, Timeout: clientOpts.timeout}, userAgent: clientOpts.userAgent}",
  "return client"
]

def fclient_client__WithAllowDenyNetworks : List String := [
  "func func(allowCIDRs []string, denyCIDRs []string) ClientOption",
  "return func(options *clientOptions) { options.allowNetworks = allowCIDRs options.denyNetworks = denyCIDRs }"
]

def fclient_client__WithDNSCache : List String := [
  "func func(cache *DNSCache) ClientOption",
  "return func(options *clientOptions) { options.dnsCache = cache }"
]

def fclient_client__WithKeepAlives : List String := [
  "func func(keepAlives bool) ClientOption",
  "return func(options *clientOptions) { options.keepAlives = keepAlives }"
]

def fclient_client__WithSkipVerify : List String := [
  "func func(skipVerify bool) ClientOption",
  "return func(options *clientOptions) { options.skipVerify = skipVerify }"
]

def fclient_client__WithTimeout : List String := [
  "func func(duration time.Duration) ClientOption",
  "return func(options *clientOptions) { options.timeout = duration }"
]

def fclient_client__WithTransport : List String := [
  "func func(transport http.RoundTripper) ClientOption",
  "return func(options *clientOptions) { options.transport = transport }"
]

def fclient_client__WithUserAgent : List String := [
  "func func(userAgent string) ClientOption",
  "return func(options *clientOptions) { options.userAgent = userAgent }"
]

def fclient_client__WithWellKnownSRVLookups : List String := [
  "func func(wellKnownSRV bool) ClientOption",
  "return func(options *clientOptions) { options.wellKnownSRV = wellKnownSRV }"
]

def fclient_client__allowDenyNetworksControl : List String := [
  "func func(allowNetworks, denyNetworks []string) func(_ context.Context, network string, address string, conn syscall.RawConn) error",
  "return func(_ context.Context, network string, address string, conn syscall.RawConn) error { if network != \"tcp4\" && network != \"tcp6\" { return fmt.Errorf(\"%s is not a safe network type\", network) } host, _, err := net.SplitHostPort(address) if err != nil { return fmt.Errorf(\"%s is not a valid host/port pair: %s\", address, err) } ipaddress := net.ParseIP(host) if ipaddress == nil { return fmt.Errorf(\"%s is not a valid IP address\", host) } if !isAllowed(ipaddress, allowNetworks, denyNetworks) { return fmt.Errorf(\"%s is denied\", address) } return nil }"
]

def fclient_client__inRange : List String := [
  "func func(ip net.IP, CIDRs []string) bool",
  "for i := 0; i < len(CIDRs); i++ {",
  "cidr := CIDRs[i]",
  "_, network, err := net.ParseCIDR(cidr)",
  "if err != nil {",
  "continue",
  "}",
  "if network.Contains(ip) {",
  "return true",
  "}",
  "}",
  "return false"
]

def fclient_client__isAllowed : List String := [
  "func func(ip net.IP, allowCIDRs []string, denyCIDRs []string) bool",
  "if inRange(ip, denyCIDRs) {",
  "return false",
  "}",
  "if inRange(ip, allowCIDRs) {",
  "return true",
  "}",
  "return false"
]

def fclient_client__makeHTTPSURL : List String := [
  "func func(u *url.URL, addr string) (httpsURL url.URL)",
  "httpsURL = *u",
  "httpsURL.Scheme = \"https\"",
  "httpsURL.Host = addr",
  "return"
]

def fclient_client__newDestinationTripper : List String := [
  "func func(skipVerify bool, dnsCache *DNSCache, keepAlives, wellKnownSRV bool, allowCIDRs []string, denyCIDRs []string) *destinationTripper",
  "tripper := &destinationTripper{transports: make(map[string]*destinationTripperTransport), skipVerify: skipVerify, dnsCache: dnsCache, keepAlives: keepAlives, wellKnownSRV: wellKnownSRV, dialer: newDestinationTripperDialer(allowCIDRs, denyCIDRs)}",
  "time.AfterFunc(destinationTripperReapInterval, tripper.reaper)",
  "return tripper"
]

def fclient_client__newDestinationTripperDialer : List String := [
  "func func(allowNetworks []string, denyNetworks []string) *net.Dialer",
  "if len(allowNetworks) == 0 && len(denyNetworks) == 0 {",
  "return &net.Dialer{Timeout: time.Second * 5}",
  "}",
  "return &net.Dialer{Timeout: time.Second * 5, ControlContext: allowDenyNetworksControl(allowNetworks, denyNetworks)}"
]

def fclient_client_destinationTripper_RoundTrip : List String := [
  "func func(r *http.Request) (*http.Response, error)",
  "var err error",
  "serverName := spec.ServerName(r.URL.Host)",
  "resolutionRetried := false",
  "resolutionResults := []ResolutionResult{}",
  "retryResolution: if f.wellKnownSRV { if cached, ok := f.resolutionCache.Load(serverName); ok { if results, ok := cached.([]ResolutionResult); ok { resolutionResults = results } } if len(resolutionResults) == 0 { ctx := withWellKnownTransport(r.Context(), f.wellKnownTransport()) resolutionResults, err = ResolveServer(ctx, serverName) if err != nil { return nil, err } f.resolutionCache.Store(serverName, resolutionResults) } } else { resolutionResults = append(resolutionResults, ResolutionResult{Destination: r.URL.Host, Host: spec.ServerName(r.Host), TLSServerName: r.Host}) }",
  "if len(resolutionResults) == 0 {",
  "return nil, fmt.Errorf(\"no address found for matrix host %v\", serverName)",
  "}",
  "var resp *http.Response",
  "for _, result := range resolutionResults {",
  "u := makeHTTPSURL(r.URL, result.Destination)",
  "r.URL = &u",
  "r.Host = string(result.Host)",
  "resp, err = f.getTransport(result.TLSServerName, f.dialer).RoundTrip(r)",
  "if err == nil {",
  "return resp, nil",
  "}",
  "util.GetLogger(r.Context()).Debugf(\"Error sending request to %s: %v\", u.String(), err)",
  "}",
  "f.resolutionCache.Delete(serverName)",
  "if !resolutionRetried {",
  "resolutionRetried = true",
  "goto retryResolution",
  "}",
  "return nil, err"
]

def fclient_client_destinationTripper_getTransport : List String := [
  "func func(tlsServerName string, dialer *net.Dialer) http.RoundTripper",
  "f.transportsMutex.Lock()",
  "defer f.transportsMutex.Unlock()",
  "transport, ok := f.transports[tlsServerName]",
  "if !ok {",
  "tr := &destinationTripperTransport{Transport: &http.Transport{DisableKeepAlives: !f.keepAlives, MaxIdleConnsPerHost: 1, IdleConnTimeout: destinationTripperLifetime, TLSClientConfig: &tls.Config{ServerName: tlsServerName, InsecureSkipVerify: f.skipVerify, ClientSessionCache: tls.NewLRUClientSessionCache(0)}, Dial: dialer.Dial, DialContext: dialer.DialContext, Proxy: http.ProxyFromEnvironment, ForceAttemptHTTP2: true}}",
  "if f.dnsCache != nil {",
  "tr.DialContext = f.dnsCache.dialContextVia(dialer)",
  "}",
  "transport, f.transports[tlsServerName] = tr, tr",
  "}",
  "transport.lastUsed.Store(time.Now())",
  "return transport"
]

def fclient_client_destinationTripper_reaper : List String := [
  "func func()",
  "f.transportsMutex.Lock()",
  "defer f.transportsMutex.Unlock()",
  "for serverName, transport := range f.transports {",
  "since := transport.lastUsed.Load().(time.Time)",
  "if time.Since(since) > destinationTripperLifetime {",
  "delete(f.transports, serverName)",
  "}",
  "}",
  "time.AfterFunc(destinationTripperReapInterval, f.reaper)"
]

def fclient_client_destinationTripper_wellKnownTransport : List String := [
  "func func() http.RoundTripper",
  "if f.dialer.ControlContext == nil && f.dnsCache == nil {",
  "return nil",
  "}",
  "f.transportsMutex.Lock()",
  "defer f.transportsMutex.Unlock()",
  "if f.wellKnown == nil {",
  "var tr *http.Transport",
  "if def, ok := http.DefaultTransport.(*http.Transport); ok {",
  "tr = def.Clone()",
  "} else {",
  "tr = &http.Transport{Proxy: http.ProxyFromEnvironment}",
  "}",
  "tr.DialContext = f.dialer.DialContext",
  "if f.dnsCache != nil {",
  "tr.DialContext = f.dnsCache.dialContextVia(f.dialer)",
  "}",
  "tr.DialTLSContext = nil",
  "tr.Dial, tr.DialTLS = nil, nil",
  "f.wellKnown = tr",
  "}",
  "return f.wellKnown"
]

def fclient_client_type_Client : List String := [
  "type Client struct { client http.Client userAgent string }"
]

def fclient_client_type_ClientOption : List String := [
  "type ClientOption func(*clientOptions)"
]

def fclient_client_type_UserInfo : List String := [
  "type UserInfo struct { Sub string `json:\"sub\"` }"
]

def fclient_client_type_clientOptions : List String := [
  "type clientOptions struct { transport http.RoundTripper dnsCache *DNSCache timeout time.Duration skipVerify bool keepAlives bool wellKnownSRV bool userAgent string allowNetworks []string denyNetworks []string }"
]

def fclient_client_type_destinationTripper : List String := [
  "type destinationTripper struct { transports map[string]*destinationTripperTransport transportsMutex sync.Mutex skipVerify bool resolutionCache sync.Map dnsCache *DNSCache keepAlives bool wellKnownSRV bool dialer *net.Dialer wellKnown *http.Transport }"
]

def fclient_client_type_destinationTripperTransport : List String := [
  "type destinationTripperTransport struct { *http.Transport lastUsed atomic.Value }"
]

def fclient_dnscache_DNSCache_DialContext : List String := [
  "func func(ctx context.Context, network, address string) (net.Conn, error)",
  "return c.dialContext(ctx, &c.dialer, address)"
]

def fclient_dnscache_DNSCache_dialContext : List String := [
  "func func(ctx context.Context, dialer *net.Dialer, address string) (net.Conn, error)",
  "host, port, err := net.SplitHostPort(address)",
  "if err != nil {",
  "return nil, fmt.Errorf(\"net.SplitHostPort: %w\", err)",
  "}",
  "retried := false",
  "retryLookup: entry, cached := c.lookup(ctx, host)",
  "if entry == nil {",
  "return nil, fmt.Errorf(\"lookup failed for %q\", host)",
  "}",
  "for _, addr := range entry.addrs {",
  "conn, err := dialer.DialContext(ctx, \"tcp\", net.JoinHostPort(addr.String(), port))",
  "if err != nil {",
  "continue",
  "}",
  "return conn, nil",
  "}",
  "if cached && !retried {",
  "retried = true",
  "c.mutex.Lock()",
  "delete(c.entries, host)",
  "c.mutex.Unlock()",
  "goto retryLookup",
  "}",
  "return nil, fmt.Errorf(\"connection failed to %q via %d addresses\", host, len(entry.addrs))"
]

def fclient_dnscache_DNSCache_dialContextVia : List String := [
  "func func(dialer *net.Dialer) func(ctx context.Context, network, address string) (net.Conn, error)",
  "chained := *dialer",
  "chained.ControlContext = chainControls(c.dialer.ControlContext, dialer.ControlContext)",
  "return func(ctx context.Context, network, address string) (net.Conn, error) { return c.dialContext(ctx, &chained, address) }"
]

def fclient_dnscache_DNSCache_lookup : List String := [
  "func func(ctx context.Context, name string) (*dnsCacheEntry, bool)",
  "c.mutex.Lock()",
  "if entry, ok := c.entries[name]; ok {",
  "if time.Now().Before(entry.expires) {",
  "c.mutex.Unlock()",
  "return entry, true",
  "}",
  "delete(c.entries, name)",
  "}",
  "c.mutex.Unlock()",
  "addrs, err := c.resolver.LookupIPAddr(ctx, name)",
  "if err != nil {",
  "return nil, false",
  "}",
  "if c.size <= 0 {",
  "return &dnsCacheEntry{addrs: addrs, expires: time.Now().Add(c.duration)}, false",
  "}",
  "c.mutex.Lock()",
  "defer c.mutex.Unlock()",
  "for ; len(c.entries) >= c.size;  {",
  "name, ts := \"\", time.Now().Add(c.duration)",
  "for n, e := range c.entries {",
  "if e.expires.Before(ts) {",
  "ts, name = e.expires, n",
  "}",
  "}",
  "delete(c.entries, name)",
  "}",
  "entry := &dnsCacheEntry{addrs: addrs, expires: time.Now().Add(c.duration)}",
  "c.entries[name] = entry",
  "return entry, false"
]

def fclient_dnscache__NewDNSCache : List String := [
  "func func(size int, duration time.Duration, allowNetworks, denyNetworks []string) *DNSCache",
  "return &DNSCache{resolver: net.DefaultResolver, size: size, duration: duration, entries: make(map[string]*dnsCacheEntry), dialer: net.Dialer{ControlContext: allowDenyNetworksControl(allowNetworks, denyNetworks)}}"
]

def fclient_dnscache__chainControls : List String := [
  "func func(controls ...controlFunc) controlFunc",
  "return func(ctx context.Context, network, address string, conn syscall.RawConn) error { for _, control := range controls { if control == nil { continue } if err := control(ctx, network, address, conn); err != nil { return err } } return nil }"
]

def fclient_dnscache_type_DNSCache : List String := [
  "type DNSCache struct { resolver netResolver mutex sync.Mutex size int duration time.Duration entries map[string]*dnsCacheEntry dialer net.Dialer }"
]

def fclient_dnscache_type_controlFunc : List String := [
  "type controlFunc func(ctx context.Context, network, address string, conn syscall.RawConn) error"
]

def fclient_dnscache_type_dnsCacheEntry : List String := [
  "type dnsCacheEntry struct { addrs []net.IPAddr expires time.Time }"
]

def fclient_dnscache_type_netResolver : List String := [
  "type netResolver interface { LookupIPAddr(context.Context, string) ([]net.IPAddr, error) }"
]

def fclient_resolve__ResolveServer : List String := [
  "func func(ctx context.Context, serverName spec.ServerName) (results []ResolutionResult, err error)",
  "return resolveServer(ctx, serverName, true)"
]

def fclient_resolve__handleNoWellKnown : List String := [
  "func func(ctx context.Context, serverName spec.ServerName) (results []ResolutionResult)",
  "records, err := lookupSRV(ctx, serverName)",
  "if err == nil && len(records) > 0 {",
  "for _, rec := range records {",
  "target := strings.TrimSuffix(rec.Target, \".\")",
  "if target == \"\" {",
  "continue",
  "}",
  "results = append(results, ResolutionResult{Destination: fmt.Sprintf(\"%s:%d\", target, rec.Port), Host: serverName, TLSServerName: string(serverName)})",
  "}",
  "return",
  "}",
  "results = []ResolutionResult{{Destination: fmt.Sprintf(\"%s:%d\", serverName, 8448), Host: serverName, TLSServerName: string(serverName)}}",
  "return"
]

def fclient_resolve__lookupSRV : List String := [
  "func func(ctx context.Context, serverName spec.ServerName) ([]*net.SRV, error)",
  "_, records, err := net.DefaultResolver.LookupSRV(ctx, \"matrix-fed\", \"tcp\", string(serverName))",
  "if err != nil {",
  "if dnserr, ok := err.(*net.DNSError); ok {",
  "if !dnserr.IsNotFound {",
  "return records, err",
  "}",
  "} else {",
  "return records, err",
  "}",
  "} else {",
  "return records, nil",
  "}",
  "_, records, err = net.DefaultResolver.LookupSRV(ctx, \"matrix\", \"tcp\", string(serverName))",
  "return records, err"
]

def fclient_resolve__resolveServer : List String := [
  "func func(ctx context.Context, serverName spec.ServerName, checkWellKnown bool) (results []ResolutionResult, err error)",
  "host, port, valid := spec.ParseAndValidateServerName(serverName)",
  "if !valid {",
  "err = fmt.Errorf(\"Invalid server name\")",
  "return",
  "}",
  "if host[0] == '[' && host[len(host)-1] == ']' {",
  "host = host[1 : len(host)-1]",
  "}",
  "if net.ParseIP(host) != nil {",
  "var destination string",
  "if port == -1 {",
  "destination = net.JoinHostPort(host, strconv.Itoa(8448))",
  "} else {",
  "destination = string(serverName)",
  "}",
  "results = []ResolutionResult{{Destination: destination, Host: serverName, TLSServerName: host}}",
  "return",
  "}",
  "if port != -1 {",
  "results = []ResolutionResult{{Destination: string(serverName), Host: serverName, TLSServerName: host}}",
  "return",
  "}",
  "if checkWellKnown {",
  "var result *WellKnownResult",
  "result, err = LookupWellKnown(ctx, serverName)",
  "if err == nil {",
  "return resolveServer(ctx, result.NewAddress, false)",
  "}",
  "}",
  "return handleNoWellKnown(ctx, serverName), nil"
]

def fclient_resolve_type_ResolutionResult : List String := [
  "type ResolutionResult struct { Destination string Host spec.ServerName TLSServerName string }"
]

def fclient_well_known__LookupWellKnown : List String := [
  "func func(ctx context.Context, serverNameType spec.ServerName) (*WellKnownResult, error)",
  "serverName := string(serverNameType)",
  "serverName = strings.TrimRight(serverName, \"/\")",
  "wellKnownPath := \"/.well-known/matrix/server\"",
  "req, err := http.NewRequestWithContext(ctx, \"GET\", \"https://\"+serverName+wellKnownPath, nil)",
  "if err != nil {",
  "return nil, err",
  "}",
  "client := http.Client{Timeout: time.Second * 30}",
  "if transport, ok := ctx.Value(wellKnownTransportKey{}).(http.RoundTripper); ok {",
  "client.Transport = transport",
  "}",
  "resp, err := client.Do(req)",
  "if err != nil {",
  "return nil, err",
  "}",
  "defer func() { _ = resp.Body.Close() }()",
  "if resp.StatusCode != 200 {",
  "return nil, errNoWellKnown",
  "}",
  "contentLengthHeader := resp.Header.Get(\"Content-Length\")",
  "if l, err := strconv.Atoi(contentLengthHeader); err == nil && l > WellKnownMaxSize {",
  "return nil, fmt.Errorf(\"well-known content length %d exceeds %d bytes\", l, WellKnownMaxSize)",
  "}",
  "cacheControlHeader := strings.Join(resp.Header.Values(\"Cache-Control\"), \",\")",
  "expiresHeader := resp.Header.Get(\"Expires\")",
  "expiryTimestamp := int64(0)",
  "if expiresHeader != \"\" {",
  "referenceTimeFormat := \"Mon, 02 Jan 2006 15:04:05 MST\"",
  "expiresTime, err := time.Parse(referenceTimeFormat, expiresHeader)",
  "if err == nil {",
  "expiryTimestamp = expiresTime.Unix()",
  "}",
  "}",
  "if cacheControlHeader != \"\" {",
  "kvPairs := strings.Split(cacheControlHeader, \",\")",
  "for _, keyValuePair := range kvPairs {",
  "keyValuePair = strings.Trim(keyValuePair, \" \")",
  "pieces := strings.SplitN(keyValuePair, \"=\", 2)",
  "if len(pieces) == 2 && strings.EqualFold(pieces[0], \"max-age\") {",
  "stringValue := pieces[1]",
  "age, err := strconv.ParseInt(stringValue, 10, 64)",
  "if err == nil {",
  "expiryTimestamp = age + time.Now().Unix()",
  "}",
  "}",
  "}",
  "}",
  "body, err := io.ReadAll(&io.LimitedReader{R: resp.Body, N: WellKnownMaxSize + 1})",
  "if err != nil {",
  "return nil, err",
  "}",
  "if len(body) > WellKnownMaxSize {",
  "return nil, fmt.Errorf(\"well-known response exceeds %d bytes\", WellKnownMaxSize)",
  "}",
  "var document map[string]json.RawMessage",
  "err = json.Unmarshal(body, &document)",
  "if err != nil {",
  "return nil, err",
  "}",
  "var newAddress spec.ServerName",
  "if rawAddress, ok := document[\"m.server\"]; ok {",
  "if err = json.Unmarshal(rawAddress, &newAddress); err != nil {",
  "return nil, err",
  "}",
  "}",
  "wellKnownResponse := &WellKnownResult{NewAddress: newAddress, CacheExpiresAt: expiryTimestamp}",
  "if wellKnownResponse.NewAddress == \"\" {",
  "return nil, errors.New(\"No m.server key found in well-known response\")",
  "}",
  "return wellKnownResponse, nil"
]

def fclient_well_known__withWellKnownTransport : List String := [
  "func func(ctx context.Context, transport http.RoundTripper) context.Context",
  "if transport == nil {",
  "return ctx",
  "}",
  "return context.WithValue(ctx, wellKnownTransportKey{}, transport)"
]

def fclient_well_known_type_WellKnownResult : List String := [
  "type WellKnownResult struct { NewAddress spec.ServerName `json:\"m.server\"` CacheExpiresAt int64 }"
]

def fclient_well_known_type_wellKnownTransportKey : List String := [
  "type wellKnownTransportKey struct{}"
]

def spec_servername__ParseAndValidateServerName : List String := [
  "func func(serverName ServerName) (host string, port int, valid bool)",
  "if len(serverName) == 0 {",
  "return",
  "}",
  "host, port = splitServerName(serverName)",
  "if len(host) == 0 {",
  "return",
  "}",
  "if host[0] == '[' {",
  "if host[len(host)-1] != ']' {",
  "return",
  "}",
  "ip := host[1 : len(host)-1]",
  "if net.ParseIP(ip) == nil {",
  "return",
  "}",
  "valid = true",
  "return",
  "}",
  "ip := net.ParseIP(host)",
  "if ip != nil && ip.To4() != nil && !strings.Contains(host, \":\") {",
  "valid = true",
  "return",
  "}",
  "for _, r := range host {",
  "if !isDNSNameChar(r) {",
  "return",
  "}",
  "}",
  "valid = true",
  "return"
]

def spec_servername__splitServerName : List String := [
  "func func(serverName ServerName) (string, int)",
  "nameStr := string(serverName)",
  "lastColon := strings.LastIndex(nameStr, \":\")",
  "if lastColon < 0 {",
  "return nameStr, -1",
  "}",
  "portStr := nameStr[lastColon+1:]",
  "port, err := strconv.ParseUint(portStr, 10, 16)",
  "if err != nil {",
  "return nameStr, -1",
  "}",
  "return nameStr[:lastColon], int(port)"
]

def spec_servername_type_ServerName : List String := [
  "type ServerName string"
]

def functions : List String := ["fclient/client.go:Client.CreateMediaDownloadRequest", "fclient/client.go:Client.DoHTTPRequest", "fclient/client.go:Client.DoRequestAndParseResponse", "fclient/client.go:Client.GetServerKeys", "fclient/client.go:Client.GetVersion", "fclient/client.go:Client.LookupServerKeys", "fclient/client.go:Client.LookupUserInfo", "fclient/client.go:Client.SetUserAgent", "fclient/client.go:.NewClient", "fclient/client.go:.WithAllowDenyNetworks", "fclient/client.go:.WithDNSCache", "fclient/client.go:.WithKeepAlives", "fclient/client.go:.WithSkipVerify", "fclient/client.go:.WithTimeout", "fclient/client.go:.WithTransport", "fclient/client.go:.WithUserAgent", "fclient/client.go:.WithWellKnownSRVLookups", "fclient/client.go:.allowDenyNetworksControl", "fclient/client.go:.inRange", "fclient/client.go:.isAllowed", "fclient/client.go:.makeHTTPSURL", "fclient/client.go:.newDestinationTripper", "fclient/client.go:.newDestinationTripperDialer", "fclient/client.go:destinationTripper.RoundTrip", "fclient/client.go:destinationTripper.getTransport", "fclient/client.go:destinationTripper.reaper", "fclient/client.go:destinationTripper.wellKnownTransport", "fclient/client.go:type Client", "fclient/client.go:type ClientOption", "fclient/client.go:type UserInfo", "fclient/client.go:type clientOptions", "fclient/client.go:type destinationTripper", "fclient/client.go:type destinationTripperTransport", "fclient/dnscache.go:DNSCache.DialContext", "fclient/dnscache.go:DNSCache.dialContext", "fclient/dnscache.go:DNSCache.dialContextVia", "fclient/dnscache.go:DNSCache.lookup", "fclient/dnscache.go:.NewDNSCache", "fclient/dnscache.go:.chainControls", "fclient/dnscache.go:type DNSCache", "fclient/dnscache.go:type controlFunc", "fclient/dnscache.go:type dnsCacheEntry", "fclient/dnscache.go:type netResolver", "fclient/resolve.go:.ResolveServer", "fclient/resolve.go:.handleNoWellKnown", "fclient/resolve.go:.lookupSRV", "fclient/resolve.go:.resolveServer", "fclient/resolve.go:type ResolutionResult", "fclient/well_known.go:.LookupWellKnown", "fclient/well_known.go:.withWellKnownTransport", "fclient/well_known.go:type WellKnownResult", "fclient/well_known.go:type wellKnownTransportKey", "spec/servername.go:.ParseAndValidateServerName", "spec/servername.go:.splitServerName", "spec/servername.go:type ServerName"]

end VPins.C16
