/- PINNED copy of the statement skeletons of the Go functions the C17 model mirrors (written by tools/pin.sh
   when the model was last validated against the code). Compared with the regenerated VGen.SkelC17 in VProps/PinC17.lean. -/
namespace VPins.C17

def eventV2__CheckFields : List String := [
  "func func(input PDU) error",
  "if input.AuthEventIDs() == nil || input.PrevEventIDs() == nil {",
  "return errors.New(\"gomatrixserverlib: auth events and prev events must not be nil\")",
  "}",
  "if l := len(input.JSON()); l > maxEventLength {",
  "return EventValidationError{Code: EventValidationTooLarge, Message: fmt.Sprintf(\"gomatrixserverlib: event is too long, length %d bytes > maximum %d bytes\", l, maxEventLength)}",
  "}",
  "if l := utf8.RuneCountInString(input.Type()); l > maxIDLength {",
  "return EventValidationError{Code: EventValidationTooLarge, Message: fmt.Sprintf(\"gomatrixserverlib: event type is too long, length %d bytes > maximum %d bytes\", l, maxIDLength)}",
  "}",
  "if input.StateKey() != nil {",
  "if l := utf8.RuneCountInString(*input.StateKey()); l > maxIDLength {",
  "return EventValidationError{Code: EventValidationTooLarge, Message: fmt.Sprintf(\"gomatrixserverlib: state key is too long, length %d bytes > maximum %d bytes\", l, maxIDLength)}",
  "}",
  "}",
  "if l := utf8.RuneCountInString(string(input.SenderID())); l > maxIDLength {",
  "return EventValidationError{Code: EventValidationTooLarge, Message: fmt.Sprintf(\"gomatrixserverlib: sender is too long, length %d > maximum %d\", l, maxIDLength)}",
  "}",
  "switch input.Version() {",
  "case RoomVersionPseudoIDs:",
  "default:",
  "if _, err := domainFromID(string(input.SenderID())); err != nil {",
  "return err",
  "}",
  "if id := string(input.SenderID()); id[0] != '@' {",
  "return checkID(id, \"user\", '@')",
  "}",
  "}",
  "_, persistable := lenientByteLimitRoomVersions[input.Version()]",
  "if l := len(input.Type()); l > maxIDLength {",
  "return EventValidationError{Code: EventValidationTooLarge, Message: fmt.Sprintf(\"gomatrixserverlib: event type is too long, length %d bytes > maximum %d bytes\", l, maxIDLength), Persistable: persistable}",
  "}",
  "if input.StateKey() != nil {",
  "if l := len(*input.StateKey()); l > maxIDLength {",
  "return EventValidationError{Code: EventValidationTooLarge, Message: fmt.Sprintf(\"gomatrixserverlib: state key is too long, length %d bytes > maximum %d bytes\", l, maxIDLength), Persistable: persistable}",
  "}",
  "}",
  "if l := len(input.SenderID()); l > maxIDLength {",
  "return EventValidationError{Code: EventValidationTooLarge, Message: fmt.Sprintf(\"gomatrixserverlib: user ID is too long, length %d bytes > maximum %d bytes\", l, maxIDLength), Persistable: true}",
  "}",
  "return nil"
]

def event_EventValidationError_Error : List String := [
  "func func() string",
  "return e.Message"
]

def event__SplitID : List String := [
  "func func(sigil byte, id string) (local string, domain spec.ServerName, err error)",
  "if len(id) == 0 || id[0] != sigil {",
  "return \"\", \"\", fmt.Errorf(\"gomatrixserverlib: invalid ID %q doesn't start with %q\", id, sigil)",
  "}",
  "parts := strings.SplitN(id, \":\", 2)",
  "if len(parts) != 2 {",
  "return \"\", \"\", fmt.Errorf(\"gomatrixserverlib: invalid ID %q missing ':'\", id)",
  "}",
  "return parts[0][1:], spec.ServerName(parts[1]), nil"
]

def event__checkID : List String := [
  "func func(id, kind string, sigil byte) (err error)",
  "if _, err = domainFromID(id); err != nil {",
  "return",
  "}",
  "if id[0] != sigil {",
  "err = fmt.Errorf(\"gomatrixserverlib: invalid %s ID, wanted first byte to be '%c' got '%c'\", kind, sigil, id[0])",
  "return",
  "}",
  "if l := utf8.RuneCountInString(id); l > maxIDLength {",
  "err = EventValidationError{Code: EventValidationTooLarge, Message: fmt.Sprintf(\"gomatrixserverlib: %s ID is too long, length %d > maximum %d\", kind, l, maxIDLength)}",
  "return",
  "}",
  "if l := len(id); l > maxIDLength {",
  "err = EventValidationError{Code: EventValidationTooLarge, Message: fmt.Sprintf(\"gomatrixserverlib: %s ID is too long, length %d bytes > maximum %d bytes\", kind, l, maxIDLength), Persistable: true}",
  "return",
  "}",
  "return"
]

def event__checkRoomIDField : List String := [
  "func func(id string) error",
  "if err := checkID(id, \"room\", '!'); err != nil {",
  "if verr, ok := err.(EventValidationError); ok && verr.Persistable {",
  "verr.Persistable = false",
  "return verr",
  "}",
  "return err",
  "}",
  "if _, err := spec.NewRoomID(id); err != nil {",
  "return fmt.Errorf(\"gomatrixserverlib: invalid room ID %q: %w\", id, err)",
  "}",
  "return nil"
]

def event__checkUntrustedEventJSON : List String := [
  "func func(eventJSON []byte) error",
  "if name, found := duplicateJSONKey(eventJSON); found {",
  "return BadJSONError{fmt.Errorf(\"gomatrixserverlib: duplicate key %q in event JSON\", name)}",
  "}",
  "var variant string",
  "gjson.ParseBytes(eventJSON).ForEach(func(key, _ gjson.Result) bool { for _, name := range eventJSONFieldNames { if key.Str != name && strings.EqualFold(key.Str, name) { variant = key.Str return false } } return true })",
  "if variant != \"\" {",
  "return BadJSONError{fmt.Errorf(\"gomatrixserverlib: key %q in event JSON is a case variant of an event field\", variant)}",
  "}",
  "return nil"
]

def event__duplicateJSONKey : List String := [
  "func func(data []byte) (name string, found bool)",
  "name, found, _ = jsonWalk{decodeName: func(raw []byte, escaped bool) (string, bool) { key := string(raw[1 : len(raw)-1]) if escaped && json.Unmarshal(raw, &key) != nil { return \"\", false } return key, true }}.duplicateName(data)",
  "return name, found"
]

def event__jsonFieldNames : List String := [
  "func func(t reflect.Type) []string",
  "var names []string",
  "for i := 0; i < t.NumField(); i++ {",
  "field := t.Field(i)",
  "tag, _, _ := strings.Cut(field.Tag.Get(\"json\"), \",\")",
  "switch {",
  "case field.Anonymous && tag == \"\" && field.Type.Kind() == reflect.Struct:",
  "names = append(names, jsonFieldNames(field.Type)...)",
  "case !field.IsExported() || tag == \"-\":",
  "case tag != \"\":",
  "names = append(names, tag)",
  "default:",
  "names = append(names, field.Name)",
  "}",
  "}",
  "return names"
]

def event_builder_EventBuilder_AddAuthEvents : List String := [
  "func func(provider AuthEventProvider) error",
  "eventsNeeded, err := StateNeededForProtoEvent(&ProtoEvent{Type: eb.Type, StateKey: eb.StateKey, Content: eb.Content, SenderID: eb.SenderID, Version: eb.version})",
  "if err != nil {",
  "return err",
  "}",
  "refs, err := eventsNeeded.AuthEventReferences(provider)",
  "if err != nil {",
  "return err",
  "}",
  "if eb.version.DomainlessRoomIDs() && eb.RoomID != \"\" {",
  "createEventID := \"$\" + eb.RoomID[1:]",
  "ids := make([]string, 0, len(refs))",
  "for _, id := range refs {",
  "if id == createEventID {",
  "continue",
  "}",
  "ids = append(ids, id)",
  "}",
  "eb.AuthEvents = ids",
  "return nil",
  "}",
  "eb.AuthEvents = refs",
  "return nil"
]

def event_builder_EventBuilder_Build : List String := [
  "func func(now time.Time, origin spec.ServerName, keyID KeyID, privateKey ed25519.PrivateKey) (result PDU, err error)",
  "if eb.version == nil {",
  "return nil, fmt.Errorf(\"EventBuilder.Build: unknown version, did you create this via NewEventBuilder?\")",
  "}",
  "eventFormat := eb.version.EventFormat()",
  "eventIDFormat := eb.version.EventIDFormat()",
  "var eventStruct struct { EventBuilder EventID string `json:\"event_id\"` OriginServerTS spec.Timestamp `json:\"origin_server_ts\"` Origin spec.ServerName `json:\"origin\"` PrevState *[ // This key is either absent or an empty list. // If it is absent then the pointer is nil and omitempty removes it. // Otherwise it points to an empty list and omitempty keeps it. ]eventReference `json:\"prev_state,omitempty\"` }",
  "eventStruct.EventBuilder = *eb",
  "if eventIDFormat == EventIDFormatV1 {",
  "eventStruct.EventID = fmt.Sprintf(\"$%s:%s\", util.RandomString(16), origin)",
  "}",
  "if eb.version.DomainlessRoomIDs() && eb.Type == spec.MRoomCreate && eb.StateKey != nil && eb.RoomID != \"\" {",
  "return nil, fmt.Errorf(\"EventBuilder.Build: create event must have no room ID but %s was provided\", eb.RoomID)",
  "}",
  "eventStruct.OriginServerTS = spec.AsTimestamp(now)",
  "eventStruct.Origin = origin",
  "switch eventFormat {",
  "case EventFormatV1:",
  "if eventStruct.PrevEvents, err = eventReferencesFrom(eventStruct.PrevEvents); err != nil {",
  "return nil, fmt.Errorf(\"EventBuilder.Build: prev_events: %w\", err)",
  "}",
  "if eventStruct.AuthEvents, err = eventReferencesFrom(eventStruct.AuthEvents); err != nil {",
  "return nil, fmt.Errorf(\"EventBuilder.Build: auth_events: %w\", err)",
  "}",
  "case EventFormatV2:",
  "switch prevEvents := eventStruct.PrevEvents.(type) { case []string: eventStruct.PrevEvents = prevEvents case nil: eventStruct.PrevEvents = []string{} }",
  "switch authEvents := eventStruct.AuthEvents.(type) { case []string: eventStruct.AuthEvents = authEvents case nil: eventStruct.AuthEvents = []string{} }",
  "}",
  "if eventStruct.StateKey != nil {",
  "eventStruct.PrevState = &emptyEventReferenceList",
  "}",
  "var eventJSON []byte",
  "if eventJSON, err = json.Marshal(&eventStruct); err != nil {",
  "return",
  "}",
  "if eventFormat == EventFormatV2 {",
  "if eventJSON, err = sjson.DeleteBytes(eventJSON, \"event_id\"); err != nil {",
  "return",
  "}",
  "}",
  "if eventJSON, err = addContentHashesToEvent(eventJSON); err != nil {",
  "return",
  "}",
  "if eventJSON, err = signEvent(string(origin), keyID, privateKey, eventJSON, eb.version.Version()); err != nil {",
  "return",
  "}",
  "if eventJSON, err = EnforcedCanonicalJSON(eventJSON, eb.version.Version()); err != nil {",
  "return",
  "}",
  "if err = checkUntrustedEventJSON(eventJSON); err != nil {",
  "return nil, err",
  "}",
  "res, err := eb.version.NewEventFromTrustedJSON(eventJSON, false)",
  "if err != nil {",
  "return nil, err",
  "}",
  "err = CheckFields(res)",
  "return res, err"
]

def event_builder_EventBuilder_SetContent : List String := [
  "func func(content interface{}) (err error)",
  "eb.Content, err = json.Marshal(content)",
  "return"
]

def event_builder_EventBuilder_SetUnsigned : List String := [
  "func func(unsigned interface{}) (err error)",
  "eb.Unsigned, err = json.Marshal(unsigned)",
  "return"
]

def event_builder__eventHashFromEventID : List String := [
  "func func(eventID string) spec.Base64Bytes",
  "var sha spec.Base64Bytes",
  "if len(eventID) == 0 {",
  "return sha",
  "}",
  "if err := sha.Decode(eventID[1:]); err != nil {",
  "return sha",
  "}",
  "return sha"
]

def event_builder__eventReferenceFromEventID : List String := [
  "func func(eventID string) (eventReference, error)",
  "if len(eventID) == 0 || eventID[0] != '$' {",
  "return eventReference{}, fmt.Errorf(\"gomatrixserverlib: invalid event ID %q\", eventID)",
  "}",
  "return eventReference{EventID: eventID, EventSHA256: eventHashFromEventID(eventID)}, nil"
]

def event_builder__eventReferencesFrom : List String := [
  "func func(data any) ([]eventReference, error)",
  "switch evs := data.(type) { case nil: return []eventReference{}, nil case []string: newEvents := make([]eventReference, 0, len(evs)) for _, eventID := range evs { ref, err := eventReferenceFromEventID(eventID) if err != nil { return nil, err } newEvents = append(newEvents, ref) } return newEvents, nil case []eventReference: return evs, nil case []interface{}: evRefs := make([]eventReference, 0, len(evs)) for _, b := range evs { evID, ok := b.(string) if !ok { ev, isList := b.([]interface{}) if !isList { continue } if len(ev) == 0 { return nil, fmt.Errorf(\"gomatrixserverlib: empty event reference\") } if evID, ok = ev[0].(string); !ok { return nil, fmt.Errorf(\"gomatrixserverlib: event reference must start with an event ID, got %T\", ev[0]) } } ref, err := eventReferenceFromEventID(evID) if err != nil { return nil, err } evRefs = append(evRefs, ref) } return evRefs, nil default: return []eventReference{}, nil }"
]

def event_builder__toEventReference : List String := [
  "func func(data any) []eventReference",
  "refs, err := eventReferencesFrom(data)",
  "if err != nil {",
  "return []eventReference{}",
  "}",
  "return refs"
]

def event_builder_type_EventBuilder : List String := [
  "type EventBuilder struct { SenderID string `json:\"sender\"` RoomID string `json:\"room_id,omitempty\"` Type string `json:\"type\"` StateKey *string `json:\"state_key,omitempty\"` PrevEvents interface{} `json:\"prev_events\"` AuthEvents interface{} `json:\"auth_events\"` Redacts string `json:\"redacts,omitempty\"` Depth int64 `json:\"depth\"` Signature spec.RawJSON `json:\"signatures,omitempty\"` Content spec.RawJSON `json:\"content\"` Unsigned spec.RawJSON `json:\"unsigned,omitempty\"` version IRoomVersion }"
]

def event_jsonWalk_duplicateName : List String := [
  "func func(data []byte) (name string, found bool, err error)",
  "var stack []map[string]struct{}",
  "expectKey := false",
  "skipping := false",
  "for i := 0; i < len(data); i++ {",
  "switch data[i] {",
  "case '{':",
  "if skipping {",
  "stack = append(stack, nil)",
  "break",
  "}",
  "stack = append(stack, map[string]struct{}{})",
  "expectKey = true",
  "case '[':",
  "stack = append(stack, nil)",
  "expectKey = false",
  "case '}', ']':",
  "if len(stack) == 0 {",
  "return \"\", false, nil",
  "}",
  "stack = stack[:len(stack)-1]",
  "expectKey = false",
  "if len(stack) == 0 {",
  "skipping = false",
  "}",
  "case ',':",
  "if len(stack) == 1 {",
  "skipping = false",
  "}",
  "expectKey = !skipping && len(stack) > 0 && stack[len(stack)-1] != nil",
  "case '\"':",
  "end, escaped := i+1, false",
  "for ; end < len(data) && data[end] != '\"';  {",
  "if data[end] == '\\\\' {",
  "escaped = true",
  "end++",
  "}",
  "end++",
  "}",
  "if end >= len(data) {",
  "return \"\", false, nil",
  "}",
  "if !skipping && w.checkString != nil {",
  "if err = w.checkString(data[i : end+1]); err != nil {",
  "return \"\", false, err",
  "}",
  "}",
  "if expectKey {",
  "key, ok := w.decodeName(data[i:end+1], escaped)",
  "if !ok {",
  "return \"\", false, nil",
  "}",
  "names := stack[len(stack)-1]",
  "if _, dup := names[key]; dup {",
  "return key, true, nil",
  "}",
  "names[key] = struct{}{}",
  "expectKey = false",
  "skipping = len(stack) == 1 && w.skipMember != nil && w.skipMember(key)",
  "}",
  "i = end",
  "}",
  "if len(stack) > maxJSONNestingDepth {",
  "return \"\", false, nil",
  "}",
  "}",
  "return \"\", false, nil"
]

def event_type_EventValidationError : List String := [
  "type EventValidationError struct { Message string Code int Persistable bool }"
]

def event_type_eventFields : List String := [
  "type eventFields struct { RoomID string `json:\"room_id\"` SenderID string `json:\"sender\"` Type string `json:\"type\"` StateKey *string `json:\"state_key\"` Content spec.RawJSON `json:\"content\"` Redacts string `json:\"redacts\"` Depth int64 `json:\"depth\"` Unsigned spec.RawJSON `json:\"unsigned,omitempty\"` OriginServerTS spec.Timestamp `json:\"origin_server_ts\"` }"
]

def event_type_jsonWalk : List String := [
  "type jsonWalk struct { decodeName func(raw []byte, escaped bool) (string, bool) checkString func(raw []byte) error skipMember func(name string) bool }"
]

def eventversion_RoomVersionImpl_CheckCanonicalJSON : List String := [
  "func func(eventJSON []byte) error",
  "return v.canonicalJSONCheck(eventJSON)"
]

def eventversion_RoomVersionImpl_CheckCreateEvent : List String := [
  "func func(event PDU, sender spec.UserID, knownRoomVersion KnownRoomVersionFunc) error",
  "return v.checkCreateEvent(event, sender, knownRoomVersion)"
]

def eventversion_RoomVersionImpl_CheckKnockingAllowed : List String := [
  "func func(roomVer, sender, target, joinRule, prevMembership string) error",
  "return v.checkKnockingAllowedFunc(roomVer, sender, target, joinRule, prevMembership)"
]

def eventversion_RoomVersionImpl_CheckPowerLevelEvent : List String := [
  "func func(sender string, createEvent PDU, oldPowerLevels, newPowerLevels PowerLevelContent) error",
  "return v.checkPowerLevelEvent(sender, createEvent, oldPowerLevels, newPowerLevels)"
]

def eventversion_RoomVersionImpl_CheckRestrictedJoin : List String := [
  "func func(ctx context.Context, localServerName spec.ServerName, roomQuerier RestrictedRoomJoinQuerier, roomID spec.RoomID, senderID spec.SenderID) (string, error)",
  "return v.checkRestrictedJoin(ctx, localServerName, roomQuerier, roomID, senderID, v.privilegedCreators)"
]

def eventversion_RoomVersionImpl_CheckRestrictedJoinsAllowed : List String := [
  "func func() error",
  "return v.checkRestrictedJoinAllowedFunc()"
]

def eventversion_RoomVersionImpl_DomainlessRoomIDs : List String := [
  "func func() bool",
  "return v.domainlessRoomID"
]

def eventversion_RoomVersionImpl_EventFormat : List String := [
  "func func() EventFormat",
  "return v.eventFormat"
]

def eventversion_RoomVersionImpl_EventIDFormat : List String := [
  "func func() EventIDFormat",
  "return v.eventIDFormat"
]

def eventversion_RoomVersionImpl_NewEventBuilder : List String := [
  "func func() *EventBuilder",
  "return &EventBuilder{version: v}"
]

def eventversion_RoomVersionImpl_NewEventBuilderFromProtoEvent : List String := [
  "func func(pe *ProtoEvent) *EventBuilder",
  "eb := v.NewEventBuilder()",
  "eb.AuthEvents = pe.AuthEvents",
  "eb.Content = pe.Content",
  "eb.Depth = pe.Depth",
  "eb.PrevEvents = pe.PrevEvents",
  "eb.Redacts = pe.Redacts",
  "eb.RoomID = pe.RoomID",
  "eb.SenderID = pe.SenderID",
  "eb.Signature = pe.Signature",
  "eb.StateKey = pe.StateKey",
  "eb.Type = pe.Type",
  "eb.Unsigned = pe.Unsigned",
  "return eb"
]

def eventversion_RoomVersionImpl_NewEventFromTrustedJSON : List String := [
  "func func(eventJSON []byte, redacted bool) (result PDU, err error)",
  "return v.newEventFromTrustedJSONFunc(eventJSON, redacted, v)"
]

def eventversion_RoomVersionImpl_NewEventFromTrustedJSONWithEventID : List String := [
  "func func(eventID string, eventJSON []byte, redacted bool) (result PDU, err error)",
  "return v.newEventFromTrustedJSONWithEventIDFunc(eventID, eventJSON, redacted, v)"
]

def eventversion_RoomVersionImpl_NewEventFromUntrustedJSON : List String := [
  "func func(eventJSON []byte) (result PDU, err error)",
  "return v.newEventFromUntrustedJSONFunc(eventJSON, v)"
]

def eventversion_RoomVersionImpl_ParsePowerLevels : List String := [
  "func func(contentBytes []byte, c *PowerLevelContent) error",
  "return v.parsePowerLevelsFunc(contentBytes, c)"
]

def eventversion_RoomVersionImpl_PrivilegedCreators : List String := [
  "func func() bool",
  "return v.privilegedCreators"
]

def eventversion_RoomVersionImpl_RedactEventJSON : List String := [
  "func func(eventJSON []byte) ([]byte, error)",
  "return v.redactionAlgorithm(eventJSON)"
]

def eventversion_RoomVersionImpl_RestrictedJoinServername : List String := [
  "func func(content []byte) (spec.ServerName, error)",
  "return v.restrictedJoinServernameFunc(content)"
]

def eventversion_RoomVersionImpl_SignatureValidityCheck : List String := [
  "func func(atTS, validUntilTS spec.Timestamp) bool",
  "return v.signatureValidityCheckFunc(atTS, validUntilTS)"
]

def eventversion_RoomVersionImpl_Stable : List String := [
  "func func() bool",
  "return v.stable"
]

def eventversion_RoomVersionImpl_StateResAlgorithm : List String := [
  "func func() StateResAlgorithm",
  "return v.stateResAlgorithm"
]

def eventversion_RoomVersionImpl_Version : List String := [
  "func func() RoomVersion",
  "return v.ver"
]

def eventversion_UnsupportedRoomVersionError_Error : List String := [
  "func func() string",
  "return fmt.Sprintf(\"gomatrixserverlib: unsupported room version '%s'\", e.Version)"
]

def eventversion__GetRoomVersion : List String := [
  "func func(verStr RoomVersion) (impl IRoomVersion, err error)",
  "v, ok := roomVersionMeta[verStr]",
  "if !ok {",
  "return impl, UnsupportedRoomVersionError{Version: verStr}",
  "}",
  "return v, nil"
]

def eventversion__KnownRoomVersion : List String := [
  "func func(verStr RoomVersion) bool",
  "_, ok := roomVersionMeta[verStr]",
  "return ok"
]

def eventversion__MustGetRoomVersion : List String := [
  "func func(verStr RoomVersion) IRoomVersion",
  "impl, err := GetRoomVersion(verStr)",
  "if err != nil {",
  "panic(fmt.Sprintf(\"MustGetRoomVersion: %s\", verStr))",
  "}",
  "return impl"
]

def eventversion__NewEventFromHeaderedJSON : List String := [
  "func func(headeredEventJSON []byte, redacted bool) (PDU, error)",
  "eventID := gjson.GetBytes(headeredEventJSON, \"_event_id\").String()",
  "roomVer := RoomVersion(gjson.GetBytes(headeredEventJSON, \"_room_version\").String())",
  "verImpl, err := GetRoomVersion(roomVer)",
  "if err != nil {",
  "return nil, err",
  "}",
  "headeredEventJSON, _ = sjson.DeleteBytes(headeredEventJSON, \"_event_id\")",
  "headeredEventJSON, _ = sjson.DeleteBytes(headeredEventJSON, \"_room_version\")",
  "return verImpl.NewEventFromTrustedJSONWithEventID(eventID, headeredEventJSON, redacted)"
]

def eventversion__RoomVersions : List String := [
  "func func() map[RoomVersion]IRoomVersion",
  "return roomVersionMeta"
]

def eventversion__SetRoomVersion : List String := [
  "func func(ver IRoomVersion)",
  "roomVersionMeta[ver.Version()] = ver"
]

def eventversion__StableRoomVersion : List String := [
  "func func(verStr RoomVersion) bool",
  "verImpl, ok := roomVersionMeta[verStr]",
  "return ok && verImpl.Stable()"
]

def eventversion__StableRoomVersions : List String := [
  "func func() map[RoomVersion]IRoomVersion",
  "versions := make(map[RoomVersion]IRoomVersion)",
  "for id, version := range RoomVersions() {",
  "if version.Stable() {",
  "versions[id] = version",
  "}",
  "}",
  "return versions"
]

def eventversion_type_EventFormat : List String := [
  "type EventFormat int"
]

def eventversion_type_EventIDFormat : List String := [
  "type EventIDFormat int"
]

def eventversion_type_IRoomVersion : List String := [
  "type IRoomVersion interface { Version() RoomVersion Stable() bool StateResAlgorithm() StateResAlgorithm EventFormat() EventFormat EventIDFormat() EventIDFormat RedactEventJSON(eventJSON []byte) ([]byte, error) SignatureValidityCheck(atTS, validUntil spec.Timestamp) bool NewEventFromTrustedJSON(eventJSON []byte, redacted bool) (result PDU, err error) NewEventFromTrustedJSONWithEventID(eventID string, eventJSON []byte, redacted bool) (result PDU, err error) NewEventFromUntrustedJSON(eventJSON []byte) (result PDU, err error) NewEventBuilder() *EventBuilder NewEventBuilderFromProtoEvent(pe *ProtoEvent) *EventBuilder CheckRestrictedJoin(ctx context.Context, localServerName spec.ServerName, roomQuerier RestrictedRoomJoinQuerier, roomID spec.RoomID, senderID spec.SenderID) (string, error) RestrictedJoinServername(content []byte) (spec.ServerName, error) CheckRestrictedJoinsAllowed() error CheckKnockingAllowed(roomVer, sender, target, joinRule, prevMembership string) error CheckPowerLevelEvent(sender string, createEvent PDU, oldPowerLevels, newPowerLevels PowerLevelContent) error CheckCanonicalJSON(input []byte) error ParsePowerLevels(contentBytes []byte, c *PowerLevelContent) error CheckCreateEvent(event PDU, sender spec.UserID, knownRoomVersion KnownRoomVersionFunc) error DomainlessRoomIDs() bool PrivilegedCreators() bool }"
]

def eventversion_type_KnownRoomVersionFunc : List String := [
  "type KnownRoomVersionFunc func(RoomVersion) bool"
]

def eventversion_type_RoomVersion : List String := [
  "type RoomVersion string"
]

def eventversion_type_RoomVersionImpl : List String := [
  "type RoomVersionImpl struct { ver RoomVersion stateResAlgorithm StateResAlgorithm eventFormat EventFormat eventIDFormat EventIDFormat redactionAlgorithm func(eventJSON []byte) ([]byte, error) signatureValidityCheckFunc SignatureValidityCheckFunc canonicalJSONCheck func(eventJSON []byte) error checkPowerLevelEvent func(sender string, createEvent PDU, oldPowerLevels, newPowerLevels PowerLevelContent) error parsePowerLevelsFunc func(contentBytes []byte, c *PowerLevelContent) error stable bool domainlessRoomID bool privilegedCreators bool checkRestrictedJoin func(ctx context.Context, localServerName spec.ServerName, roomQuerier RestrictedRoomJoinQuerier, roomID spec.RoomID, senderID spec.SenderID, privilegedCreators bool) (string, error) restrictedJoinServernameFunc func(content []byte) (spec.ServerName, error) checkRestrictedJoinAllowedFunc func() error checkKnockingAllowedFunc func(roomVer, sender, target, joinRule, prevMembership string) error checkCreateEvent func(e PDU, sender spec.UserID, knownRoomVersion KnownRoomVersionFunc) error newEventFromUntrustedJSONFunc func(eventJSON []byte, roomVersion IRoomVersion) (result PDU, err error) newEventFromTrustedJSONFunc func(eventJSON []byte, redacted bool, roomVersion IRoomVersion) (result PDU, err error) newEventFromTrustedJSONWithEventIDFunc func(eventID string, eventJSON []byte, redacted bool, roomVersion IRoomVersion) (result PDU, err error) }"
]

def eventversion_type_StateResAlgorithm : List String := [
  "type StateResAlgorithm int"
]

def eventversion_type_UnsupportedRoomVersionError : List String := [
  "type UnsupportedRoomVersionError struct{ Version RoomVersion }"
]

def spec_base64_Base64Bytes_Decode : List String := [
  "func func(str string) error",
  "var err error",
  "if strings.ContainsAny(str, \"-_\") {",
  "*b64, err = base64.RawURLEncoding.DecodeString(str)",
  "} else {",
  "*b64, err = base64.RawStdEncoding.DecodeString(str)",
  "}",
  "return err"
]

def spec_base64_Base64Bytes_Encode : List String := [
  "func func() string",
  "return base64.RawStdEncoding.EncodeToString(b64)"
]

def spec_base64_Base64Bytes_MarshalJSON : List String := [
  "func func() ([]byte, error)",
  "return json.Marshal(b64.Encode())"
]

def spec_base64_Base64Bytes_MarshalYAML : List String := [
  "func func() (interface{}, error)",
  "return b64.Encode(), nil"
]

def spec_base64_Base64Bytes_Scan : List String := [
  "func func(src interface{}) error",
  "switch v := src.(type) { case string: return b64.Decode(v) case []byte: *b64 = append(Base64Bytes{}, v...) return nil case RawJSON: return b64.UnmarshalJSON(v) default: return fmt.Errorf(\"unsupported source type\") }"
]

def spec_base64_Base64Bytes_UnmarshalJSON : List String := [
  "func func(raw []byte) (err error)",
  "var str string",
  "if err = json.Unmarshal(raw, &str); err != nil {",
  "return",
  "}",
  "err = b64.Decode(str)",
  "return"
]

def spec_base64_Base64Bytes_UnmarshalYAML : List String := [
  "func func(unmarshal func(interface{}) error) (err error)",
  "var str string",
  "if err = unmarshal(&str); err != nil {",
  "return",
  "}",
  "err = b64.Decode(str)",
  "return"
]

def spec_base64_Base64Bytes_Value : List String := [
  "func func() (driver.Value, error)",
  "return b64.Encode(), nil"
]

def spec_base64_type_Base64Bytes : List String := [
  "type Base64Bytes []byte"
]

def spec_roomid_RoomID_Domain : List String := [
  "func func() ServerName",
  "if room.isDomainless {",
  "panic(\"Called RoomID.Domain() on domain-less room ID \" + room.String())",
  "}",
  "return ServerName(room.domain)"
]

def spec_roomid_RoomID_OpaqueID : List String := [
  "func func() string",
  "return room.opaqueID"
]

def spec_roomid_RoomID_String : List String := [
  "func func() string",
  "return room.raw"
]

def spec_roomid__NewRoomID : List String := [
  "func func(id string) (*RoomID, error)",
  "return parseAndValidateRoomID(id)"
]

def spec_roomid__parseAndValidateRoomID : List String := [
  "func func(id string) (*RoomID, error)",
  "idLength := len(id)",
  "if idLength < 4 || idLength > 255 {",
  "return nil, fmt.Errorf(\"length %d is not within the bounds 4-255\", idLength)",
  "}",
  "if id[0] != roomSigil {",
  "return nil, fmt.Errorf(\"first character is not '%c'\", roomSigil)",
  "}",
  "hasDomain := strings.ContainsRune(id, localDomainSeparator)",
  "if !hasDomain {",
  "if !domainlessRoomIDRegexp.MatchString(id[1:]) {",
  "return nil, fmt.Errorf(\"domainless room IDs must consist of 43 unpadded urlsafe base64 characters\")",
  "}",
  "return &RoomID{raw: id, opaqueID: id[1:], domain: \"\", isDomainless: true}, nil",
  "}",
  "opaqueID, domain, found := strings.Cut(id[1:], string(localDomainSeparator))",
  "if !found {",
  "return nil, fmt.Errorf(\"at least one '%c' is expected in the room id\", localDomainSeparator)",
  "}",
  "if _, _, ok := ParseAndValidateServerName(ServerName(domain)); !ok {",
  "return nil, fmt.Errorf(\"domain is invalid\")",
  "}",
  "opaqueLength := len(opaqueID)",
  "if opaqueLength < 1 {",
  "return nil, fmt.Errorf(\"opaque id length %d is too short to be valid\", opaqueLength)",
  "}",
  "roomID := &RoomID{raw: id, opaqueID: opaqueID, domain: domain, isDomainless: false}",
  "return roomID, nil"
]

def spec_roomid_type_RoomID : List String := [
  "type RoomID struct { raw string opaqueID string domain string isDomainless bool }"
]

def spec_senderid_SenderID_IsPseudoID : List String := [
  "func func() bool",
  "return !s.IsUserID()"
]

def spec_senderid_SenderID_IsUserID : List String := [
  "func func() bool",
  "return len(s) > 0 && s[0] == '@'"
]

def spec_senderid_SenderID_RawBytes : List String := [
  "func func() (res Base64Bytes, err error)",
  "err = res.Decode(string(s))",
  "if err != nil {",
  "return nil, err",
  "}",
  "return res, nil"
]

def spec_senderid_SenderID_ToPseudoID : List String := [
  "func func() *ed25519.PublicKey",
  "if s.IsPseudoID() {",
  "decoded, err := s.RawBytes()",
  "if err != nil {",
  "return nil",
  "}",
  "key := ed25519.PublicKey([]byte(decoded))",
  "return &key",
  "}",
  "return nil"
]

def spec_senderid_SenderID_ToUserID : List String := [
  "func func() *UserID",
  "if s.IsUserID() {",
  "uID, _ := NewUserID(string(s), true)",
  "return uID",
  "}",
  "return nil"
]

def spec_senderid__SenderIDFromPseudoIDKey : List String := [
  "func func(key ed25519.PrivateKey) SenderID",
  "return SenderID(Base64Bytes(key.Public().(ed25519.PublicKey)).Encode())"
]

def spec_senderid__SenderIDFromUserID : List String := [
  "func func(user UserID) SenderID",
  "return SenderID(user.String())"
]

def spec_senderid_type_CreateSenderID : List String := [
  "type CreateSenderID func(ctx context.Context, userID UserID, roomID RoomID, roomVersion string) (SenderID, ed25519.PrivateKey, error)"
]

def spec_senderid_type_SenderID : List String := [
  "type SenderID string"
]

def spec_senderid_type_SenderIDForUser : List String := [
  "type SenderIDForUser func(roomID RoomID, userID UserID) (*SenderID, error)"
]

def spec_senderid_type_StoreSenderIDFromPublicID : List String := [
  "type StoreSenderIDFromPublicID func(ctx context.Context, senderID SenderID, userID string, id RoomID) error"
]

def spec_senderid_type_UserIDForSender : List String := [
  "type UserIDForSender func(roomID RoomID, senderID SenderID) (*UserID, error)"
]

def spec_servername__ParseAndValidateServerName : List String := [
  "func func(serverName ServerName) (host string, port int, valid bool)",
  "if len(serverName) == 0 {",
  "return",
  "}",
  "host, port = splitServerName(serverName)",
  "if len(host) == 0 {",
  "return",
  "}",
  "if host[0] == '[' {",
  "if host[len(host)-1] != ']' {",
  "return",
  "}",
  "ip := host[1 : len(host)-1]",
  "if net.ParseIP(ip) == nil {",
  "return",
  "}",
  "valid = true",
  "return",
  "}",
  "ip := net.ParseIP(host)",
  "if ip != nil && ip.To4() != nil && !strings.Contains(host, \":\") {",
  "valid = true",
  "return",
  "}",
  "for _, r := range host {",
  "if !isDNSNameChar(r) {",
  "return",
  "}",
  "}",
  "valid = true",
  "return"
]

def spec_servername__splitServerName : List String := [
  "func func(serverName ServerName) (string, int)",
  "nameStr := string(serverName)",
  "lastColon := strings.LastIndex(nameStr, \":\")",
  "if lastColon < 0 {",
  "return nameStr, -1",
  "}",
  "portStr := nameStr[lastColon+1:]",
  "port, err := strconv.ParseUint(portStr, 10, 16)",
  "if err != nil {",
  "return nameStr, -1",
  "}",
  "return nameStr[:lastColon], int(port)"
]

def spec_servername_type_ServerName : List String := [
  "type ServerName string"
]

def spec_userid_UserID_Domain : List String := [
  "func func() ServerName",
  "return ServerName(user.domain)"
]

def spec_userid_UserID_Local : List String := [
  "func func() string",
  "return user.local"
]

def spec_userid_UserID_String : List String := [
  "func func() string",
  "return user.raw"
]

def spec_userid__NewUserID : List String := [
  "func func(id string, allowHistoricalIDs bool) (*UserID, error)",
  "return parseAndValidateUserID(id, allowHistoricalIDs)"
]

def spec_userid__NewUserIDOrPanic : List String := [
  "func func(id string, allowHistoricalIDs bool) UserID",
  "userID, err := parseAndValidateUserID(id, allowHistoricalIDs)",
  "if err != nil {",
  "panic(fmt.Sprintf(\"NewUserIDOrPanic failed: invalid user ID %s: %s\", id, err.Error()))",
  "}",
  "return *userID"
]

def spec_userid__historicallyValidCharacters : List String := [
  "func func(localpart string) bool",
  "return true"
]

def spec_userid__parseAndValidateUserID : List String := [
  "func func(id string, allowHistoricalIDs bool) (*UserID, error)",
  "idLength := len(id)",
  "if idLength < 4 || idLength > 255 {",
  "return nil, fmt.Errorf(\"length %d is not within the bounds 4-255\", idLength)",
  "}",
  "if id[0] != userSigil {",
  "return nil, fmt.Errorf(\"first character is not '%c'\", userSigil)",
  "}",
  "localpart, domain, found := strings.Cut(id[1:], string(localDomainSeparator))",
  "if !found {",
  "return nil, fmt.Errorf(\"at least one '%c' is expected in the user id\", localDomainSeparator)",
  "}",
  "if _, _, ok := ParseAndValidateServerName(ServerName(domain)); !ok {",
  "return nil, fmt.Errorf(\"domain is invalid\")",
  "}",
  "if len(localpart) < 1 {",
  "return nil, fmt.Errorf(\"local part is empty\")",
  "}",
  "if allowHistoricalIDs {",
  "if !historicallyValidCharacters(localpart) {",
  "return nil, fmt.Errorf(\"local part contains invalid characters from historical set\")",
  "}",
  "} else {",
  "if !validUsernameRegex.MatchString(localpart) {",
  "return nil, fmt.Errorf(\"local part contains invalid characters\")",
  "}",
  "}",
  "userID := &UserID{raw: id, local: localpart, domain: domain}",
  "return userID, nil"
]

def spec_userid_type_UserID : List String := [
  "type UserID struct { raw string local string domain string }"
]

def functions : List String := ["eventV2.go:.CheckFields", "event.go:EventValidationError.Error", "event.go:.SplitID", "event.go:.checkID", "event.go:.checkRoomIDField", "event.go:.checkUntrustedEventJSON", "event.go:.duplicateJSONKey", "event.go:.jsonFieldNames", "event_builder.go:EventBuilder.AddAuthEvents", "event_builder.go:EventBuilder.Build", "event_builder.go:EventBuilder.SetContent", "event_builder.go:EventBuilder.SetUnsigned", "event_builder.go:.eventHashFromEventID", "event_builder.go:.eventReferenceFromEventID", "event_builder.go:.eventReferencesFrom", "event_builder.go:.toEventReference", "event_builder.go:type EventBuilder", "event.go:jsonWalk.duplicateName", "event.go:type EventValidationError", "event.go:type eventFields", "event.go:type jsonWalk", "eventversion.go:RoomVersionImpl.CheckCanonicalJSON", "eventversion.go:RoomVersionImpl.CheckCreateEvent", "eventversion.go:RoomVersionImpl.CheckKnockingAllowed", "eventversion.go:RoomVersionImpl.CheckPowerLevelEvent", "eventversion.go:RoomVersionImpl.CheckRestrictedJoin", "eventversion.go:RoomVersionImpl.CheckRestrictedJoinsAllowed", "eventversion.go:RoomVersionImpl.DomainlessRoomIDs", "eventversion.go:RoomVersionImpl.EventFormat", "eventversion.go:RoomVersionImpl.EventIDFormat", "eventversion.go:RoomVersionImpl.NewEventBuilder", "eventversion.go:RoomVersionImpl.NewEventBuilderFromProtoEvent", "eventversion.go:RoomVersionImpl.NewEventFromTrustedJSON", "eventversion.go:RoomVersionImpl.NewEventFromTrustedJSONWithEventID", "eventversion.go:RoomVersionImpl.NewEventFromUntrustedJSON", "eventversion.go:RoomVersionImpl.ParsePowerLevels", "eventversion.go:RoomVersionImpl.PrivilegedCreators", "eventversion.go:RoomVersionImpl.RedactEventJSON", "eventversion.go:RoomVersionImpl.RestrictedJoinServername", "eventversion.go:RoomVersionImpl.SignatureValidityCheck", "eventversion.go:RoomVersionImpl.Stable", "eventversion.go:RoomVersionImpl.StateResAlgorithm", "eventversion.go:RoomVersionImpl.Version", "eventversion.go:UnsupportedRoomVersionError.Error", "eventversion.go:.GetRoomVersion", "eventversion.go:.KnownRoomVersion", "eventversion.go:.MustGetRoomVersion", "eventversion.go:.NewEventFromHeaderedJSON", "eventversion.go:.RoomVersions", "eventversion.go:.SetRoomVersion", "eventversion.go:.StableRoomVersion", "eventversion.go:.StableRoomVersions", "eventversion.go:type EventFormat", "eventversion.go:type EventIDFormat", "eventversion.go:type IRoomVersion", "eventversion.go:type KnownRoomVersionFunc", "eventversion.go:type RoomVersion", "eventversion.go:type RoomVersionImpl", "eventversion.go:type StateResAlgorithm", "eventversion.go:type UnsupportedRoomVersionError", "spec/base64.go:Base64Bytes.Decode", "spec/base64.go:Base64Bytes.Encode", "spec/base64.go:Base64Bytes.MarshalJSON", "spec/base64.go:Base64Bytes.MarshalYAML", "spec/base64.go:Base64Bytes.Scan", "spec/base64.go:Base64Bytes.UnmarshalJSON", "spec/base64.go:Base64Bytes.UnmarshalYAML", "spec/base64.go:Base64Bytes.Value", "spec/base64.go:type Base64Bytes", "spec/roomid.go:RoomID.Domain", "spec/roomid.go:RoomID.OpaqueID", "spec/roomid.go:RoomID.String", "spec/roomid.go:.NewRoomID", "spec/roomid.go:.parseAndValidateRoomID", "spec/roomid.go:type RoomID", "spec/senderid.go:SenderID.IsPseudoID", "spec/senderid.go:SenderID.IsUserID", "spec/senderid.go:SenderID.RawBytes", "spec/senderid.go:SenderID.ToPseudoID", "spec/senderid.go:SenderID.ToUserID", "spec/senderid.go:.SenderIDFromPseudoIDKey", "spec/senderid.go:.SenderIDFromUserID", "spec/senderid.go:type CreateSenderID", "spec/senderid.go:type SenderID", "spec/senderid.go:type SenderIDForUser", "spec/senderid.go:type StoreSenderIDFromPublicID", "spec/senderid.go:type UserIDForSender", "spec/servername.go:.ParseAndValidateServerName", "spec/servername.go:.splitServerName", "spec/servername.go:type ServerName", "spec/userid.go:UserID.Domain", "spec/userid.go:UserID.Local", "spec/userid.go:UserID.String", "spec/userid.go:.NewUserID", "spec/userid.go:.NewUserIDOrPanic", "spec/userid.go:.historicallyValidCharacters", "spec/userid.go:.parseAndValidateUserID", "spec/userid.go:type UserID"]

end VPins.C17
