/- PINNED copy of the statement skeletons of the Go functions the C17 model mirrors (written by tools/pin.sh
   when the model was last validated against the code). Compared with the regenerated VGen.SkelC17 in VProps/PinC17.lean. -/
namespace VPins.C17

def event_EventValidationError_Error : List String := [
  "func func() string",
  "return e.Message"
]

def event__SplitID : List String := [
  "func func(sigil byte, id string) (local string, domain spec.ServerName, err error)",
  "if len(id) == 0 || id[0] != sigil {",
  "return \"\", \"\", fmt.Errorf(\"gomatrixserverlib: invalid ID %q doesn't start with %q\", id, sigil)",
  "}",
  "parts := strings.SplitN(id, \":\", 2)",
  "if len(parts) != 2 {",
  "return \"\", \"\", fmt.Errorf(\"gomatrixserverlib: invalid ID %q missing ':'\", id)",
  "}",
  "return parts[0][1:], spec.ServerName(parts[1]), nil"
]

def event__checkID : List String := [
  "func func(id, kind string, sigil byte) (err error)",
  "if _, err = domainFromID(id); err != nil {",
  "return",
  "}",
  "if id[0] != sigil {",
  "err = fmt.Errorf(\"gomatrixserverlib: invalid %s ID, wanted first byte to be '%c' got '%c'\", kind, sigil, id[0])",
  "return",
  "}",
  "if l := utf8.RuneCountInString(id); l > maxIDLength {",
  "err = EventValidationError{Code: EventValidationTooLarge, Message: fmt.Sprintf(\"gomatrixserverlib: %s ID is too long, length %d > maximum %d\", kind, l, maxIDLength)}",
  "return",
  "}",
  "if l := len(id); l > maxIDLength {",
  "err = EventValidationError{Code: EventValidationTooLarge, Message: fmt.Sprintf(\"gomatrixserverlib: %s ID is too long, length %d bytes > maximum %d bytes\", kind, l, maxIDLength), Persistable: true}",
  "return",
  "}",
  "return"
]

def event__checkRoomIDField : List String := [
  "func func(id string) error",
  "if err := checkID(id, \"room\", '!'); err != nil {",
  "if verr, ok := err.(EventValidationError); ok && verr.Persistable {",
  "verr.Persistable = false",
  "return verr",
  "}",
  "return err",
  "}",
  "if _, err := spec.NewRoomID(id); err != nil {",
  "return fmt.Errorf(\"gomatrixserverlib: invalid room ID %q: %w\", id, err)",
  "}",
  "return nil"
]

def spec_base64_Base64Bytes_Decode : List String := [
  "func func(str string) error",
  "var err error",
  "if strings.ContainsAny(str, \"-_\") {",
  "*b64, err = base64.RawURLEncoding.DecodeString(str)",
  "} else {",
  "*b64, err = base64.RawStdEncoding.DecodeString(str)",
  "}",
  "return err"
]

def spec_base64_Base64Bytes_Encode : List String := [
  "func func() string",
  "return base64.RawStdEncoding.EncodeToString(b64)"
]

def spec_base64_Base64Bytes_MarshalJSON : List String := [
  "func func() ([]byte, error)",
  "return json.Marshal(b64.Encode())"
]

def spec_base64_Base64Bytes_MarshalYAML : List String := [
  "func func() (interface{}, error)",
  "return b64.Encode(), nil"
]

def spec_base64_Base64Bytes_Scan : List String := [
  "func func(src interface{}) error",
  "switch v := src.(type) { case string: return b64.Decode(v) case []byte: *b64 = append(Base64Bytes{}, v...) return nil case RawJSON: return b64.UnmarshalJSON(v) default: return fmt.Errorf(\"unsupported source type\") }"
]

def spec_base64_Base64Bytes_UnmarshalJSON : List String := [
  "func func(raw []byte) (err error)",
  "var str string",
  "if err = json.Unmarshal(raw, &str); err != nil {",
  "return",
  "}",
  "err = b64.Decode(str)",
  "return"
]

def spec_base64_Base64Bytes_UnmarshalYAML : List String := [
  "func func(unmarshal func(interface{}) error) (err error)",
  "var str string",
  "if err = unmarshal(&str); err != nil {",
  "return",
  "}",
  "err = b64.Decode(str)",
  "return"
]

def spec_base64_Base64Bytes_Value : List String := [
  "func func() (driver.Value, error)",
  "return b64.Encode(), nil"
]

def spec_roomid_RoomID_Domain : List String := [
  "func func() ServerName",
  "if room.isDomainless {",
  "panic(\"Called RoomID.Domain() on domain-less room ID \" + room.String())",
  "}",
  "return ServerName(room.domain)"
]

def spec_roomid_RoomID_OpaqueID : List String := [
  "func func() string",
  "return room.opaqueID"
]

def spec_roomid_RoomID_String : List String := [
  "func func() string",
  "return room.raw"
]

def spec_roomid__NewRoomID : List String := [
  "func func(id string) (*RoomID, error)",
  "return parseAndValidateRoomID(id)"
]

def spec_roomid__parseAndValidateRoomID : List String := [
  "func func(id string) (*RoomID, error)",
  "idLength := len(id)",
  "if idLength < 4 || idLength > 255 {",
  "return nil, fmt.Errorf(\"length %d is not within the bounds 4-255\", idLength)",
  "}",
  "if id[0] != roomSigil {",
  "return nil, fmt.Errorf(\"first character is not '%c'\", roomSigil)",
  "}",
  "hasDomain := strings.ContainsRune(id, localDomainSeparator)",
  "if !hasDomain {",
  "if !domainlessRoomIDRegexp.MatchString(id[1:]) {",
  "return nil, fmt.Errorf(\"domainless room IDs must consist of 43 unpadded urlsafe base64 characters\")",
  "}",
  "return &RoomID{raw: id, opaqueID: id[1:], domain: \"\", isDomainless: true}, nil",
  "}",
  "opaqueID, domain, found := strings.Cut(id[1:], string(localDomainSeparator))",
  "if !found {",
  "return nil, fmt.Errorf(\"at least one '%c' is expected in the room id\", localDomainSeparator)",
  "}",
  "if _, _, ok := ParseAndValidateServerName(ServerName(domain)); !ok {",
  "return nil, fmt.Errorf(\"domain is invalid\")",
  "}",
  "opaqueLength := len(opaqueID)",
  "if opaqueLength < 1 {",
  "return nil, fmt.Errorf(\"opaque id length %d is too short to be valid\", opaqueLength)",
  "}",
  "roomID := &RoomID{raw: id, opaqueID: opaqueID, domain: domain, isDomainless: false}",
  "return roomID, nil"
]

def spec_servername__ParseAndValidateServerName : List String := [
  "func func(serverName ServerName) (host string, port int, valid bool)",
  "if len(serverName) == 0 {",
  "return",
  "}",
  "host, port = splitServerName(serverName)",
  "if len(host) == 0 {",
  "return",
  "}",
  "if host[0] == '[' {",
  "if host[len(host)-1] != ']' {",
  "return",
  "}",
  "ip := host[1 : len(host)-1]",
  "if net.ParseIP(ip) == nil {",
  "return",
  "}",
  "valid = true",
  "return",
  "}",
  "ip := net.ParseIP(host)",
  "if ip != nil && ip.To4() != nil && !strings.Contains(host, \":\") {",
  "valid = true",
  "return",
  "}",
  "for _, r := range host {",
  "if !isDNSNameChar(r) {",
  "return",
  "}",
  "}",
  "valid = true",
  "return"
]

def spec_servername__isDNSNameChar : List String := [
  "func func(r rune) bool",
  "if r >= 'A' && r <= 'Z' {",
  "return true",
  "}",
  "if r >= 'a' && r <= 'z' {",
  "return true",
  "}",
  "if r >= '0' && r <= '9' {",
  "return true",
  "}",
  "if r == '-' || r == '.' {",
  "return true",
  "}",
  "return false"
]

def spec_servername__splitServerName : List String := [
  "func func(serverName ServerName) (string, int)",
  "nameStr := string(serverName)",
  "lastColon := strings.LastIndex(nameStr, \":\")",
  "if lastColon < 0 {",
  "return nameStr, -1",
  "}",
  "portStr := nameStr[lastColon+1:]",
  "port, err := strconv.ParseUint(portStr, 10, 16)",
  "if err != nil {",
  "return nameStr, -1",
  "}",
  "return nameStr[:lastColon], int(port)"
]

def spec_userid_UserID_Domain : List String := [
  "func func() ServerName",
  "return ServerName(user.domain)"
]

def spec_userid_UserID_Local : List String := [
  "func func() string",
  "return user.local"
]

def spec_userid_UserID_String : List String := [
  "func func() string",
  "return user.raw"
]

def spec_userid__NewUserID : List String := [
  "func func(id string, allowHistoricalIDs bool) (*UserID, error)",
  "return parseAndValidateUserID(id, allowHistoricalIDs)"
]

def spec_userid__NewUserIDOrPanic : List String := [
  "func func(id string, allowHistoricalIDs bool) UserID",
  "userID, err := parseAndValidateUserID(id, allowHistoricalIDs)",
  "if err != nil {",
  "panic(fmt.Sprintf(\"NewUserIDOrPanic failed: invalid user ID %s: %s\", id, err.Error()))",
  "}",
  "return *userID"
]

def spec_userid__historicallyValidCharacters : List String := [
  "func func(localpart string) bool",
  "return true"
]

def spec_userid__parseAndValidateUserID : List String := [
  "func func(id string, allowHistoricalIDs bool) (*UserID, error)",
  "idLength := len(id)",
  "if idLength < 4 || idLength > 255 {",
  "return nil, fmt.Errorf(\"length %d is not within the bounds 4-255\", idLength)",
  "}",
  "if id[0] != userSigil {",
  "return nil, fmt.Errorf(\"first character is not '%c'\", userSigil)",
  "}",
  "localpart, domain, found := strings.Cut(id[1:], string(localDomainSeparator))",
  "if !found {",
  "return nil, fmt.Errorf(\"at least one '%c' is expected in the user id\", localDomainSeparator)",
  "}",
  "if _, _, ok := ParseAndValidateServerName(ServerName(domain)); !ok {",
  "return nil, fmt.Errorf(\"domain is invalid\")",
  "}",
  "if len(localpart) < 1 {",
  "return nil, fmt.Errorf(\"local part is empty\")",
  "}",
  "if allowHistoricalIDs {",
  "if !historicallyValidCharacters(localpart) {",
  "return nil, fmt.Errorf(\"local part contains invalid characters from historical set\")",
  "}",
  "} else {",
  "if !validUsernameRegex.MatchString(localpart) {",
  "return nil, fmt.Errorf(\"local part contains invalid characters\")",
  "}",
  "}",
  "userID := &UserID{raw: id, local: localpart, domain: domain}",
  "return userID, nil"
]

def functions : List String := ["event.go:EventValidationError.Error", "event.go:.SplitID", "event.go:.checkID", "event.go:.checkRoomIDField", "spec/base64.go:Base64Bytes.Decode", "spec/base64.go:Base64Bytes.Encode", "spec/base64.go:Base64Bytes.MarshalJSON", "spec/base64.go:Base64Bytes.MarshalYAML", "spec/base64.go:Base64Bytes.Scan", "spec/base64.go:Base64Bytes.UnmarshalJSON", "spec/base64.go:Base64Bytes.UnmarshalYAML", "spec/base64.go:Base64Bytes.Value", "spec/roomid.go:RoomID.Domain", "spec/roomid.go:RoomID.OpaqueID", "spec/roomid.go:RoomID.String", "spec/roomid.go:.NewRoomID", "spec/roomid.go:.parseAndValidateRoomID", "spec/servername.go:.ParseAndValidateServerName", "spec/servername.go:.isDNSNameChar", "spec/servername.go:.splitServerName", "spec/userid.go:UserID.Domain", "spec/userid.go:UserID.Local", "spec/userid.go:UserID.String", "spec/userid.go:.NewUserID", "spec/userid.go:.NewUserIDOrPanic", "spec/userid.go:.historicallyValidCharacters", "spec/userid.go:.parseAndValidateUserID"]

end VPins.C17
