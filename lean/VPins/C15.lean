/- PINNED copy of the statement skeletons of the Go functions the C15 model mirrors (written by tools/pin.sh
   when the model was last validated against the code). Compared with the regenerated VGen.SkelC15 in VProps/PinC15.lean. -/
namespace VPins.C15

def eventV1_eventV1_JoinRule : List String := [
  "func func() (string, error)",
  "if !e.StateKeyEquals(\"\") {",
  "return \"\", fmt.Errorf(\"gomatrixserverlib: JoinRule() event is not a m.room.join_rules event, bad state key\")",
  "}",
  "var content JoinRuleContent",
  "if err := json.Unmarshal(exactMembersOnly(e.eventFields.Content, &content), &content); err != nil {",
  "return \"\", err",
  "}",
  "return content.JoinRule, nil"
]

def eventV1_eventV1_Membership : List String := [
  "func func() (string, error)",
  "var content struct { Membership string `json:\"membership\"` }",
  "if err := json.Unmarshal(exactMembersOnly(e.eventFields.Content, &content), &content); err != nil {",
  "return \"\", err",
  "}",
  "if e.StateKey() == nil {",
  "return \"\", fmt.Errorf(\"gomatrixserverlib: Membersip() event is not a m.room.member event, missing state key\")",
  "}",
  "return content.Membership, nil"
]

def eventV1_eventV1_RoomID : List String := [
  "func func() spec.RoomID",
  "roomID, err := spec.NewRoomID(e.eventFields.RoomID)",
  "if err != nil {",
  "panic(fmt.Errorf(\"RoomID is invalid: %w\", err))",
  "}",
  "return *roomID"
]

def eventV1_eventV1_SenderID : List String := [
  "func func() spec.SenderID",
  "return spec.SenderID(e.eventFields.SenderID)"
]

def eventV1_eventV1_StateKey : List String := [
  "func func() *string",
  "return e.eventFields.StateKey"
]

def eventV1_eventV1_StateKeyEquals : List String := [
  "func func(s string) bool",
  "if e.eventFields.StateKey == nil {",
  "return false",
  "}",
  "return *e.eventFields.StateKey == s"
]

def eventV1_eventV1_Type : List String := [
  "func func() string",
  "return e.eventFields.Type"
]

def eventauth_AuthEvents_AddEvent : List String := [
  "func func(event PDU) error",
  "if event.StateKey() == nil {",
  "return fmt.Errorf(\"AddEvent: event %q does not have a state key\", event.Type())",
  "}",
  "a.roomIDs[event.RoomID().String()] = struct{}{}",
  "a.events[StateKeyTuple{event.Type(), *event.StateKey()}] = event",
  "return nil"
]

def eventauth_AuthEvents_Clear : List String := [
  "func func()",
  "for k := range a.events {",
  "delete(a.events, k)",
  "}",
  "for k := range a.roomIDs {",
  "delete(a.roomIDs, k)",
  "}"
]

def eventauth_AuthEvents_Valid : List String := [
  "func func() bool",
  "return len(a.roomIDs) <= 1"
]

def eventauth_StateNeeded_AuthEventReferences : List String := [
  "func func(provider AuthEventProvider) (refs []string, err error)",
  "refs = make([]string, 0, 5)",
  "var e PDU",
  "if s.Create {",
  "if e, err = provider.Create(); err != nil {",
  "return",
  "} else if e != nil {",
  "refs = append(refs, e.EventID())",
  "}",
  "}",
  "if s.JoinRules {",
  "if e, err = provider.JoinRules(); err != nil {",
  "return",
  "} else if e != nil {",
  "refs = append(refs, e.EventID())",
  "}",
  "}",
  "if s.PowerLevels {",
  "if e, err = provider.PowerLevels(); err != nil {",
  "return",
  "} else if e != nil {",
  "refs = append(refs, e.EventID())",
  "}",
  "}",
  "for _, userID := range s.Member {",
  "if e, err = provider.Member(spec.SenderID(userID)); err != nil {",
  "return",
  "} else if e != nil {",
  "refs = append(refs, e.EventID())",
  "}",
  "}",
  "for _, token := range s.ThirdPartyInvite {",
  "if e, err = provider.ThirdPartyInvite(token); err != nil {",
  "return",
  "} else if e != nil {",
  "refs = append(refs, e.EventID())",
  "}",
  "}",
  "return"
]

def eventauth_StateNeeded_Tuples : List String := [
  "func func() (res []StateKeyTuple)",
  "if s.Create {",
  "res = append(res, StateKeyTuple{spec.MRoomCreate, \"\"})",
  "}",
  "if s.JoinRules {",
  "res = append(res, StateKeyTuple{spec.MRoomJoinRules, \"\"})",
  "}",
  "if s.PowerLevels {",
  "res = append(res, StateKeyTuple{spec.MRoomPowerLevels, \"\"})",
  "}",
  "for _, senderID := range s.Member {",
  "res = append(res, StateKeyTuple{spec.MRoomMember, senderID})",
  "}",
  "for _, token := range s.ThirdPartyInvite {",
  "res = append(res, StateKeyTuple{spec.MRoomThirdPartyInvite, token})",
  "}",
  "return"
]

def eventauth__NewAuthEvents : List String := [
  "func func(events []PDU) (*AuthEvents, error)",
  "a := AuthEvents{events: make(map[StateKeyTuple]PDU, len(events)), roomIDs: make(map[string]struct{})}",
  "for _, e := range events {",
  "if err := a.AddEvent(e); err != nil {",
  "return nil, err",
  "}",
  "}",
  "return &a, nil"
]

def eventauth__StateNeededForProtoEvent : List String := [
  "func func(protoEvent *ProtoEvent) (result StateNeeded, err error)",
  "var content *membershipContent",
  "if protoEvent.Type == spec.MRoomMember {",
  "if err = json.Unmarshal(exactMembersOnly(protoEvent.Content, content), &content); err != nil {",
  "err = errorf(\"unparseable member event content: %s\", err.Error())",
  "return",
  "}",
  "}",
  "err = accumulateStateNeeded(&result, protoEvent.Type, spec.SenderID(protoEvent.SenderID), protoEvent.StateKey, content)",
  "result.Member = util.UniqueStrings(result.Member)",
  "result.ThirdPartyInvite = util.UniqueStrings(result.ThirdPartyInvite)",
  "return"
]

def eventauth__accumulateStateNeeded : List String := [
  "func func(result *StateNeeded, eventType string, sender spec.SenderID, stateKey *string, content *membershipContent) (err error)",
  "switch eventType {",
  "case spec.MRoomCreate:",
  "case spec.MRoomAliases:",
  "result.Create = true",
  "case spec.MRoomMember:",
  "if content == nil {",
  "err = errorf(\"missing memberContent for m.room.member event\")",
  "return",
  "}",
  "result.Create = true",
  "result.PowerLevels = true",
  "result.Member = append(result.Member, string(sender))",
  "if stateKey != nil {",
  "result.Member = append(result.Member, *stateKey)",
  "}",
  "if content.Membership == spec.Join || content.Membership == spec.Knock || content.Membership == spec.Invite {",
  "result.JoinRules = true",
  "}",
  "if content.AuthorizedVia != \"\" {",
  "result.Member = append(result.Member, content.AuthorizedVia)",
  "}",
  "if content.ThirdPartyInvite != nil {",
  "token, tokErr := thirdPartyInviteToken(content.ThirdPartyInvite)",
  "if tokErr != nil {",
  "err = errorf(\"could not get third-party token: %s\", tokErr)",
  "return",
  "}",
  "result.ThirdPartyInvite = append(result.ThirdPartyInvite, token)",
  "}",
  "default:",
  "result.Create = true",
  "result.PowerLevels = true",
  "result.Member = append(result.Member, string(sender))",
  "}",
  "return"
]

def eventcrypto__getMXIDMapping : List String := [
  "func func(e PDU) (*MXIDMapping, error)",
  "var content MemberContent",
  "exact, err := exactFieldsOnly(e.Content(), &content)",
  "if err != nil {",
  "return nil, err",
  "}",
  "err = json.Unmarshal(exact, &content)",
  "if err != nil {",
  "return nil, err",
  "}",
  "if content.MXIDMapping == nil {",
  "return nil, fmt.Errorf(\"missing mxid_mapping\")",
  "}",
  "return content.MXIDMapping, nil"
]

def eventcrypto__validateMXIDMappingSignatures : List String := [
  "func func(ctx context.Context, e PDU, mapping MXIDMapping, verifier JSONVerifier, verImpl IRoomVersion) error",
  "mappingBytes, err := json.Marshal(mapping)",
  "if err != nil {",
  "return err",
  "}",
  "_, userServer, err := SplitID('@', mapping.UserID)",
  "if err != nil {",
  "return fmt.Errorf(\"failed to verify MXIDMapping: %w\", err)",
  "}",
  "if _, ok := mapping.Signatures[userServer]; !ok {",
  "return fmt.Errorf(\"failed to verify MXIDMapping: not signed by %q\", userServer)",
  "}",
  "var toVerify []VerifyJSONRequest",
  "for s := range mapping.Signatures {",
  "v := VerifyJSONRequest{Message: mappingBytes, AtTS: e.OriginServerTS(), ServerName: s, ValidityCheckingFunc: verImpl.SignatureValidityCheck}",
  "toVerify = append(toVerify, v)",
  "}",
  "results, err := verifier.VerifyJSONs(ctx, toVerify)",
  "if err != nil {",
  "return fmt.Errorf(\"failed to verify MXIDMapping: %w\", err)",
  "}",
  "for _, result := range results {",
  "if result.Error != nil {",
  "return fmt.Errorf(\"failed to verify MXIDMapping: %w\", result.Error)",
  "}",
  "}",
  "return err"
]

def handleinvite__HandleInvite : List String := [
  "func func(ctx context.Context, input HandleInviteInput) (PDU, error)",
  "if input.RoomQuerier == nil || input.MembershipQuerier == nil || input.StateQuerier == nil || input.UserIDQuerier == nil {",
  "panic(\"Missing valid Querier\")",
  "}",
  "if input.Verifier == nil {",
  "panic(\"Missing valid JSONVerifier\")",
  "}",
  "if ctx == nil {",
  "panic(\"Missing valid Context\")",
  "}",
  "verImpl, err := GetRoomVersion(input.RoomVersion)",
  "if err != nil {",
  "return nil, spec.UnsupportedRoomVersion(fmt.Sprintf(\"Room version %q is not supported by this server.\", input.RoomVersion))",
  "}",
  "if input.InviteEvent.RoomID().String() != input.RoomID.String() {",
  "return nil, spec.BadJSON(\"The room ID in the request path must match the room ID in the invite event JSON\")",
  "}",
  "if input.InviteEvent.Type() != spec.MRoomMember || input.InviteEvent.StateKey() == nil {",
  "return nil, spec.BadJSON(\"The invite event must be an m.room.member state event\")",
  "}",
  "if membership, merr := input.InviteEvent.Membership(); merr != nil || membership != spec.Invite {",
  "return nil, spec.BadJSON(\"The invite event must have membership \\\"invite\\\"\")",
  "}",
  "invitedSenderID := spec.SenderID(*input.InviteEvent.StateKey())",
  "if invitedSenderID != input.InvitedSenderID && string(invitedSenderID) != input.InvitedUser.String() {",
  "return nil, spec.BadJSON(\"The invite event must have the invited user as state key\")",
  "}",
  "redacted, err := verImpl.RedactEventJSON(input.InviteEvent.JSON())",
  "if err != nil {",
  "return nil, spec.BadJSON(\"The event JSON could not be redacted\")",
  "}",
  "sender, err := input.UserIDQuerier(input.RoomID, input.InviteEvent.SenderID())",
  "if err != nil || sender == nil {",
  "return nil, spec.BadJSON(\"The event JSON contains an invalid sender\")",
  "}",
  "verifyRequests := []VerifyJSONRequest{{ServerName: sender.Domain(), Message: redacted, AtTS: input.InviteEvent.OriginServerTS(), ValidityCheckingFunc: StrictValiditySignatureCheck}}",
  "verifyResults, err := input.Verifier.VerifyJSONs(ctx, verifyRequests)",
  "if err != nil {",
  "util.GetLogger(ctx).WithError(err).Error(\"keys.VerifyJSONs failed\")",
  "return nil, spec.InternalServerError{}",
  "}",
  "if verifyResults[0].Error != nil {",
  "return nil, spec.Forbidden(\"The invite must be signed by the server it originated on\")",
  "}",
  "signedEvent := input.InviteEvent.Sign(string(input.InvitedUser.Domain()), input.KeyID, input.PrivateKey)",
  "return handleInviteCommonChecks(ctx, input, signedEvent, *sender, invitedSenderID)"
]

def handleinvite__HandleInviteV3 : List String := [
  "func func(ctx context.Context, input HandleInviteV3Input) (PDU, error)",
  "if input.RoomQuerier == nil || input.MembershipQuerier == nil || input.StateQuerier == nil || input.UserIDQuerier == nil {",
  "panic(\"Missing valid Querier\")",
  "}",
  "if input.Verifier == nil {",
  "panic(\"Missing valid JSONVerifier\")",
  "}",
  "if ctx == nil {",
  "panic(\"Missing valid Context\")",
  "}",
  "verImpl, err := GetRoomVersion(input.RoomVersion)",
  "if err != nil {",
  "return nil, spec.UnsupportedRoomVersion(fmt.Sprintf(\"Room version %q is not supported by this server.\", input.RoomVersion))",
  "}",
  "if input.InviteProtoEvent.RoomID != input.RoomID.String() {",
  "return nil, spec.BadJSON(\"The room ID in the request path must match the room ID in the invite event JSON\")",
  "}",
  "if input.InviteProtoEvent.Type != spec.MRoomMember {",
  "return nil, spec.BadJSON(\"The invite event must be an m.room.member state event\")",
  "}",
  "var protoContent struct { Membership string `json:\"membership\"` }",
  "if err = json.Unmarshal(exactMembersOnly(input.InviteProtoEvent.Content, &protoContent), &protoContent); err != nil || protoContent.Membership != spec.Invite {",
  "return nil, spec.BadJSON(\"The invite event must have membership \\\"invite\\\"\")",
  "}",
  "invitedSenderID, signingKey, err := input.GetOrCreateSenderID(ctx, input.InvitedUser, input.RoomID, string(input.RoomVersion))",
  "if err != nil {",
  "util.GetLogger(ctx).WithError(err).Error(\"GetOrCreateSenderID failed\")",
  "return nil, spec.InternalServerError{}",
  "}",
  "input.InviteProtoEvent.StateKey = (*string)(&invitedSenderID)",
  "keyID := KeyID(\"ed25519:1\")",
  "origin := spec.ServerName(invitedSenderID)",
  "fullEventBuilder := verImpl.NewEventBuilderFromProtoEvent(&input.InviteProtoEvent)",
  "fullEvent, err := fullEventBuilder.Build(time.Now(), origin, keyID, signingKey)",
  "if err != nil {",
  "util.GetLogger(ctx).WithError(err).Error(\"failed building invite event\")",
  "return nil, spec.InternalServerError{}",
  "}",
  "return handleInviteCommonChecks(ctx, input.HandleInviteInput, fullEvent, spec.UserID{}, invitedSenderID)"
]

def handleinvite__handleInviteCommonChecks : List String := [
  "func func(ctx context.Context, input HandleInviteInput, event PDU, sender spec.UserID, invitedSenderID spec.SenderID) (PDU, error)",
  "isKnownRoom, err := input.RoomQuerier.IsKnownRoom(ctx, input.RoomID)",
  "if err != nil {",
  "util.GetLogger(ctx).WithError(err).Error(\"failed querying known room\")",
  "return nil, spec.InternalServerError{}",
  "}",
  "logger := createInviteLogger(ctx, input.RoomID, sender, input.InvitedUser, event.EventID())",
  "logger.WithFields(logrus.Fields{\"room_version\": event.Version(), \"room_info_exists\": isKnownRoom}).Debug(\"processing incoming federation invite event\")",
  "inviteState := input.StrippedState",
  "if len(inviteState) == 0 {",
  "inviteState, err = GenerateStrippedState(ctx, input.RoomID, input.StateQuerier)",
  "if err != nil {",
  "util.GetLogger(ctx).WithError(err).Error(\"failed generating stripped state\")",
  "return nil, spec.InternalServerError{}",
  "}",
  "}",
  "if isKnownRoom {",
  "if len(inviteState) == 0 {",
  "util.GetLogger(ctx).WithError(err).Error(\"failed generating stripped state for known room\")",
  "return nil, spec.InternalServerError{}",
  "}",
  "err := abortIfAlreadyJoined(ctx, input.RoomID, invitedSenderID, input.MembershipQuerier)",
  "if err != nil {",
  "return nil, err",
  "}",
  "}",
  "err = setUnsignedFieldForInvite(event, inviteState)",
  "if err != nil {",
  "return nil, err",
  "}",
  "return event, nil"
]

def handleinvite_type_HandleInviteInput : List String := [
  "type HandleInviteInput struct { RoomID spec.RoomID RoomVersion RoomVersion InvitedUser spec.UserID InvitedSenderID spec.SenderID InviteEvent PDU StrippedState []InviteStrippedState KeyID KeyID PrivateKey ed25519.PrivateKey Verifier JSONVerifier RoomQuerier RoomQuerier MembershipQuerier MembershipQuerier StateQuerier StateQuerier UserIDQuerier spec.UserIDForSender }"
]

def handleinvite_type_HandleInviteV3Input : List String := [
  "type HandleInviteV3Input struct { HandleInviteInput InviteProtoEvent ProtoEvent GetOrCreateSenderID spec.CreateSenderID }"
]

def handlejoin__HandleMakeJoin : List String := [
  "func func(input HandleMakeJoinInput) (*HandleMakeJoinResponse, error)",
  "if input.RoomQuerier == nil || input.UserIDQuerier == nil {",
  "panic(\"Missing valid Querier\")",
  "}",
  "if input.Context == nil {",
  "panic(\"Missing valid Context\")",
  "}",
  "if !roomVersionSupported(input.RoomVersion, input.RemoteVersions) {",
  "return nil, spec.IncompatibleRoomVersion(string(input.RoomVersion))",
  "}",
  "if input.UserID.Domain() != input.RequestOrigin {",
  "return nil, spec.Forbidden(fmt.Sprintf(\"The join must be sent by the server of the user. Origin %s != %s\", input.RequestOrigin, input.UserID.Domain()))",
  "}",
  "if !input.LocalServerInRoom {",
  "return nil, spec.NotFound(fmt.Sprintf(\"Local server not currently joined to room: %s\", input.RoomID.String()))",
  "}",
  "verImpl := MustGetRoomVersion(input.RoomVersion)",
  "authorisedVia, err := verImpl.CheckRestrictedJoin(input.Context, input.LocalServerName, input.RoomQuerier, input.RoomID, input.SenderID)",
  "switch e := err.(type) { case nil: case spec.MatrixError: util.GetLogger(input.Context).WithError(err).Error(\"checkRestrictedJoin failed\") return nil, e default: return nil, spec.InternalServerError{Err: \"checkRestrictedJoin failed\"} }",
  "rawSenderID := string(input.SenderID)",
  "proto := ProtoEvent{SenderID: string(input.SenderID), RoomID: input.RoomID.String(), Type: spec.MRoomMember, StateKey: &rawSenderID, Version: verImpl}",
  "content := MemberContent{Membership: spec.Join, AuthorisedVia: authorisedVia}",
  "if err = proto.SetContent(content); err != nil {",
  "return nil, spec.InternalServerError{Err: \"builder.SetContent failed\"}",
  "}",
  "event, state, templateErr := input.BuildEventTemplate(&proto)",
  "if templateErr != nil {",
  "return nil, templateErr",
  "}",
  "if event == nil {",
  "return nil, spec.InternalServerError{Err: \"template builder returned nil event\"}",
  "}",
  "if state == nil {",
  "return nil, spec.InternalServerError{Err: \"template builder returned nil event state\"}",
  "}",
  "if event.Type() != spec.MRoomMember {",
  "return nil, spec.InternalServerError{Err: fmt.Sprintf(\"expected join event from template builder. got: %s\", event.Type())}",
  "}",
  "provider, err := NewAuthEvents(state)",
  "if err != nil {",
  "return nil, spec.Forbidden(err.Error())",
  "}",
  "if err = Allowed(event, provider, input.UserIDQuerier); err != nil {",
  "return nil, spec.Forbidden(err.Error())",
  "}",
  "switch input.RoomVersion {",
  "case RoomVersionV1, RoomVersionV2:",
  "proto.AuthEvents = toEventReference(event.AuthEventIDs())",
  "proto.PrevEvents = toEventReference(event.PrevEventIDs())",
  "}",
  "makeJoinResponse := HandleMakeJoinResponse{JoinTemplateEvent: proto, RoomVersion: input.RoomVersion}",
  "return &makeJoinResponse, nil"
]

def handlejoin__HandleSendJoin : List String := [
  "func func(input HandleSendJoinInput) (*HandleSendJoinResponse, error)",
  "if input.Verifier == nil {",
  "panic(\"Missing valid JSONVerifier\")",
  "}",
  "if input.MembershipQuerier == nil {",
  "panic(\"Missing valid StateQuerier\")",
  "}",
  "if input.UserIDQuerier == nil {",
  "panic(\"Missing valid UserIDQuerier\")",
  "}",
  "if input.Context == nil {",
  "panic(\"Missing valid Context\")",
  "}",
  "if input.StoreSenderIDFromPublicID == nil {",
  "panic(\"Missing valid StoreSenderID\")",
  "}",
  "verImpl, err := GetRoomVersion(input.RoomVersion)",
  "if err != nil {",
  "return nil, spec.UnsupportedRoomVersion(fmt.Sprintf(\"QueryRoomVersionForRoom returned unknown room version: %s\", input.RoomVersion))",
  "}",
  "event, err := verImpl.NewEventFromUntrustedJSON(input.JoinEvent)",
  "if err != nil {",
  "return nil, spec.BadJSON(\"The request body could not be decoded into valid JSON: \" + err.Error())",
  "}",
  "if event.StateKey() == nil || event.StateKeyEquals(\"\") {",
  "return nil, spec.BadJSON(\"No state key was provided in the join event.\")",
  "}",
  "if !event.StateKeyEquals(string(event.SenderID())) {",
  "return nil, spec.BadJSON(\"Event state key must match the event sender.\")",
  "}",
  "if input.RoomVersion == RoomVersionPseudoIDs {",
  "mapping, err := getMXIDMapping(event)",
  "if err != nil {",
  "return nil, spec.BadJSON(err.Error())",
  "}",
  "if err = validateMXIDMappingSignatures(input.Context, event, *mapping, input.Verifier, verImpl); err != nil {",
  "return nil, spec.Forbidden(err.Error())",
  "}",
  "if err = input.StoreSenderIDFromPublicID(input.Context, mapping.UserRoomKey, mapping.UserID, input.RoomID); err != nil {",
  "return nil, err",
  "}",
  "}",
  "sender, err := input.UserIDQuerier(input.RoomID, event.SenderID())",
  "if err != nil || sender == nil {",
  "return nil, spec.Forbidden(\"The sender of the join is invalid\")",
  "} else if sender.Domain() != input.RequestOrigin {",
  "return nil, spec.Forbidden(\"The sender does not match the server that originated the request\")",
  "}",
  "toVerify := sender.Domain()",
  "if input.RoomVersion == RoomVersionPseudoIDs {",
  "input.Verifier = JSONVerifierSelf{}",
  "toVerify = spec.ServerName(event.SenderID())",
  "}",
  "if event.RoomID().String() != input.RoomID.String() {",
  "return nil, spec.BadJSON(fmt.Sprintf(\"The room ID in the request path (%q) must match the room ID in the join event JSON (%q)\", input.RoomID.String(), event.RoomID().String()))",
  "}",
  "if event.EventID() != input.EventID {",
  "return nil, spec.BadJSON(fmt.Sprintf(\"The event ID in the request path (%q) must match the event ID in the join event JSON (%q)\", input.EventID, event.EventID()))",
  "}",
  "if event.Type() != spec.MRoomMember {",
  "return nil, spec.BadJSON(\"The event must be an m.room.member event\")",
  "}",
  "membership, err := event.Membership()",
  "if err != nil {",
  "return nil, spec.BadJSON(\"missing content.membership key\")",
  "}",
  "if membership != spec.Join {",
  "return nil, spec.BadJSON(\"membership must be 'join'\")",
  "}",
  "redacted, err := verImpl.RedactEventJSON(event.JSON())",
  "if err != nil {",
  "util.GetLogger(input.Context).WithError(err).Error(\"RedactEventJSON failed\")",
  "return nil, spec.BadJSON(\"The event JSON could not be redacted\")",
  "}",
  "verifyRequests := []VerifyJSONRequest{{ServerName: toVerify, Message: redacted, AtTS: event.OriginServerTS(), ValidityCheckingFunc: StrictValiditySignatureCheck}}",
  "verifyResults, err := input.Verifier.VerifyJSONs(input.Context, verifyRequests)",
  "if err != nil {",
  "util.GetLogger(input.Context).WithError(err).Error(\"keys.VerifyJSONs failed\")",
  "return nil, spec.InternalServerError{}",
  "}",
  "if verifyResults[0].Error != nil {",
  "return nil, spec.Forbidden(\"Signature check failed: \" + verifyResults[0].Error.Error())",
  "}",
  "existingMembership, err := input.MembershipQuerier.CurrentMembership(input.Context, input.RoomID, event.SenderID())",
  "if err != nil {",
  "return nil, spec.InternalServerError{Err: \"internal server error\"}",
  "}",
  "alreadyJoined := (existingMembership == spec.Join)",
  "isBanned := (existingMembership == spec.Ban)",
  "if isBanned {",
  "return nil, spec.Forbidden(\"user is banned\")",
  "}",
  "var memberContent MemberContent",
  "if err := json.Unmarshal(exactMembersOnly(event.Content(), &memberContent), &memberContent); err != nil {",
  "return nil, spec.BadJSON(err.Error())",
  "}",
  "if memberContent.AuthorisedVia != \"\" {",
  "authorisedVia, err := spec.NewUserID(memberContent.AuthorisedVia, true)",
  "if err != nil {",
  "util.GetLogger(input.Context).WithError(err).Errorf(\"The authorising username %q is invalid.\", memberContent.AuthorisedVia)",
  "return nil, spec.BadJSON(fmt.Sprintf(\"The authorising username %q is invalid.\", memberContent.AuthorisedVia))",
  "}",
  "if authorisedVia.Domain() != input.LocalServerName {",
  "util.GetLogger(input.Context).Errorf(\"The authorising username %q does not belong to this server.\", authorisedVia.String())",
  "return nil, spec.BadJSON(fmt.Sprintf(\"The authorising username %q does not belong to this server.\", authorisedVia.String()))",
  "}",
  "}",
  "signed := event.Sign(string(input.LocalServerName), input.KeyID, input.PrivateKey)",
  "return &HandleSendJoinResponse{AlreadyJoined: alreadyJoined, JoinEvent: signed}, nil"
]

def handlejoin__checkRestrictedJoin : List String := [
  "func func(ctx context.Context, localServerName spec.ServerName, roomQuerier RestrictedRoomJoinQuerier, roomID spec.RoomID, senderID spec.SenderID, privilegedCreators bool) (string, error)",
  "joinRulesEvent, err := roomQuerier.CurrentStateEvent(ctx, roomID, spec.MRoomJoinRules, \"\")",
  "if err != nil {",
  "return \"\", fmt.Errorf(\"roomQuerier.StateEvent: %w\", err)",
  "}",
  "if joinRulesEvent == nil {",
  "return \"\", nil",
  "}",
  "var joinRules JoinRuleContent",
  "if err = json.Unmarshal(exactMembersOnly(joinRulesEvent.Content(), &joinRules), &joinRules); err != nil {",
  "return \"\", fmt.Errorf(\"json.Unmarshal: %w\", err)",
  "}",
  "restricted := joinRules.JoinRule == spec.Restricted || joinRules.JoinRule == spec.KnockRestricted",
  "if !restricted {",
  "return \"\", nil",
  "}",
  "if pending, err := roomQuerier.InvitePending(ctx, roomID, senderID); err != nil {",
  "return \"\", fmt.Errorf(\"helpers.IsInvitePending: %w\", err)",
  "} else if pending {",
  "return \"\", nil",
  "}",
  "powerLevelsEvent, err := roomQuerier.CurrentStateEvent(ctx, roomID, spec.MRoomPowerLevels, \"\")",
  "if err != nil {",
  "return \"\", fmt.Errorf(\"roomQuerier.StateEvent(PL): %w\", err)",
  "}",
  "if powerLevelsEvent == nil {",
  "return \"\", fmt.Errorf(\"missing power levels event\")",
  "}",
  "powerLevels, err := powerLevelsEvent.PowerLevels()",
  "if err != nil {",
  "return \"\", fmt.Errorf(\"unable to get powerlevels: %w\", err)",
  "}",
  "var creators []string",
  "if privilegedCreators {",
  "createEvent, err := roomQuerier.CurrentStateEvent(ctx, roomID, spec.MRoomCreate, \"\")",
  "if err != nil {",
  "return \"\", fmt.Errorf(\"roomQuerier.StateEvent(Create): %w\", err)",
  "}",
  "if createEvent == nil {",
  "return \"\", fmt.Errorf(\"missing create event\")",
  "}",
  "creators = CreatorsFromCreateEvent(createEvent)",
  "}",
  "resident := true",
  "for _, rule := range joinRules.Allow {",
  "if rule.Type != spec.MRoomMembership {",
  "continue",
  "}",
  "roomID, err := spec.NewRoomID(rule.RoomID)",
  "if err != nil {",
  "continue",
  "}",
  "targetRoomInfo, err := roomQuerier.RestrictedRoomJoinInfo(ctx, *roomID, senderID, localServerName)",
  "if err != nil || targetRoomInfo == nil || !targetRoomInfo.LocalServerInRoom {",
  "resident = false",
  "continue",
  "}",
  "if !targetRoomInfo.UserJoinedToRoom {",
  "continue",
  "}",
  "if err != nil || len(targetRoomInfo.JoinedUsers) == 0 {",
  "continue",
  "}",
  "for _, memberEvent := range targetRoomInfo.JoinedUsers {",
  "if memberEvent.Type() != spec.MRoomMember || memberEvent.StateKey() == nil {",
  "continue",
  "}",
  "userID := *memberEvent.StateKey()",
  "if slices.Contains(creators, userID) {",
  "return userID, nil",
  "}",
  "if powerLevels.UserLevel(spec.SenderID(userID)) < powerLevels.Invite {",
  "continue",
  "}",
  "return userID, nil",
  "}",
  "}",
  "if !resident {",
  "return \"\", spec.UnableToAuthoriseJoin(\"This server cannot authorise the join.\")",
  "}",
  "return \"\", spec.Forbidden(\"You are not joined to any matching rooms.\")"
]

def handlejoin__noCheckRestrictedJoin : List String := [
  "func func(context.Context, spec.ServerName, RestrictedRoomJoinQuerier, spec.RoomID, spec.SenderID, bool) (string, error)",
  "return \"\", nil"
]

def handlejoin__roomVersionSupported : List String := [
  "func func(roomVersion RoomVersion, supportedVersions []RoomVersion) bool",
  "remoteSupportsVersion := false",
  "for _, v := range supportedVersions {",
  "if v == roomVersion {",
  "remoteSupportsVersion = true",
  "break",
  "}",
  "}",
  "return remoteSupportsVersion"
]

def handlejoin_type_HandleMakeJoinInput : List String := [
  "type HandleMakeJoinInput struct { Context context.Context UserID spec.UserID SenderID spec.SenderID RoomID spec.RoomID RoomVersion RoomVersion RemoteVersions []RoomVersion RequestOrigin spec.ServerName LocalServerName spec.ServerName LocalServerInRoom bool RoomQuerier RestrictedRoomJoinQuerier UserIDQuerier spec.UserIDForSender BuildEventTemplate func(*ProtoEvent) (PDU, []PDU, error) }"
]

def handlejoin_type_HandleMakeJoinResponse : List String := [
  "type HandleMakeJoinResponse struct { JoinTemplateEvent ProtoEvent RoomVersion RoomVersion }"
]

def handlejoin_type_HandleSendJoinInput : List String := [
  "type HandleSendJoinInput struct { Context context.Context RoomID spec.RoomID EventID string JoinEvent spec.RawJSON RoomVersion RoomVersion RequestOrigin spec.ServerName LocalServerName spec.ServerName KeyID KeyID PrivateKey ed25519.PrivateKey Verifier JSONVerifier MembershipQuerier MembershipQuerier UserIDQuerier spec.UserIDForSender StoreSenderIDFromPublicID spec.StoreSenderIDFromPublicID }"
]

def handlejoin_type_HandleSendJoinResponse : List String := [
  "type HandleSendJoinResponse struct { AlreadyJoined bool JoinEvent PDU }"
]

def handleleave__HandleMakeLeave : List String := [
  "func func(input HandleMakeLeaveInput) (*HandleMakeLeaveResponse, error)",
  "if input.UserID.Domain() != input.RequestOrigin {",
  "return nil, spec.Forbidden(fmt.Sprintf(\"The leave must be sent by the server of the user. Origin %s != %s\", input.RequestOrigin, input.UserID.Domain()))",
  "}",
  "if !input.LocalServerInRoom {",
  "return nil, spec.NotFound(fmt.Sprintf(\"Local server not currently joined to room: %s\", input.RoomID.String()))",
  "}",
  "rawSenderID := string(input.SenderID)",
  "proto := ProtoEvent{SenderID: string(input.SenderID), RoomID: input.RoomID.String(), Type: spec.MRoomMember, StateKey: &rawSenderID}",
  "content := MemberContent{Membership: spec.Leave}",
  "if err := proto.SetContent(content); err != nil {",
  "return nil, spec.InternalServerError{Err: \"builder.SetContent failed\"}",
  "}",
  "event, stateEvents, templateErr := input.BuildEventTemplate(&proto)",
  "if templateErr != nil {",
  "return nil, templateErr",
  "}",
  "if event == nil {",
  "return nil, spec.InternalServerError{Err: \"template builder returned nil event\"}",
  "}",
  "if stateEvents == nil {",
  "return nil, spec.InternalServerError{Err: \"template builder returned nil event state\"}",
  "}",
  "if event.Type() != spec.MRoomMember {",
  "return nil, spec.InternalServerError{Err: fmt.Sprintf(\"expected leave event from template builder. got: %s\", event.Type())}",
  "}",
  "provider, err := NewAuthEvents(stateEvents)",
  "if err != nil {",
  "return nil, spec.Forbidden(err.Error())",
  "}",
  "if err = Allowed(event, provider, input.UserIDQuerier); err != nil {",
  "return nil, spec.Forbidden(err.Error())",
  "}",
  "switch event.Version() {",
  "case RoomVersionV1, RoomVersionV2:",
  "proto.PrevEvents = toEventReference(event.PrevEventIDs())",
  "proto.AuthEvents = toEventReference(event.AuthEventIDs())",
  "}",
  "makeLeaveResponse := HandleMakeLeaveResponse{LeaveTemplateEvent: proto, RoomVersion: input.RoomVersion}",
  "return &makeLeaveResponse, nil"
]

def handleleave_type_HandleMakeLeaveInput : List String := [
  "type HandleMakeLeaveInput struct { UserID spec.UserID SenderID spec.SenderID RoomID spec.RoomID RoomVersion RoomVersion RequestOrigin spec.ServerName LocalServerName spec.ServerName LocalServerInRoom bool UserIDQuerier spec.UserIDForSender BuildEventTemplate func(*ProtoEvent) (PDU, []PDU, error) }"
]

def handleleave_type_HandleMakeLeaveResponse : List String := [
  "type HandleMakeLeaveResponse struct { LeaveTemplateEvent ProtoEvent RoomVersion RoomVersion }"
]

def invite_InviteStrippedState_Content : List String := [
  "func func() spec.RawJSON",
  "return i.fields.Content"
]

def invite_InviteStrippedState_MarshalJSON : List String := [
  "func func() ([]byte, error)",
  "return json.Marshal(i.fields)"
]

def invite_InviteStrippedState_Sender : List String := [
  "func func() string",
  "return i.fields.SenderID"
]

def invite_InviteStrippedState_StateKey : List String := [
  "func func() *string",
  "return i.fields.StateKey"
]

def invite_InviteStrippedState_Type : List String := [
  "func func() string",
  "return i.fields.Type"
]

def invite_InviteStrippedState_UnmarshalJSON : List String := [
  "func func(data []byte) error",
  "return json.Unmarshal(data, &i.fields)"
]

def invite__GenerateStrippedState : List String := [
  "func func(ctx context.Context, roomID spec.RoomID, stateQuerier StateQuerier) ([]InviteStrippedState, error)",
  "stateWanted := []StateKeyTuple{}",
  "for _, t := range []string{spec.MRoomName, spec.MRoomCanonicalAlias, spec.MRoomJoinRules, spec.MRoomAvatar, spec.MRoomEncryption, spec.MRoomCreate} {",
  "stateWanted = append(stateWanted, StateKeyTuple{EventType: t, StateKey: \"\"})",
  "}",
  "stateEvents, err := stateQuerier.GetState(ctx, roomID, stateWanted)",
  "if err != nil {",
  "return []InviteStrippedState{}, err",
  "}",
  "if stateEvents != nil {",
  "inviteState := []InviteStrippedState{}",
  "for _, event := range stateEvents {",
  "inviteState = append(inviteState, NewInviteStrippedState(event))",
  "}",
  "return inviteState, nil",
  "}",
  "return []InviteStrippedState{}, nil"
]

def invite__NewInviteStrippedState : List String := [
  "func func(event PDU) (ss InviteStrippedState)",
  "ss.fields.Content = event.Content()",
  "ss.fields.StateKey = event.StateKey()",
  "ss.fields.Type = event.Type()",
  "ss.fields.SenderID = string(event.SenderID())",
  "return"
]

def invite__abortIfAlreadyJoined : List String := [
  "func func(ctx context.Context, roomID spec.RoomID, invitedUser spec.SenderID, membershipQuerier MembershipQuerier) error",
  "membership, err := membershipQuerier.CurrentMembership(ctx, roomID, invitedUser)",
  "if err != nil {",
  "util.GetLogger(ctx).WithError(err).Error(\"failed getting user membership\")",
  "return spec.InternalServerError{}",
  "}",
  "isAlreadyJoined := (membership == spec.Join)",
  "if isAlreadyJoined {",
  "util.GetLogger(ctx).Error(\"user is already joined to room\")",
  "return spec.Forbidden(\"user is already joined to room\")",
  "}",
  "return nil"
]

def invite__createInviteLogger : List String := [
  "func func(ctx context.Context, roomID spec.RoomID, inviter spec.UserID, invitee spec.UserID, eventID string) *logrus.Entry",
  "return util.GetLogger(ctx).WithFields(map[string]interface{}{\"inviter\": inviter.String(), \"invitee\": invitee.String(), \"room_id\": roomID.String(), \"event_id\": eventID})"
]

def invite__setUnsignedFieldForInvite : List String := [
  "func func(event PDU, inviteState []InviteStrippedState) error",
  "if len(inviteState) == 0 {",
  "if err := event.SetUnsignedField(\"invite_room_state\", struct{}{}); err != nil {",
  "return fmt.Errorf(\"event.SetUnsignedField: %w\", err)",
  "}",
  "} else {",
  "if err := event.SetUnsignedField(\"invite_room_state\", inviteState); err != nil {",
  "return fmt.Errorf(\"event.SetUnsignedField: %w\", err)",
  "}",
  "}",
  "return nil"
]

def invite__setUnsignedFieldForProtoInvite : List String := [
  "func func(event *ProtoEvent, inviteState []InviteStrippedState) error",
  "if len(inviteState) == 0 {",
  "if err := event.SetUnsigned(map[string]interface{}{\"invite_room_state\": struct{}{}}); err != nil {",
  "return fmt.Errorf(\"event.SetUnsignedField: %w\", err)",
  "}",
  "} else {",
  "if err := event.SetUnsigned(map[string]interface{}{\"invite_room_state\": inviteState}); err != nil {",
  "return fmt.Errorf(\"event.SetUnsignedField: %w\", err)",
  "}",
  "}",
  "return nil"
]

def invite_type_FederatedInviteClient : List String := [
  "type FederatedInviteClient interface { SendInvite(ctx context.Context, event PDU, strippedState []InviteStrippedState) (PDU, error) SendInviteV3(ctx context.Context, event ProtoEvent, userID spec.UserID, roomVersion RoomVersion, strippedState []InviteStrippedState) (PDU, error) }"
]

def invite_type_InviteStrippedState : List String := [
  "type InviteStrippedState struct { fields struct { Content spec.RawJSON `json:\"content\"` StateKey *string `json:\"state_key\"` Type string `json:\"type\"` SenderID string `json:\"sender\"` } }"
]

def invite_type_LatestEvents : List String := [
  "type LatestEvents struct { RoomExists bool StateEvents []PDU PrevEventIDs []string Depth int64 }"
]

def invite_type_RoomQuerier : List String := [
  "type RoomQuerier interface { IsKnownRoom(ctx context.Context, roomID spec.RoomID) (bool, error) }"
]

def invite_type_StateQuerier : List String := [
  "type StateQuerier interface { GetAuthEvents(ctx context.Context, event PDU) (AuthEventProvider, error) GetState(ctx context.Context, roomID spec.RoomID, stateWanted []StateKeyTuple) ([]PDU, error) }"
]

def performinvite__PerformInvite : List String := [
  "func func(ctx context.Context, input PerformInviteInput, fedClient FederatedInviteClient) (PDU, error)",
  "if input.MembershipQuerier == nil || input.StateQuerier == nil || input.UserIDQuerier == nil || input.SenderIDQuerier == nil || input.SenderIDCreator == nil || input.EventQuerier == nil {",
  "panic(\"Missing valid Querier\")",
  "}",
  "if ctx == nil {",
  "panic(\"Missing valid Context\")",
  "}",
  "logger := createInviteLogger(ctx, input.RoomID, input.Inviter, input.Invitee, \"\")",
  "logger.WithFields(logrus.Fields{\"room_version\": input.RoomVersion, \"target_local\": input.IsTargetLocal, \"origin_local\": true}).Debug(\"processing invite event\")",
  "inviteState := input.StrippedState",
  "if len(inviteState) == 0 {",
  "var err error",
  "inviteState, err = GenerateStrippedState(ctx, input.RoomID, input.StateQuerier)",
  "if err != nil {",
  "logger.WithError(err).Error(\"failed generating stripped state\")",
  "return nil, spec.InternalServerError{}",
  "}",
  "}",
  "err := setUnsignedFieldForProtoInvite(&input.EventTemplate, inviteState)",
  "if err != nil {",
  "return nil, err",
  "}",
  "verImpl, err := GetRoomVersion(input.RoomVersion)",
  "if err != nil {",
  "return nil, spec.UnsupportedRoomVersion(fmt.Sprintf(\"Room version %q is not supported by this server.\", input.RoomVersion))",
  "}",
  "input.EventTemplate.Version = verImpl",
  "invitedSenderID, err := input.SenderIDQuerier(input.RoomID, input.Invitee)",
  "if err != nil {",
  "return nil, err",
  "}",
  "if invitedSenderID != nil {",
  "err = abortIfAlreadyJoined(ctx, input.RoomID, *invitedSenderID, input.MembershipQuerier)",
  "if err != nil {",
  "return nil, err",
  "}",
  "}",
  "stateNeeded, err := StateNeededForProtoEvent(&input.EventTemplate)",
  "if err != nil {",
  "return nil, err",
  "}",
  "if len(stateNeeded.Tuples()) == 0 {",
  "return nil, spec.InternalServerError{}",
  "}",
  "if stateNeeded.Create && verImpl.DomainlessRoomIDs() {",
  "stateNeeded.Create = false",
  "}",
  "latestEvents, err := input.EventQuerier(ctx, input.RoomID, stateNeeded.Tuples())",
  "if err != nil {",
  "return nil, err",
  "}",
  "if !latestEvents.RoomExists {",
  "return nil, spec.InternalServerError{}",
  "}",
  "input.EventTemplate.Depth = latestEvents.Depth",
  "authEvents, _ := NewAuthEvents(nil)",
  "for _, event := range latestEvents.StateEvents {",
  "err := authEvents.AddEvent(event)",
  "if err != nil {",
  "return nil, fmt.Errorf(\"authEvents.AddEvent: %w\", err)",
  "}",
  "}",
  "refs, err := stateNeeded.AuthEventReferences(authEvents)",
  "if err != nil {",
  "return nil, fmt.Errorf(\"eventsNeeded.AuthEventReferences: %w\", err)",
  "}",
  "input.EventTemplate.AuthEvents, input.EventTemplate.PrevEvents = truncateAuthAndPrevEvents(refs, latestEvents.PrevEventIDs)",
  "checkEventAllowed := func(inviteEvent PDU) error { authEventProvider, err := input.StateQuerier.GetAuthEvents(ctx, inviteEvent) if err != nil { logger.WithError(err).WithField(\"event_id\", inviteEvent.EventID()).WithField(\"auth_event_ids\", inviteEvent.AuthEventIDs()).Error(\"ProcessInvite.getAuthEvents failed for event\") return spec.Forbidden(err.Error()) } if err = Allowed(inviteEvent, authEventProvider, input.UserIDQuerier); err != nil { logger.WithError(err).WithField(\"event_id\", inviteEvent.EventID()).WithField(\"auth_event_ids\", inviteEvent.AuthEventIDs()).Error(\"ProcessInvite: event not allowed\") return spec.Forbidden(err.Error()) } return nil }",
  "var inviteEvent PDU",
  "switch input.RoomVersion {",
  "case RoomVersionPseudoIDs:",
  "keyID := KeyID(\"ed25519:1\")",
  "origin := spec.ServerName(spec.SenderIDFromPseudoIDKey(input.SigningKey))",
  "if input.IsTargetLocal {",
  "inviteeSenderID, inviteeSigningKey, err := input.SenderIDCreator(ctx, input.Invitee, input.RoomID, string(input.RoomVersion))",
  "if err != nil {",
  "return nil, err",
  "}",
  "inviteeSenderIDString := string(inviteeSenderID)",
  "input.EventTemplate.StateKey = &inviteeSenderIDString",
  "fullEventBuilder := verImpl.NewEventBuilderFromProtoEvent(&input.EventTemplate)",
  "inviteEvent, err = fullEventBuilder.Build(input.EventTime, spec.ServerName(inviteeSenderID), keyID, inviteeSigningKey)",
  "if err != nil {",
  "logger.WithError(err).Error(\"failed building invite event\")",
  "return nil, spec.InternalServerError{}",
  "}",
  "inviteEvent = inviteEvent.Sign(string(origin), keyID, input.SigningKey)",
  "verifier := JSONVerifierSelf{}",
  "err = VerifyEventSignatures(ctx, inviteEvent, verifier, input.UserIDQuerier)",
  "if err != nil {",
  "logger.WithError(err).Error(\"local invite event has invalid signatures\")",
  "return nil, spec.Forbidden(err.Error())",
  "}",
  "err = checkEventAllowed(inviteEvent)",
  "if err != nil {",
  "return nil, err",
  "}",
  "} else {",
  "inviteEvent, err = fedClient.SendInviteV3(ctx, input.EventTemplate, input.Invitee, input.RoomVersion, inviteState)",
  "if err != nil {",
  "logger.WithError(err).Error(\"fedClient.SendInviteV3 failed\")",
  "return nil, spec.Forbidden(err.Error())",
  "}",
  "logger.Debugf(\"Federated SendInviteV3 success to user %s\", input.Invitee.String())",
  "if inviteEvent == nil || inviteEvent.Type() != spec.MRoomMember || inviteEvent.StateKey() == nil {",
  "return nil, spec.Forbidden(\"fedClient.SendInviteV3 did not return a membership event\")",
  "}",
  "if membership, merr := inviteEvent.Membership(); merr != nil || membership != spec.Invite {",
  "return nil, spec.Forbidden(\"fedClient.SendInviteV3 did not return an invite event\")",
  "}",
  "if inviteEvent.RoomID().String() != input.EventTemplate.RoomID || string(inviteEvent.SenderID()) != input.EventTemplate.SenderID {",
  "return nil, spec.Forbidden(\"fedClient.SendInviteV3 returned an invite for another room or sender\")",
  "}",
  "inviteEvent = inviteEvent.Sign(string(origin), keyID, input.SigningKey)",
  "verifier := JSONVerifierSelf{}",
  "err := VerifyEventSignatures(ctx, inviteEvent, verifier, input.UserIDQuerier)",
  "if err != nil {",
  "logger.WithError(err).Error(\"fedClient.SendInviteV3 returned event with invalid signatures\")",
  "return nil, spec.Forbidden(err.Error())",
  "}",
  "err = input.StoreSenderIDFromPublicID(ctx, spec.SenderID(*inviteEvent.StateKey()), input.Invitee.String(), input.RoomID)",
  "if err != nil {",
  "logger.WithError(err).Errorf(\"failed storing senderID for %s\", input.Invitee.String())",
  "return nil, spec.InternalServerError{}",
  "}",
  "err = checkEventAllowed(inviteEvent)",
  "if err != nil {",
  "return nil, err",
  "}",
  "}",
  "default:",
  "inviteeSenderID := input.Invitee.String()",
  "input.EventTemplate.StateKey = &inviteeSenderID",
  "fullEventBuilder := verImpl.NewEventBuilderFromProtoEvent(&input.EventTemplate)",
  "fullEvent, err := fullEventBuilder.Build(input.EventTime, input.Inviter.Domain(), input.KeyID, input.SigningKey)",
  "if err != nil {",
  "logger.WithError(err).Error(\"failed building invite event\")",
  "return nil, spec.InternalServerError{}",
  "}",
  "inviteEvent = fullEvent.Sign(string(input.Invitee.Domain()), input.KeyID, input.SigningKey)",
  "err = checkEventAllowed(inviteEvent)",
  "if err != nil {",
  "return nil, err",
  "}",
  "if !input.IsTargetLocal {",
  "eventID := inviteEvent.EventID()",
  "inviteEvent, err = fedClient.SendInvite(ctx, inviteEvent, inviteState)",
  "if err != nil {",
  "logger.WithError(err).WithField(\"event_id\", eventID).Error(\"fedClient.SendInvite failed\")",
  "return nil, spec.Forbidden(err.Error())",
  "}",
  "logger.Debugf(\"Federated SendInvite success with event ID %s\", eventID)",
  "}",
  "}",
  "return inviteEvent, nil"
]

def performinvite__truncateAuthAndPrevEvents : List String := [
  "func func(auth, prev []string) (truncAuth, truncPrev []string)",
  "truncAuth, truncPrev = auth, prev",
  "if len(truncAuth) > 10 {",
  "truncAuth = truncAuth[:10]",
  "}",
  "if len(truncPrev) > 20 {",
  "truncPrev = truncPrev[:20]",
  "}",
  "return"
]

def performinvite_type_GetLatestEvents : List String := [
  "type GetLatestEvents func(ctx context.Context, roomID spec.RoomID, eventsNeeded []StateKeyTuple) (LatestEvents, error)"
]

def performinvite_type_PerformInviteInput : List String := [
  "type PerformInviteInput struct { RoomID spec.RoomID RoomVersion RoomVersion Inviter spec.UserID Invitee spec.UserID IsTargetLocal bool EventTemplate ProtoEvent StrippedState []InviteStrippedState KeyID KeyID SigningKey ed25519.PrivateKey EventTime time.Time MembershipQuerier MembershipQuerier StateQuerier StateQuerier UserIDQuerier spec.UserIDForSender SenderIDQuerier spec.SenderIDForUser SenderIDCreator spec.CreateSenderID EventQuerier GetLatestEvents StoreSenderIDFromPublicID spec.StoreSenderIDFromPublicID }"
]

def performjoin__PerformJoin : List String := [
  "func func(ctx context.Context, fedClient FederatedJoinClient, input PerformJoinInput) (*PerformJoinResponse, *FederationError)",
  "if input.UserID == nil {",
  "return nil, &FederationError{ServerName: input.ServerName, Transient: false, Reachable: false, Err: fmt.Errorf(\"UserID is nil\")}",
  "}",
  "if input.RoomID == nil {",
  "return nil, &FederationError{ServerName: input.ServerName, Transient: false, Reachable: false, Err: fmt.Errorf(\"RoomID is nil\")}",
  "}",
  "if input.KeyRing == nil {",
  "return nil, &FederationError{ServerName: input.ServerName, Transient: false, Reachable: false, Err: fmt.Errorf(\"KeyRing is nil\")}",
  "}",
  "origin := input.UserID.Domain()",
  "respMakeJoin, err := fedClient.MakeJoin(ctx, origin, input.ServerName, input.RoomID.String(), input.UserID.String())",
  "if err != nil {",
  "return nil, &FederationError{ServerName: input.ServerName, Transient: true, Reachable: false, Err: fmt.Errorf(\"r.federation.MakeJoin: %w\", err)}",
  "}",
  "joinEvent := respMakeJoin.GetJoinEvent()",
  "joinEvent.Type = spec.MRoomMember",
  "joinEvent.RoomID = input.RoomID.String()",
  "joinEvent.Redacts = \"\"",
  "roomVersion := respMakeJoin.GetRoomVersion()",
  "if roomVersion == \"\" {",
  "roomVersion = setDefaultRoomVersionFromJoinEvent(joinEvent)",
  "}",
  "verImpl, err := GetRoomVersion(roomVersion)",
  "if err != nil {",
  "return nil, &FederationError{ServerName: input.ServerName, Transient: false, Reachable: true, Err: err}",
  "}",
  "if input.Content == nil {",
  "input.Content = map[string]interface{}{}",
  "}",
  "var senderID spec.SenderID",
  "signingKey := input.PrivateKey",
  "keyID := input.KeyID",
  "origOrigin := origin",
  "switch respMakeJoin.GetRoomVersion() {",
  "case RoomVersionPseudoIDs:",
  "senderID, signingKey, err = input.GetOrCreateSenderID(ctx, *input.UserID, *input.RoomID, string(respMakeJoin.GetRoomVersion()))",
  "if err != nil {",
  "return nil, &FederationError{ServerName: input.ServerName, Transient: false, Reachable: true, Err: fmt.Errorf(\"Cannot create user room key\")}",
  "}",
  "keyID = \"ed25519:1\"",
  "origin = spec.ServerName(senderID)",
  "mapping := MXIDMapping{UserRoomKey: senderID, UserID: input.UserID.String()}",
  "if err = mapping.Sign(origOrigin, input.KeyID, input.PrivateKey); err != nil {",
  "return nil, &FederationError{ServerName: input.ServerName, Transient: false, Reachable: true, Err: fmt.Errorf(\"cannot sign mxid_mapping: %w\", err)}",
  "}",
  "input.Content[\"mxid_mapping\"] = mapping",
  "default:",
  "senderID = spec.SenderID(input.UserID.String())",
  "}",
  "stateKey := string(senderID)",
  "joinEvent.SenderID = string(senderID)",
  "joinEvent.StateKey = &stateKey",
  "joinEB := verImpl.NewEventBuilderFromProtoEvent(&joinEvent)",
  "var templateContent map[string]interface{}",
  "_ = json.Unmarshal(joinEvent.Content, &templateContent)",
  "for key, value := range templateContent {",
  "input.Content[key] = value",
  "}",
  "input.Content[\"membership\"] = spec.Join",
  "if err = joinEB.SetContent(input.Content); err != nil {",
  "return nil, &FederationError{ServerName: input.ServerName, Transient: false, Reachable: true, Err: fmt.Errorf(\"respMakeJoin.JoinEvent.SetContent: %w\", err)}",
  "}",
  "if err = joinEB.SetUnsigned(struct{}{}); err != nil {",
  "return nil, &FederationError{ServerName: input.ServerName, Transient: false, Reachable: true, Err: fmt.Errorf(\"respMakeJoin.JoinEvent.SetUnsigned: %w\", err)}",
  "}",
  "var event PDU",
  "event, err = joinEB.Build(time.Now(), origin, keyID, signingKey)",
  "if err != nil {",
  "return nil, &FederationError{ServerName: input.ServerName, Transient: false, Reachable: true, Err: fmt.Errorf(\"respMakeJoin.JoinEvent.Build: %w\", err)}",
  "}",
  "var respState StateResponse",
  "respSendJoin, err := fedClient.SendJoin(context.Background(), origOrigin, input.ServerName, event)",
  "if err != nil {",
  "return nil, &FederationError{ServerName: input.ServerName, Transient: true, Reachable: false, Err: fmt.Errorf(\"r.federation.SendJoin: %w\", err)}",
  "}",
  "if len(respSendJoin.GetJoinEvent()) > 0 {",
  "var remoteEvent PDU",
  "remoteEvent, err = verImpl.NewEventFromUntrustedJSON(respSendJoin.GetJoinEvent())",
  "if err == nil && isWellFormedJoinMemberEvent(remoteEvent, input.RoomID, senderID) && isSignedJoinEvent(ctx, remoteEvent, input) {",
  "event = remoteEvent",
  "}",
  "}",
  "authEvents := respSendJoin.GetAuthEvents().UntrustedEvents(roomVersion)",
  "if err = checkEventsContainCreateEvent(authEvents); err != nil {",
  "return nil, &FederationError{ServerName: input.ServerName, Transient: false, Reachable: true, Err: fmt.Errorf(\"sanityCheckAuthChain: %w\", err)}",
  "}",
  "if roomVersion == RoomVersionPseudoIDs {",
  "stateEvents := respSendJoin.GetStateEvents().UntrustedEvents(roomVersion)",
  "events := append(authEvents, stateEvents...)",
  "err = storeMXIDMappings(ctx, events, *input.RoomID, input.KeyRing, input.StoreSenderIDFromPublicID)",
  "if err != nil {",
  "return nil, &FederationError{ServerName: input.ServerName, Transient: false, Reachable: true, Err: fmt.Errorf(\"unable to store mxid_mapping: %w\", err)}",
  "}",
  "}",
  "respState, err = CheckSendJoinResponse(context.Background(), roomVersion, StateResponse(respSendJoin), input.KeyRing, event, input.EventProvider, input.UserIDQuerier)",
  "if err != nil {",
  "return nil, &FederationError{ServerName: input.ServerName, Transient: false, Reachable: true, Err: fmt.Errorf(\"respSendJoin.Check: %w\", err)}",
  "}",
  "if input.Unsigned != nil {",
  "event, err = event.SetUnsigned(input.Unsigned)",
  "if err != nil {",
  "logrus.WithError(err).Errorf(\"Failed to set unsigned content\")",
  "}",
  "}",
  "return &PerformJoinResponse{JoinEvent: event, StateSnapshot: respState}, nil"
]

def performjoin__checkEventsContainCreateEvent : List String := [
  "func func(events []PDU) error",
  "for _, ev := range events {",
  "if ev.Type() == spec.MRoomCreate && ev.StateKeyEquals(\"\") {",
  "content := ev.Content()",
  "verBody := struct { Version string `json:\"room_version\"` }{}",
  "err := json.Unmarshal(content, &verBody)",
  "if err != nil {",
  "return err",
  "}",
  "if verBody.Version == \"\" {",
  "verBody.Version = \"1\"",
  "}",
  "knownVersions := RoomVersions()",
  "if _, ok := knownVersions[RoomVersion(verBody.Version)]; !ok {",
  "return fmt.Errorf(\"m.room.create event has an unknown room version: %s\", verBody.Version)",
  "}",
  "return nil",
  "}",
  "}",
  "return fmt.Errorf(\"response is missing m.room.create event\")"
]

def performjoin__isSignedJoinEvent : List String := [
  "func func(ctx context.Context, event PDU, input PerformJoinInput) bool",
  "if event.Version() == RoomVersionPseudoIDs {",
  "return true",
  "}",
  "return VerifyEventSignatures(ctx, event, input.KeyRing, input.UserIDQuerier) == nil"
]

def performjoin__isWellFormedJoinMemberEvent : List String := [
  "func func(event PDU, roomID *spec.RoomID, senderID spec.SenderID) bool",
  "if event.Type() != spec.MRoomMember {",
  "return false",
  "}",
  "if event.SenderID() != senderID {",
  "return false",
  "}",
  "if membership, err := event.Membership(); err != nil {",
  "return false",
  "} else if membership != spec.Join {",
  "return false",
  "}",
  "if event.RoomID().String() != roomID.String() {",
  "return false",
  "}",
  "if !event.StateKeyEquals(string(senderID)) {",
  "return false",
  "}",
  "return true"
]

def performjoin__setDefaultRoomVersionFromJoinEvent : List String := [
  "func func(joinEvent ProtoEvent) RoomVersion",
  "hasEventRefs := true",
  "authEvents, ok := joinEvent.AuthEvents.([]interface{})",
  "if ok {",
  "if len(authEvents) > 0 {",
  "_, ok = authEvents[0].(string)",
  "if ok {",
  "hasEventRefs = false",
  "}",
  "}",
  "}",
  "if hasEventRefs {",
  "return RoomVersionV1",
  "}",
  "return RoomVersionV4"
]

def performjoin__storeMXIDMappings : List String := [
  "func func(ctx context.Context, events []PDU, roomID spec.RoomID, keyRing JSONVerifier, storeSenderID spec.StoreSenderIDFromPublicID) error",
  "for _, ev := range events {",
  "if ev.Type() != spec.MRoomMember {",
  "continue",
  "}",
  "mapping, err := getMXIDMapping(ev)",
  "if err != nil {",
  "return err",
  "}",
  "if mapping.UserRoomKey != ev.SenderID() {",
  "logrus.Errorf(\"mxid_mapping is for %q, not for the sender %q\", mapping.UserRoomKey, ev.SenderID())",
  "continue",
  "}",
  "verImpl := MustGetRoomVersion(ev.Version())",
  "if err := validateMXIDMappingSignatures(ctx, ev, *mapping, keyRing, verImpl); err != nil {",
  "logrus.WithError(err).Error(\"invalid signature for mxid_mapping\")",
  "continue",
  "}",
  "if err := storeSenderID(ctx, ev.SenderID(), mapping.UserID, roomID); err != nil {",
  "return err",
  "}",
  "}",
  "return nil"
]

def performjoin_type_PerformJoinInput : List String := [
  "type PerformJoinInput struct { UserID *spec.UserID RoomID *spec.RoomID ServerName spec.ServerName Content map[string]interface{} Unsigned map[string]interface{} PrivateKey ed25519.PrivateKey KeyID KeyID KeyRing *KeyRing EventProvider EventProvider UserIDQuerier spec.UserIDForSender GetOrCreateSenderID spec.CreateSenderID StoreSenderIDFromPublicID spec.StoreSenderIDFromPublicID }"
]

def performjoin_type_PerformJoinResponse : List String := [
  "type PerformJoinResponse struct { JoinEvent PDU StateSnapshot StateResponse }"
]

def functions : List String := ["eventV1.go:eventV1.JoinRule", "eventV1.go:eventV1.Membership", "eventV1.go:eventV1.RoomID", "eventV1.go:eventV1.SenderID", "eventV1.go:eventV1.StateKey", "eventV1.go:eventV1.StateKeyEquals", "eventV1.go:eventV1.Type", "eventauth.go:AuthEvents.AddEvent", "eventauth.go:AuthEvents.Clear", "eventauth.go:AuthEvents.Valid", "eventauth.go:StateNeeded.AuthEventReferences", "eventauth.go:StateNeeded.Tuples", "eventauth.go:.NewAuthEvents", "eventauth.go:.StateNeededForProtoEvent", "eventauth.go:.accumulateStateNeeded", "eventcrypto.go:.getMXIDMapping", "eventcrypto.go:.validateMXIDMappingSignatures", "handleinvite.go:.HandleInvite", "handleinvite.go:.HandleInviteV3", "handleinvite.go:.handleInviteCommonChecks", "handleinvite.go:type HandleInviteInput", "handleinvite.go:type HandleInviteV3Input", "handlejoin.go:.HandleMakeJoin", "handlejoin.go:.HandleSendJoin", "handlejoin.go:.checkRestrictedJoin", "handlejoin.go:.noCheckRestrictedJoin", "handlejoin.go:.roomVersionSupported", "handlejoin.go:type HandleMakeJoinInput", "handlejoin.go:type HandleMakeJoinResponse", "handlejoin.go:type HandleSendJoinInput", "handlejoin.go:type HandleSendJoinResponse", "handleleave.go:.HandleMakeLeave", "handleleave.go:type HandleMakeLeaveInput", "handleleave.go:type HandleMakeLeaveResponse", "invite.go:InviteStrippedState.Content", "invite.go:InviteStrippedState.MarshalJSON", "invite.go:InviteStrippedState.Sender", "invite.go:InviteStrippedState.StateKey", "invite.go:InviteStrippedState.Type", "invite.go:InviteStrippedState.UnmarshalJSON", "invite.go:.GenerateStrippedState", "invite.go:.NewInviteStrippedState", "invite.go:.abortIfAlreadyJoined", "invite.go:.createInviteLogger", "invite.go:.setUnsignedFieldForInvite", "invite.go:.setUnsignedFieldForProtoInvite", "invite.go:type FederatedInviteClient", "invite.go:type InviteStrippedState", "invite.go:type LatestEvents", "invite.go:type RoomQuerier", "invite.go:type StateQuerier", "performinvite.go:.PerformInvite", "performinvite.go:.truncateAuthAndPrevEvents", "performinvite.go:type GetLatestEvents", "performinvite.go:type PerformInviteInput", "performjoin.go:.PerformJoin", "performjoin.go:.checkEventsContainCreateEvent", "performjoin.go:.isSignedJoinEvent", "performjoin.go:.isWellFormedJoinMemberEvent", "performjoin.go:.setDefaultRoomVersionFromJoinEvent", "performjoin.go:.storeMXIDMappings", "performjoin.go:type PerformJoinInput", "performjoin.go:type PerformJoinResponse"]

end VPins.C15
