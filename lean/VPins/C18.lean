/- PINNED copy of the statement skeletons of the Go functions the C18 model mirrors (written by tools/pin.sh
   when the model was last validated against the code). Compared with the regenerated VGen.SkelC18 in VProps/PinC18.lean. -/
namespace VPins.C18

def eventV1__newEventFromTrustedJSONV1 : List String := [
  "func func(eventJSON []byte, redacted bool, roomVersion IRoomVersion) (PDU, error)",
  "res := &eventV1{}",
  "if err := json.Unmarshal(eventJSON, res); err != nil {",
  "return nil, err",
  "}",
  "if err := checkRoomIDField(res.eventFields.RoomID); err != nil {",
  "return nil, fmt.Errorf(\"RoomID is invalid: %w\", err)",
  "}",
  "res.eventJSON = eventJSON",
  "res.roomVersion = roomVersion.Version()",
  "res.redacted = redacted",
  "return res, nil"
]

def eventV1__newEventFromTrustedJSONWithEventIDV1 : List String := [
  "func func(eventID string, eventJSON []byte, redacted bool, roomVersion IRoomVersion) (PDU, error)",
  "res := &eventV1{}",
  "if err := json.Unmarshal(eventJSON, res); err != nil {",
  "return nil, err",
  "}",
  "if err := checkRoomIDField(res.eventFields.RoomID); err != nil {",
  "return nil, err",
  "}",
  "res.EventIDRaw = eventID",
  "res.eventJSON = eventJSON",
  "res.roomVersion = roomVersion.Version()",
  "res.redacted = redacted",
  "return res, nil"
]

def eventV1__newEventFromUntrustedJSONV1 : List String := [
  "func func(eventJSON []byte, roomVersion IRoomVersion) (PDU, error)",
  "if r := gjson.GetBytes(eventJSON, \"_*\"); r.Exists() {",
  "return nil, fmt.Errorf(\"gomatrixserverlib NewEventFromUntrustedJSON: found top-level '_' key, is this a headered event: %v\", string(eventJSON))",
  "}",
  "if err := roomVersion.CheckCanonicalJSON(eventJSON); err != nil {",
  "return nil, BadJSONError{err}",
  "}",
  "if err := checkUntrustedEventJSON(eventJSON); err != nil {",
  "return nil, err",
  "}",
  "res := &eventV1{}",
  "res.roomVersion = roomVersion.Version()",
  "var err error",
  "for _, key := range []string{\"outlier\", \"destinations\", \"age_ts\", \"unsigned\"} {",
  "if eventJSON, err = sjson.DeleteBytes(eventJSON, key); err != nil {",
  "return nil, err",
  "}",
  "}",
  "if err := json.Unmarshal(eventJSON, res); err != nil {",
  "return nil, err",
  "}",
  "if err := checkRoomIDField(res.eventFields.RoomID); err != nil {",
  "return nil, err",
  "}",
  "eventJSON = CanonicalJSONAssumeValid(eventJSON)",
  "if l := len(eventJSON); l > maxEventLength {",
  "return nil, EventValidationError{Code: EventValidationTooLarge, Message: fmt.Sprintf(\"gomatrixserverlib: event is too long, length %d bytes > maximum %d bytes\", l, maxEventLength)}",
  "}",
  "res.eventJSON = eventJSON",
  "if err = checkEventContentHash(eventJSON); err != nil {",
  "res.redacted = true",
  "var redactedJSON []byte",
  "if redactedJSON, err = roomVersion.RedactEventJSON(eventJSON); err != nil {",
  "return nil, err",
  "}",
  "redactedJSON = CanonicalJSONAssumeValid(redactedJSON)",
  "if !bytes.Equal(redactedJSON, eventJSON) {",
  "result, err := roomVersion.NewEventFromTrustedJSON(redactedJSON, true)",
  "if err != nil {",
  "return nil, err",
  "}",
  "err = CheckFields(result)",
  "return result, err",
  "}",
  "} else if _, err = roomVersion.RedactEventJSON(eventJSON); err != nil {",
  "return nil, err",
  "}",
  "err = CheckFields(res)",
  "return res, err"
]

def eventV1__signableEventJSON : List String := [
  "func func(eventJSON []byte) []byte",
  "signatures := gjson.GetBytes(eventJSON, \"signatures\")",
  "if !signatures.Exists() {",
  "return eventJSON",
  "}",
  "var decoded map[string]map[KeyID]spec.Base64Bytes",
  "if json.Unmarshal([]byte(signatures.Raw), &decoded) == nil {",
  "return eventJSON",
  "}",
  "if withoutSignatures, err := sjson.DeleteBytes(eventJSON, \"signatures\"); err == nil {",
  "return withoutSignatures",
  "}",
  "return eventJSON"
]

def eventV1_eventV1_AuthEventIDs : List String := [
  "func func() []string",
  "result := make([]string, 0, len(e.AuthEvents))",
  "for _, id := range e.AuthEvents {",
  "result = append(result, id.EventID)",
  "}",
  "return result"
]

def eventV1_eventV1_Content : List String := [
  "func func() []byte",
  "return e.eventFields.Content"
]

def eventV1_eventV1_Depth : List String := [
  "func func() int64",
  "return e.eventFields.Depth"
]

def eventV1_eventV1_EventID : List String := [
  "func func() string",
  "return e.EventIDRaw"
]

def eventV1_eventV1_HistoryVisibility : List String := [
  "func func() (HistoryVisibility, error)",
  "if !e.StateKeyEquals(\"\") {",
  "return \"\", fmt.Errorf(\"gomatrixserverlib: HistoryVisibility() event is not a m.room.history_visibility event, bad state key\")",
  "}",
  "var content HistoryVisibilityContent",
  "if err := json.Unmarshal(exactMembersOnly(e.eventFields.Content, &content), &content); err != nil {",
  "return \"\", err",
  "}",
  "return content.HistoryVisibility, nil"
]

def eventV1_eventV1_IsSticky : List String := [
  "func func(now time.Time, received time.Time) bool",
  "endTime := e.StickyEndTime(received)",
  "if endTime.IsZero() {",
  "return false",
  "}",
  "return endTime.After(now)"
]

def eventV1_eventV1_JSON : List String := [
  "func func() []byte",
  "return e.eventJSON"
]

def eventV1_eventV1_JoinRule : List String := [
  "func func() (string, error)",
  "if !e.StateKeyEquals(\"\") {",
  "return \"\", fmt.Errorf(\"gomatrixserverlib: JoinRule() event is not a m.room.join_rules event, bad state key\")",
  "}",
  "var content JoinRuleContent",
  "if err := json.Unmarshal(exactMembersOnly(e.eventFields.Content, &content), &content); err != nil {",
  "return \"\", err",
  "}",
  "return content.JoinRule, nil"
]

def eventV1_eventV1_MarshalJSON : List String := [
  "func func() ([]byte, error)",
  "if e.eventJSON == nil {",
  "return nil, fmt.Errorf(\"gomatrixserverlib: cannot serialise uninitialised Event\")",
  "}",
  "return e.eventJSON, nil"
]

def eventV1_eventV1_Membership : List String := [
  "func func() (string, error)",
  "var content struct { Membership string `json:\"membership\"` }",
  "if err := json.Unmarshal(exactMembersOnly(e.eventFields.Content, &content), &content); err != nil {",
  "return \"\", err",
  "}",
  "if e.StateKey() == nil {",
  "return \"\", fmt.Errorf(\"gomatrixserverlib: Membersip() event is not a m.room.member event, missing state key\")",
  "}",
  "return content.Membership, nil"
]

def eventV1_eventV1_OriginServerTS : List String := [
  "func func() spec.Timestamp",
  "return e.eventFields.OriginServerTS"
]

def eventV1_eventV1_PowerLevels : List String := [
  "func func() (*PowerLevelContent, error)",
  "if !e.StateKeyEquals(\"\") {",
  "return nil, fmt.Errorf(\"gomatrixserverlib: PowerLevels() event is not a m.room.power_levels event, bad state key\")",
  "}",
  "c, err := NewPowerLevelContentFromEvent(e)",
  "if err != nil {",
  "return nil, err",
  "}",
  "return &c, nil"
]

def eventV1_eventV1_PrevEventIDs : List String := [
  "func func() []string",
  "result := make([]string, 0, len(e.PrevEvents))",
  "for _, id := range e.PrevEvents {",
  "result = append(result, id.EventID)",
  "}",
  "return result"
]

def eventV1_eventV1_Redact : List String := [
  "func func()",
  "if e.redacted {",
  "return",
  "}",
  "verImpl, err := GetRoomVersion(e.roomVersion)",
  "if err != nil {",
  "panic(fmt.Errorf(\"gomatrixserverlib: invalid event %v\", err))",
  "}",
  "eventJSON, err := verImpl.RedactEventJSON(e.eventJSON)",
  "if err != nil {",
  "panic(fmt.Errorf(\"gomatrixserverlib: invalid event %v\", err))",
  "}",
  "if eventJSON, err = EnforcedCanonicalJSON(eventJSON, e.roomVersion); err != nil {",
  "panic(fmt.Errorf(\"gomatrixserverlib: invalid event %v\", err))",
  "}",
  "var res eventV1",
  "err = json.Unmarshal(eventJSON, &res)",
  "if err != nil {",
  "panic(fmt.Errorf(\"gomatrixserverlib: populateFieldsFromJSON failed %v\", err))",
  "}",
  "res.redacted = true",
  "res.roomVersion = e.roomVersion",
  "res.eventJSON = eventJSON",
  "*e = res"
]

def eventV1_eventV1_Redacted : List String := [
  "func func() bool",
  "return e.redacted"
]

def eventV1_eventV1_Redacts : List String := [
  "func func() string",
  "return e.eventFields.Redacts"
]

def eventV1_eventV1_RoomID : List String := [
  "func func() spec.RoomID",
  "roomID, err := spec.NewRoomID(e.eventFields.RoomID)",
  "if err != nil {",
  "panic(fmt.Errorf(\"RoomID is invalid: %w\", err))",
  "}",
  "return *roomID"
]

def eventV1_eventV1_SenderID : List String := [
  "func func() spec.SenderID",
  "return spec.SenderID(e.eventFields.SenderID)"
]

def eventV1_eventV1_SetUnsigned : List String := [
  "func func(unsigned interface{}) (PDU, error)",
  "var eventAsMap map[string]spec.RawJSON",
  "var err error",
  "if err = json.Unmarshal(e.eventJSON, &eventAsMap); err != nil {",
  "return nil, err",
  "}",
  "unsignedJSON, err := json.Marshal(unsigned)",
  "if err != nil {",
  "return nil, err",
  "}",
  "eventAsMap[\"unsigned\"] = unsignedJSON",
  "eventJSON, err := json.Marshal(eventAsMap)",
  "if err != nil {",
  "return nil, err",
  "}",
  "if eventJSON, err = EnforcedCanonicalJSON(eventJSON, e.roomVersion); err != nil {",
  "return nil, err",
  "}",
  "result := *e",
  "result.eventJSON = eventJSON",
  "result.eventFields.Unsigned = unsignedJSON",
  "return &result, nil"
]

def eventV1_eventV1_SetUnsignedField : List String := [
  "func func(path string, value interface{}) error",
  "path = \"unsigned.\" + path",
  "eventJSON, err := sjson.SetBytes(e.eventJSON, path, value)",
  "if err != nil {",
  "return err",
  "}",
  "eventJSON = CanonicalJSONAssumeValid(eventJSON)",
  "res := gjson.GetBytes(eventJSON, \"unsigned\")",
  "e.eventFields.Unsigned = []byte(res.Raw)",
  "e.eventJSON = eventJSON",
  "return nil"
]

def eventV1_eventV1_Sign : List String := [
  "func func(signingName string, keyID KeyID, privateKey ed25519.PrivateKey) PDU",
  "eventJSON, err := signEvent(signingName, keyID, privateKey, signableEventJSON(e.eventJSON), e.roomVersion)",
  "if err != nil {",
  "panic(fmt.Errorf(\"gomatrixserverlib: invalid event %v (%q)\", err, string(e.eventJSON)))",
  "}",
  "if eventJSON, err = EnforcedCanonicalJSON(eventJSON, e.roomVersion); err != nil {",
  "panic(fmt.Errorf(\"gomatrixserverlib: invalid event %v (%q)\", err, string(e.eventJSON)))",
  "}",
  "result := *e",
  "result.eventJSON = eventJSON",
  "return &result"
]

def eventV1_eventV1_StateKey : List String := [
  "func func() *string",
  "return e.eventFields.StateKey"
]

def eventV1_eventV1_StateKeyEquals : List String := [
  "func func(s string) bool",
  "if e.eventFields.StateKey == nil {",
  "return false",
  "}",
  "return *e.eventFields.StateKey == s"
]

def eventV1_eventV1_StickyEndTime : List String := [
  "func func(received time.Time) time.Time",
  "return e.calculatedStickyEndTime(e.assumedStickyStartTime(received))"
]

def eventV1_eventV1_ToHeaderedJSON : List String := [
  "func func() ([]byte, error)",
  "var err error",
  "eventJSON := e.JSON()",
  "eventJSON, err = sjson.SetBytes(eventJSON, \"_room_version\", e.Version())",
  "if err != nil {",
  "return []byte{}, err",
  "}",
  "eventJSON, err = sjson.SetBytes(eventJSON, \"_event_id\", e.EventID())",
  "if err != nil {",
  "return []byte{}, err",
  "}",
  "return eventJSON, nil"
]

def eventV1_eventV1_Type : List String := [
  "func func() string",
  "return e.eventFields.Type"
]

def eventV1_eventV1_Unsigned : List String := [
  "func func() []byte",
  "return e.eventFields.Unsigned"
]

def eventV1_eventV1_Version : List String := [
  "func func() RoomVersion",
  "return e.roomVersion"
]

def eventV1_eventV1_assumedStickyStartTime : List String := [
  "func func(received time.Time) time.Time",
  "if e.OriginServerTS().Time().Before(received) {",
  "return e.OriginServerTS().Time()",
  "}",
  "return received"
]

def eventV1_eventV1_calculatedStickyEndTime : List String := [
  "func func(startTime time.Time) time.Time",
  "durationMillis := e.StableSticky.DurationMillis",
  "if durationMillis == 0 {",
  "durationMillis = e.UnstableSticky.DurationMillis",
  "}",
  "if durationMillis == 0 {",
  "return time.Time{}",
  "}",
  "if durationMillis > 3600000 {",
  "durationMillis = 3600000",
  "}",
  "return startTime.Add(time.Duration(durationMillis) * time.Millisecond)"
]

def eventV1_type_eventV1 : List String := [
  "type eventV1 struct { redacted bool eventJSON []byte roomVersion RoomVersion eventFields EventIDRaw string `json:\"event_id,omitempty\"` PrevEvents []eventReference `json:\"prev_events\"` AuthEvents []eventReference `json:\"auth_events\"` UnstableSticky stickyEventData `json:\"msc4354_sticky,omitempty\"` StableSticky stickyEventData `json:\"sticky,omitempty\"` }"
]

def eventV1_type_stickyEventData : List String := [
  "type stickyEventData struct { DurationMillis int64 `json:\"duration_ms\"` }"
]

def eventV2__CheckFields : List String := [
  "func func(input PDU) error",
  "if input.AuthEventIDs() == nil || input.PrevEventIDs() == nil {",
  "return errors.New(\"gomatrixserverlib: auth events and prev events must not be nil\")",
  "}",
  "if l := len(input.JSON()); l > maxEventLength {",
  "return EventValidationError{Code: EventValidationTooLarge, Message: fmt.Sprintf(\"gomatrixserverlib: event is too long, length %d bytes > maximum %d bytes\", l, maxEventLength)}",
  "}",
  "if l := utf8.RuneCountInString(input.Type()); l > maxIDLength {",
  "return EventValidationError{Code: EventValidationTooLarge, Message: fmt.Sprintf(\"gomatrixserverlib: event type is too long, length %d bytes > maximum %d bytes\", l, maxIDLength)}",
  "}",
  "if input.StateKey() != nil {",
  "if l := utf8.RuneCountInString(*input.StateKey()); l > maxIDLength {",
  "return EventValidationError{Code: EventValidationTooLarge, Message: fmt.Sprintf(\"gomatrixserverlib: state key is too long, length %d bytes > maximum %d bytes\", l, maxIDLength)}",
  "}",
  "}",
  "if l := utf8.RuneCountInString(string(input.SenderID())); l > maxIDLength {",
  "return EventValidationError{Code: EventValidationTooLarge, Message: fmt.Sprintf(\"gomatrixserverlib: sender is too long, length %d > maximum %d\", l, maxIDLength)}",
  "}",
  "switch input.Version() {",
  "case RoomVersionPseudoIDs:",
  "default:",
  "if _, err := domainFromID(string(input.SenderID())); err != nil {",
  "return err",
  "}",
  "if id := string(input.SenderID()); id[0] != '@' {",
  "return checkID(id, \"user\", '@')",
  "}",
  "}",
  "_, persistable := lenientByteLimitRoomVersions[input.Version()]",
  "if l := len(input.Type()); l > maxIDLength {",
  "return EventValidationError{Code: EventValidationTooLarge, Message: fmt.Sprintf(\"gomatrixserverlib: event type is too long, length %d bytes > maximum %d bytes\", l, maxIDLength), Persistable: persistable}",
  "}",
  "if input.StateKey() != nil {",
  "if l := len(*input.StateKey()); l > maxIDLength {",
  "return EventValidationError{Code: EventValidationTooLarge, Message: fmt.Sprintf(\"gomatrixserverlib: state key is too long, length %d bytes > maximum %d bytes\", l, maxIDLength), Persistable: persistable}",
  "}",
  "}",
  "if l := len(input.SenderID()); l > maxIDLength {",
  "return EventValidationError{Code: EventValidationTooLarge, Message: fmt.Sprintf(\"gomatrixserverlib: user ID is too long, length %d bytes > maximum %d bytes\", l, maxIDLength), Persistable: true}",
  "}",
  "return nil"
]

def eventV2__newEventFromTrustedJSONV2 : List String := [
  "func func(eventJSON []byte, redacted bool, roomVersion IRoomVersion) (PDU, error)",
  "res := eventV2{}",
  "if err := json.Unmarshal(eventJSON, &res); err != nil {",
  "return nil, err",
  "}",
  "if err := checkRoomIDField(res.eventFields.RoomID); err != nil {",
  "return nil, err",
  "}",
  "res.roomVersion = roomVersion.Version()",
  "res.redacted = redacted",
  "res.eventJSON = eventJSON",
  "res.EventIDRaw = \"\"",
  "if err := res.populateEventID(roomVersion); err != nil {",
  "return nil, err",
  "}",
  "return &res, nil"
]

def eventV2__newEventFromTrustedJSONWithEventIDV2 : List String := [
  "func func(eventID string, eventJSON []byte, redacted bool, roomVersion IRoomVersion) (PDU, error)",
  "res := &eventV2{}",
  "if err := json.Unmarshal(eventJSON, res); err != nil {",
  "return nil, err",
  "}",
  "if err := checkRoomIDField(res.eventFields.RoomID); err != nil {",
  "return nil, err",
  "}",
  "res.roomVersion = roomVersion.Version()",
  "res.eventJSON = eventJSON",
  "res.EventIDRaw = eventID",
  "res.redacted = redacted",
  "return res, nil"
]

def eventV2__newEventFromUntrustedJSONV2 : List String := [
  "func func(eventJSON []byte, roomVersion IRoomVersion) (PDU, error)",
  "if r := gjson.GetBytes(eventJSON, \"_*\"); r.Exists() {",
  "return nil, fmt.Errorf(\"gomatrixserverlib NewEventFromUntrustedJSON: found top-level '_' key, is this a headered event: %v\", string(eventJSON))",
  "}",
  "if err := roomVersion.CheckCanonicalJSON(eventJSON); err != nil {",
  "return nil, BadJSONError{err}",
  "}",
  "if err := checkUntrustedEventJSON(eventJSON); err != nil {",
  "return nil, err",
  "}",
  "res := &eventV2{}",
  "var err error",
  "for _, key := range []string{\"outlier\", \"destinations\", \"age_ts\", \"unsigned\", \"event_id\"} {",
  "if eventJSON, err = sjson.DeleteBytes(eventJSON, key); err != nil {",
  "return nil, err",
  "}",
  "}",
  "if err = json.Unmarshal(eventJSON, res); err != nil {",
  "return nil, err",
  "}",
  "res.EventIDRaw = \"\"",
  "if err := checkRoomIDField(res.eventFields.RoomID); err != nil {",
  "return nil, err",
  "}",
  "res.roomVersion = roomVersion.Version()",
  "eventJSON = CanonicalJSONAssumeValid(eventJSON)",
  "if l := len(eventJSON); l > maxEventLength {",
  "return nil, EventValidationError{Code: EventValidationTooLarge, Message: fmt.Sprintf(\"gomatrixserverlib: event is too long, length %d bytes > maximum %d bytes\", l, maxEventLength)}",
  "}",
  "res.eventJSON = eventJSON",
  "if err = checkEventContentHash(eventJSON); err != nil {",
  "res.redacted = true",
  "var redactedJSON []byte",
  "if redactedJSON, err = roomVersion.RedactEventJSON(eventJSON); err != nil {",
  "return nil, err",
  "}",
  "if redactedJSON, err = sjson.DeleteBytes(redactedJSON, \"event_id\"); err != nil {",
  "return nil, err",
  "}",
  "redactedJSON = CanonicalJSONAssumeValid(redactedJSON)",
  "if !bytes.Equal(redactedJSON, eventJSON) {",
  "result, err := roomVersion.NewEventFromTrustedJSON(redactedJSON, true)",
  "if err != nil {",
  "return nil, err",
  "}",
  "err = CheckFields(result)",
  "return result, err",
  "}",
  "}",
  "if err = res.populateEventID(roomVersion); err != nil {",
  "return nil, err",
  "}",
  "err = CheckFields(res)",
  "return res, err"
]

def eventV2_eventV2_AuthEventIDs : List String := [
  "func func() []string",
  "return e.AuthEvents"
]

def eventV2_eventV2_EventID : List String := [
  "func func() string",
  "if e.EventIDRaw != \"\" {",
  "return e.EventIDRaw",
  "}",
  "ref, err := referenceOfEvent(e.eventJSON, e.roomVersion)",
  "if err != nil {",
  "panic(fmt.Errorf(\"failed to generate reference of event: %w\", err))",
  "}",
  "return ref.EventID"
]

def eventV2_eventV2_MarshalJSON : List String := [
  "func func() ([]byte, error)",
  "if e.eventJSON == nil {",
  "return nil, fmt.Errorf(\"gomatrixserverlib: cannot serialise uninitialised Event\")",
  "}",
  "return e.eventJSON, nil"
]

def eventV2_eventV2_PrevEventIDs : List String := [
  "func func() []string",
  "return e.PrevEvents"
]

def eventV2_eventV2_Redact : List String := [
  "func func()",
  "if e.redacted {",
  "return",
  "}",
  "verImpl, err := GetRoomVersion(e.roomVersion)",
  "if err != nil {",
  "panic(fmt.Errorf(\"gomatrixserverlib: invalid event %v\", err))",
  "}",
  "eventJSON, err := verImpl.RedactEventJSON(e.eventJSON)",
  "if err != nil {",
  "panic(fmt.Errorf(\"gomatrixserverlib: invalid event %v\", err))",
  "}",
  "if eventJSON, err = EnforcedCanonicalJSON(eventJSON, e.roomVersion); err != nil {",
  "panic(fmt.Errorf(\"gomatrixserverlib: invalid event %v\", err))",
  "}",
  "var res eventV2",
  "err = json.Unmarshal(eventJSON, &res)",
  "if err != nil {",
  "panic(fmt.Errorf(\"gomatrixserverlib: Redact failed %v\", err))",
  "}",
  "res.redacted = true",
  "res.eventJSON = eventJSON",
  "res.roomVersion = e.roomVersion",
  "if res.EventIDRaw == \"\" {",
  "res.EventIDRaw = e.EventIDRaw",
  "}",
  "*e = res"
]

def eventV2_eventV2_SenderID : List String := [
  "func func() spec.SenderID",
  "return spec.SenderID(e.eventFields.SenderID)"
]

def eventV2_eventV2_SetUnsigned : List String := [
  "func func(unsigned interface{}) (PDU, error)",
  "var eventAsMap map[string]spec.RawJSON",
  "var err error",
  "if err = json.Unmarshal(e.eventJSON, &eventAsMap); err != nil {",
  "return nil, err",
  "}",
  "unsignedJSON, err := json.Marshal(unsigned)",
  "if err != nil {",
  "return nil, err",
  "}",
  "eventAsMap[\"unsigned\"] = unsignedJSON",
  "eventJSON, err := json.Marshal(eventAsMap)",
  "if err != nil {",
  "return nil, err",
  "}",
  "if eventJSON, err = EnforcedCanonicalJSON(eventJSON, e.roomVersion); err != nil {",
  "return nil, err",
  "}",
  "result := *e",
  "result.eventJSON = eventJSON",
  "result.eventFields.Unsigned = unsignedJSON",
  "return &result, nil"
]

def eventV2_eventV2_Sign : List String := [
  "func func(signingName string, keyID KeyID, privateKey ed25519.PrivateKey) PDU",
  "eventJSON, err := signEvent(signingName, keyID, privateKey, signableEventJSON(e.eventJSON), e.roomVersion)",
  "if err != nil {",
  "panic(fmt.Errorf(\"gomatrixserverlib: invalid event %v (%q)\", err, string(e.eventJSON)))",
  "}",
  "if eventJSON, err = EnforcedCanonicalJSON(eventJSON, e.roomVersion); err != nil {",
  "panic(fmt.Errorf(\"gomatrixserverlib: invalid event %v (%q)\", err, string(e.eventJSON)))",
  "}",
  "result := *e",
  "result.eventJSON = eventJSON",
  "return &result"
]

def eventV2_eventV2_populateEventID : List String := [
  "func func(verImpl IRoomVersion) error",
  "if e.EventIDRaw != \"\" {",
  "return nil",
  "}",
  "ref, err := referenceOfEventForVersion(e.eventJSON, verImpl)",
  "if err != nil {",
  "return fmt.Errorf(\"failed to generate reference of event: %w\", err)",
  "}",
  "e.EventIDRaw = ref.EventID",
  "return nil"
]

def eventV2_type_eventV2 : List String := [
  "type eventV2 struct { eventV1 PrevEvents []string `json:\"prev_events\"` AuthEvents []string `json:\"auth_events\"` }"
]

def eventV3__checkRoomID : List String := [
  "func func(res *eventV3) error",
  "isCreateEvent := res.Type() == spec.MRoomCreate && res.StateKeyEquals(\"\")",
  "if isCreateEvent {",
  "if l := utf8.RuneCountInString(res.eventFields.RoomID); l > maxIDLength {",
  "return EventValidationError{Code: EventValidationTooLarge, Message: fmt.Sprintf(\"gomatrixserverlib: room ID is too long, length %d > maximum %d\", l, maxIDLength)}",
  "}",
  "if l := len(res.eventFields.RoomID); l > maxIDLength {",
  "return EventValidationError{Code: EventValidationTooLarge, Message: fmt.Sprintf(\"gomatrixserverlib: room ID is too long, length %d bytes > maximum %d bytes\", l, maxIDLength)}",
  "}",
  "}",
  "if !isCreateEvent && !strings.HasPrefix(res.eventFields.RoomID, \"!\") {",
  "return fmt.Errorf(\"gomatrixserverlib: room_id must start with !\")",
  "}",
  "if !isCreateEvent {",
  "if _, err := spec.NewRoomID(res.eventFields.RoomID); err != nil {",
  "return fmt.Errorf(\"gomatrixserverlib: invalid room ID %q: %w\", res.eventFields.RoomID, err)",
  "}",
  "}",
  "return nil"
]

def eventV3__newEventFromTrustedJSONV3 : List String := [
  "func func(eventJSON []byte, redacted bool, roomVersion IRoomVersion) (PDU, error)",
  "res := eventV3{}",
  "if err := json.Unmarshal(eventJSON, &res); err != nil {",
  "return nil, err",
  "}",
  "if err := checkRoomID(&res); err != nil {",
  "return nil, err",
  "}",
  "res.roomVersion = roomVersion.Version()",
  "res.redacted = redacted",
  "res.eventJSON = eventJSON",
  "res.EventIDRaw = \"\"",
  "if err := res.populateEventID(roomVersion); err != nil {",
  "return nil, err",
  "}",
  "return &res, nil"
]

def eventV3__newEventFromTrustedJSONWithEventIDV3 : List String := [
  "func func(eventID string, eventJSON []byte, redacted bool, roomVersion IRoomVersion) (PDU, error)",
  "res := &eventV3{}",
  "if err := json.Unmarshal(eventJSON, res); err != nil {",
  "return nil, err",
  "}",
  "if err := checkRoomID(res); err != nil {",
  "return nil, err",
  "}",
  "res.roomVersion = roomVersion.Version()",
  "res.eventJSON = eventJSON",
  "res.EventIDRaw = eventID",
  "res.redacted = redacted",
  "return res, nil"
]

def eventV3__newEventFromUntrustedJSONV3 : List String := [
  "func func(eventJSON []byte, roomVersion IRoomVersion) (PDU, error)",
  "if r := gjson.GetBytes(eventJSON, \"_*\"); r.Exists() {",
  "return nil, fmt.Errorf(\"gomatrixserverlib NewEventFromUntrustedJSON: found top-level '_' key, is this a headered event: %v\", string(eventJSON))",
  "}",
  "if err := roomVersion.CheckCanonicalJSON(eventJSON); err != nil {",
  "return nil, BadJSONError{err}",
  "}",
  "if err := checkUntrustedEventJSON(eventJSON); err != nil {",
  "return nil, err",
  "}",
  "res := &eventV3{}",
  "var err error",
  "for _, key := range []string{\"outlier\", \"destinations\", \"age_ts\", \"unsigned\", \"event_id\"} {",
  "if eventJSON, err = sjson.DeleteBytes(eventJSON, key); err != nil {",
  "return nil, err",
  "}",
  "}",
  "if err = json.Unmarshal(eventJSON, res); err != nil {",
  "return nil, err",
  "}",
  "res.EventIDRaw = \"\"",
  "if err := checkRoomID(res); err != nil {",
  "return nil, err",
  "}",
  "res.roomVersion = roomVersion.Version()",
  "eventJSON = CanonicalJSONAssumeValid(eventJSON)",
  "if l := len(eventJSON); l > maxEventLength {",
  "return nil, EventValidationError{Code: EventValidationTooLarge, Message: fmt.Sprintf(\"gomatrixserverlib: event is too long, length %d bytes > maximum %d bytes\", l, maxEventLength)}",
  "}",
  "res.eventJSON = eventJSON",
  "if err = checkEventContentHash(eventJSON); err != nil {",
  "res.redacted = true",
  "var redactedJSON []byte",
  "if redactedJSON, err = roomVersion.RedactEventJSON(eventJSON); err != nil {",
  "return nil, err",
  "}",
  "if redactedJSON, err = sjson.DeleteBytes(redactedJSON, \"event_id\"); err != nil {",
  "return nil, err",
  "}",
  "redactedJSON = CanonicalJSONAssumeValid(redactedJSON)",
  "if !bytes.Equal(redactedJSON, eventJSON) {",
  "result, err := roomVersion.NewEventFromTrustedJSON(redactedJSON, true)",
  "if err != nil {",
  "return nil, err",
  "}",
  "err = CheckFields(result)",
  "return result, err",
  "}",
  "}",
  "if err = res.populateEventID(roomVersion); err != nil {",
  "return nil, err",
  "}",
  "err = CheckFields(res)",
  "return res, err"
]

def eventV3_eventV3_AuthEventIDs : List String := [
  "func func() []string",
  "isCreateEvent := e.Type() == spec.MRoomCreate && e.StateKeyEquals(\"\")",
  "if isCreateEvent {",
  "return []string{}",
  "}",
  "createEventID := fmt.Sprintf(\"$%s\", e.eventFields.RoomID[1:])",
  "if len(e.AuthEvents) > 0 {",
  "return append([]string{createEventID}, e.AuthEvents...)",
  "}",
  "return []string{createEventID}"
]

def eventV3_eventV3_RoomID : List String := [
  "func func() spec.RoomID",
  "roomIDStr := e.eventFields.RoomID",
  "isCreateEvent := e.Type() == spec.MRoomCreate && e.StateKeyEquals(\"\")",
  "if isCreateEvent {",
  "roomIDStr = fmt.Sprintf(\"!%s\", e.EventID()[1:])",
  "}",
  "roomID, err := spec.NewRoomID(roomIDStr)",
  "if err != nil {",
  "panic(fmt.Errorf(\"RoomID is invalid: %w\", err))",
  "}",
  "return *roomID"
]

def eventV3_eventV3_SetUnsigned : List String := [
  "func func(unsigned interface{}) (PDU, error)",
  "res, err := e.eventV2.SetUnsigned(unsigned)",
  "if err != nil {",
  "return nil, err",
  "}",
  "return &eventV3{eventV2: *res.(*eventV2)}, nil"
]

def eventV3_eventV3_Sign : List String := [
  "func func(signingName string, keyID KeyID, privateKey ed25519.PrivateKey) PDU",
  "return &eventV3{eventV2: *e.eventV2.Sign(signingName, keyID, privateKey).(*eventV2)}"
]

def eventV3_type_eventV3 : List String := [
  "type eventV3 struct{ eventV2 }"
]

def event_EventValidationError_Error : List String := [
  "func func() string",
  "return e.Message"
]

def event__SplitID : List String := [
  "func func(sigil byte, id string) (local string, domain spec.ServerName, err error)",
  "if len(id) == 0 || id[0] != sigil {",
  "return \"\", \"\", fmt.Errorf(\"gomatrixserverlib: invalid ID %q doesn't start with %q\", id, sigil)",
  "}",
  "parts := strings.SplitN(id, \":\", 2)",
  "if len(parts) != 2 {",
  "return \"\", \"\", fmt.Errorf(\"gomatrixserverlib: invalid ID %q missing ':'\", id)",
  "}",
  "return parts[0][1:], spec.ServerName(parts[1]), nil"
]

def event__checkID : List String := [
  "func func(id, kind string, sigil byte) (err error)",
  "if _, err = domainFromID(id); err != nil {",
  "return",
  "}",
  "if id[0] != sigil {",
  "err = fmt.Errorf(\"gomatrixserverlib: invalid %s ID, wanted first byte to be '%c' got '%c'\", kind, sigil, id[0])",
  "return",
  "}",
  "if l := utf8.RuneCountInString(id); l > maxIDLength {",
  "err = EventValidationError{Code: EventValidationTooLarge, Message: fmt.Sprintf(\"gomatrixserverlib: %s ID is too long, length %d > maximum %d\", kind, l, maxIDLength)}",
  "return",
  "}",
  "if l := len(id); l > maxIDLength {",
  "err = EventValidationError{Code: EventValidationTooLarge, Message: fmt.Sprintf(\"gomatrixserverlib: %s ID is too long, length %d bytes > maximum %d bytes\", kind, l, maxIDLength), Persistable: true}",
  "return",
  "}",
  "return"
]

def event__checkRoomIDField : List String := [
  "func func(id string) error",
  "if err := checkID(id, \"room\", '!'); err != nil {",
  "if verr, ok := err.(EventValidationError); ok && verr.Persistable {",
  "verr.Persistable = false",
  "return verr",
  "}",
  "return err",
  "}",
  "if _, err := spec.NewRoomID(id); err != nil {",
  "return fmt.Errorf(\"gomatrixserverlib: invalid room ID %q: %w\", id, err)",
  "}",
  "return nil"
]

def event__checkUntrustedEventJSON : List String := [
  "func func(eventJSON []byte) error",
  "if name, found := duplicateJSONKey(eventJSON); found {",
  "return BadJSONError{fmt.Errorf(\"gomatrixserverlib: duplicate key %q in event JSON\", name)}",
  "}",
  "var variant string",
  "gjson.ParseBytes(eventJSON).ForEach(func(key, _ gjson.Result) bool { for _, name := range eventJSONFieldNames { if key.Str != name && strings.EqualFold(key.Str, name) { variant = key.Str return false } } return true })",
  "if variant != \"\" {",
  "return BadJSONError{fmt.Errorf(\"gomatrixserverlib: key %q in event JSON is a case variant of an event field\", variant)}",
  "}",
  "return nil"
]

def event__duplicateJSONKey : List String := [
  "func func(data []byte) (name string, found bool)",
  "name, found, _ = jsonWalk{decodeName: func(raw []byte, escaped bool) (string, bool) { key := string(raw[1 : len(raw)-1]) if escaped && json.Unmarshal(raw, &key) != nil { return \"\", false } return key, true }}.duplicateName(data)",
  "return name, found"
]

def event__jsonFieldNames : List String := [
  "func func(t reflect.Type) []string",
  "var names []string",
  "for i := 0; i < t.NumField(); i++ {",
  "field := t.Field(i)",
  "tag, _, _ := strings.Cut(field.Tag.Get(\"json\"), \",\")",
  "switch {",
  "case field.Anonymous && tag == \"\" && field.Type.Kind() == reflect.Struct:",
  "names = append(names, jsonFieldNames(field.Type)...)",
  "case !field.IsExported() || tag == \"-\":",
  "case tag != \"\":",
  "names = append(names, tag)",
  "default:",
  "names = append(names, field.Name)",
  "}",
  "}",
  "return names"
]

def event_jsonWalk_duplicateName : List String := [
  "func func(data []byte) (name string, found bool, err error)",
  "var stack []map[string]struct{}",
  "expectKey := false",
  "skipping := false",
  "for i := 0; i < len(data); i++ {",
  "switch data[i] {",
  "case '{':",
  "if skipping {",
  "stack = append(stack, nil)",
  "break",
  "}",
  "stack = append(stack, map[string]struct{}{})",
  "expectKey = true",
  "case '[':",
  "stack = append(stack, nil)",
  "expectKey = false",
  "case '}', ']':",
  "if len(stack) == 0 {",
  "return \"\", false, nil",
  "}",
  "stack = stack[:len(stack)-1]",
  "expectKey = false",
  "if len(stack) == 0 {",
  "skipping = false",
  "}",
  "case ',':",
  "if len(stack) == 1 {",
  "skipping = false",
  "}",
  "expectKey = !skipping && len(stack) > 0 && stack[len(stack)-1] != nil",
  "case '\"':",
  "end, escaped := i+1, false",
  "for ; end < len(data) && data[end] != '\"';  {",
  "if data[end] == '\\\\' {",
  "escaped = true",
  "end++",
  "}",
  "end++",
  "}",
  "if end >= len(data) {",
  "return \"\", false, nil",
  "}",
  "if !skipping && w.checkString != nil {",
  "if err = w.checkString(data[i : end+1]); err != nil {",
  "return \"\", false, err",
  "}",
  "}",
  "if expectKey {",
  "key, ok := w.decodeName(data[i:end+1], escaped)",
  "if !ok {",
  "return \"\", false, nil",
  "}",
  "names := stack[len(stack)-1]",
  "if _, dup := names[key]; dup {",
  "return key, true, nil",
  "}",
  "names[key] = struct{}{}",
  "expectKey = false",
  "skipping = len(stack) == 1 && w.skipMember != nil && w.skipMember(key)",
  "}",
  "i = end",
  "}",
  "if len(stack) > maxJSONNestingDepth {",
  "return \"\", false, nil",
  "}",
  "}",
  "return \"\", false, nil"
]

def event_type_EventValidationError : List String := [
  "type EventValidationError struct { Message string Code int Persistable bool }"
]

def event_type_eventFields : List String := [
  "type eventFields struct { RoomID string `json:\"room_id\"` SenderID string `json:\"sender\"` Type string `json:\"type\"` StateKey *string `json:\"state_key\"` Content spec.RawJSON `json:\"content\"` Redacts string `json:\"redacts\"` Depth int64 `json:\"depth\"` Unsigned spec.RawJSON `json:\"unsigned,omitempty\"` OriginServerTS spec.Timestamp `json:\"origin_server_ts\"` }"
]

def event_type_jsonWalk : List String := [
  "type jsonWalk struct { decodeName func(raw []byte, escaped bool) (string, bool) checkString func(raw []byte) error skipMember func(name string) bool }"
]

def eventauth_AuthEvents_AddEvent : List String := [
  "func func(event PDU) error",
  "if event.StateKey() == nil {",
  "return fmt.Errorf(\"AddEvent: event %q does not have a state key\", event.Type())",
  "}",
  "a.roomIDs[event.RoomID().String()] = struct{}{}",
  "a.events[StateKeyTuple{event.Type(), *event.StateKey()}] = event",
  "return nil"
]

def eventauth_AuthEvents_Clear : List String := [
  "func func()",
  "for k := range a.events {",
  "delete(a.events, k)",
  "}",
  "for k := range a.roomIDs {",
  "delete(a.roomIDs, k)",
  "}"
]

def eventauth_AuthEvents_Create : List String := [
  "func func() (PDU, error)",
  "return a.events[StateKeyTuple{spec.MRoomCreate, \"\"}], nil"
]

def eventauth_AuthEvents_JoinRules : List String := [
  "func func() (PDU, error)",
  "return a.events[StateKeyTuple{spec.MRoomJoinRules, \"\"}], nil"
]

def eventauth_AuthEvents_Member : List String := [
  "func func(stateKey spec.SenderID) (PDU, error)",
  "return a.events[StateKeyTuple{spec.MRoomMember, string(stateKey)}], nil"
]

def eventauth_AuthEvents_PowerLevels : List String := [
  "func func() (PDU, error)",
  "return a.events[StateKeyTuple{spec.MRoomPowerLevels, \"\"}], nil"
]

def eventauth_AuthEvents_ThirdPartyInvite : List String := [
  "func func(stateKey string) (PDU, error)",
  "return a.events[StateKeyTuple{spec.MRoomThirdPartyInvite, stateKey}], nil"
]

def eventauth_AuthEvents_Valid : List String := [
  "func func() bool",
  "return len(a.roomIDs) <= 1"
]

def eventauth_NotAllowed_Error : List String := [
  "func func() string",
  "return \"eventauth: \" + a.Message"
]

def eventauth_StateNeeded_AuthEventReferences : List String := [
  "func func(provider AuthEventProvider) (refs []string, err error)",
  "refs = make([]string, 0, 5)",
  "var e PDU",
  "if s.Create {",
  "if e, err = provider.Create(); err != nil {",
  "return",
  "} else if e != nil {",
  "refs = append(refs, e.EventID())",
  "}",
  "}",
  "if s.JoinRules {",
  "if e, err = provider.JoinRules(); err != nil {",
  "return",
  "} else if e != nil {",
  "refs = append(refs, e.EventID())",
  "}",
  "}",
  "if s.PowerLevels {",
  "if e, err = provider.PowerLevels(); err != nil {",
  "return",
  "} else if e != nil {",
  "refs = append(refs, e.EventID())",
  "}",
  "}",
  "for _, userID := range s.Member {",
  "if e, err = provider.Member(spec.SenderID(userID)); err != nil {",
  "return",
  "} else if e != nil {",
  "refs = append(refs, e.EventID())",
  "}",
  "}",
  "for _, token := range s.ThirdPartyInvite {",
  "if e, err = provider.ThirdPartyInvite(token); err != nil {",
  "return",
  "} else if e != nil {",
  "refs = append(refs, e.EventID())",
  "}",
  "}",
  "return"
]

def eventauth_StateNeeded_Tuples : List String := [
  "func func() (res []StateKeyTuple)",
  "if s.Create {",
  "res = append(res, StateKeyTuple{spec.MRoomCreate, \"\"})",
  "}",
  "if s.JoinRules {",
  "res = append(res, StateKeyTuple{spec.MRoomJoinRules, \"\"})",
  "}",
  "if s.PowerLevels {",
  "res = append(res, StateKeyTuple{spec.MRoomPowerLevels, \"\"})",
  "}",
  "for _, senderID := range s.Member {",
  "res = append(res, StateKeyTuple{spec.MRoomMember, senderID})",
  "}",
  "for _, token := range s.ThirdPartyInvite {",
  "res = append(res, StateKeyTuple{spec.MRoomThirdPartyInvite, token})",
  "}",
  "return"
]

def eventauth__Allowed : List String := [
  "func func(event PDU, authEvents AuthEventProvider, userIDQuerier spec.UserIDForSender) error",
  "if !authEvents.Valid() {",
  "return errorf(\"authEvents contains events from different rooms\")",
  "}",
  "return newAllowerContext(authEvents, userIDQuerier, event.RoomID()).allowed(event)"
]

def eventauth__NewAuthEvents : List String := [
  "func func(events []PDU) (*AuthEvents, error)",
  "a := AuthEvents{events: make(map[StateKeyTuple]PDU, len(events)), roomIDs: make(map[string]struct{})}",
  "for _, e := range events {",
  "if err := a.AddEvent(e); err != nil {",
  "return nil, err",
  "}",
  "}",
  "return &a, nil"
]

def eventauth__StateNeededForAuth : List String := [
  "func func(events []PDU) (result StateNeeded)",
  "for _, event := range events {",
  "var content *membershipContent",
  "if event.Type() == spec.MRoomMember {",
  "_ = json.Unmarshal(exactMembersOnly(event.Content(), content), &content)",
  "}",
  "_ = accumulateStateNeeded(&result, event.Type(), event.SenderID(), event.StateKey(), content)",
  "}",
  "result.Member = util.UniqueStrings(result.Member)",
  "result.ThirdPartyInvite = util.UniqueStrings(result.ThirdPartyInvite)",
  "return"
]

def eventauth__StateNeededForProtoEvent : List String := [
  "func func(protoEvent *ProtoEvent) (result StateNeeded, err error)",
  "var content *membershipContent",
  "if protoEvent.Type == spec.MRoomMember {",
  "if err = json.Unmarshal(exactMembersOnly(protoEvent.Content, content), &content); err != nil {",
  "err = errorf(\"unparseable member event content: %s\", err.Error())",
  "return",
  "}",
  "}",
  "err = accumulateStateNeeded(&result, protoEvent.Type, spec.SenderID(protoEvent.SenderID), protoEvent.StateKey, content)",
  "result.Member = util.UniqueStrings(result.Member)",
  "result.ThirdPartyInvite = util.UniqueStrings(result.ThirdPartyInvite)",
  "return"
]

def eventauth__accumulateStateNeeded : List String := [
  "func func(result *StateNeeded, eventType string, sender spec.SenderID, stateKey *string, content *membershipContent) (err error)",
  "switch eventType {",
  "case spec.MRoomCreate:",
  "case spec.MRoomAliases:",
  "result.Create = true",
  "case spec.MRoomMember:",
  "if content == nil {",
  "err = errorf(\"missing memberContent for m.room.member event\")",
  "return",
  "}",
  "result.Create = true",
  "result.PowerLevels = true",
  "result.Member = append(result.Member, string(sender))",
  "if stateKey != nil {",
  "result.Member = append(result.Member, *stateKey)",
  "}",
  "if content.Membership == spec.Join || content.Membership == spec.Knock || content.Membership == spec.Invite {",
  "result.JoinRules = true",
  "}",
  "if content.AuthorizedVia != \"\" {",
  "result.Member = append(result.Member, content.AuthorizedVia)",
  "}",
  "if content.ThirdPartyInvite != nil {",
  "token, tokErr := thirdPartyInviteToken(content.ThirdPartyInvite)",
  "if tokErr != nil {",
  "err = errorf(\"could not get third-party token: %s\", tokErr)",
  "return",
  "}",
  "result.ThirdPartyInvite = append(result.ThirdPartyInvite, token)",
  "}",
  "default:",
  "result.Create = true",
  "result.PowerLevels = true",
  "result.Member = append(result.Member, string(sender))",
  "}",
  "return"
]

def eventauth__allowRestrictedJoins : List String := [
  "func func() error",
  "return nil"
]

def eventauth__checkEventLevels : List String := [
  "func func(senderLevel int64, oldPowerLevels, newPowerLevels PowerLevelContent) error",
  "type levelPair struct { old int64 new int64 }",
  "levelChecks := []levelPair{{oldPowerLevels.Ban, newPowerLevels.Ban}, {oldPowerLevels.Invite, newPowerLevels.Invite}, {oldPowerLevels.Kick, newPowerLevels.Kick}, {oldPowerLevels.Redact, newPowerLevels.Redact}, {oldPowerLevels.StateDefault, newPowerLevels.StateDefault}, {oldPowerLevels.EventsDefault, newPowerLevels.EventsDefault}, {oldPowerLevels.UsersDefault, newPowerLevels.UsersDefault}}",
  "const ( isStateEvent = false )",
  "for eventType := range newPowerLevels.Events {",
  "levelChecks = append(levelChecks, levelPair{oldPowerLevels.EventLevel(eventType, isStateEvent), newPowerLevels.EventLevel(eventType, isStateEvent)})",
  "}",
  "for eventType := range oldPowerLevels.Events {",
  "levelChecks = append(levelChecks, levelPair{oldPowerLevels.EventLevel(eventType, isStateEvent), newPowerLevels.EventLevel(eventType, isStateEvent)})",
  "}",
  "for _, level := range levelChecks {",
  "if level.old == level.new {",
  "continue",
  "}",
  "if senderLevel < level.new {",
  "return errorf(\"sender with level %d is not allowed to change level from %d to %d\"+\" because the new level is above the level of the sender\", senderLevel, level.old, level.new)",
  "}",
  "if senderLevel < level.old {",
  "return errorf(\"sender with level %d is not allowed to change level from %d to %d\"+\" because the current level is above the level of the sender\", senderLevel, level.old, level.new)",
  "}",
  "}",
  "return nil"
]

def eventauth__checkKnocking : List String := [
  "func func(roomVer, sender, target, joinRule, prevMembership string) error",
  "supported := joinRule == spec.Knock || joinRule == spec.KnockRestricted",
  "if !supported {",
  "return errorf(\"%q is not allowed to change the membership of %q from %q as room version %q does not support knocking on rooms with join rule %q\", sender, target, prevMembership, roomVer, joinRule)",
  "}",
  "switch prevMembership {",
  "case spec.Join, spec.Invite, spec.Ban:",
  "return errorf(\"%q is not allowed to change the membership of %q from %q as sender is already joined/invited/banned\", sender, target, prevMembership)",
  "}",
  "return nil"
]

def eventauth__checkNotificationLevels : List String := [
  "func func(senderLevel int64, oldPowerLevels, newPowerLevels PowerLevelContent) error",
  "type levelPair struct { old int64 new int64 userID string }",
  "notificationLevelChecks := []levelPair{}",
  "for notification := range newPowerLevels.Notifications {",
  "notificationLevelChecks = append(notificationLevelChecks, levelPair{oldPowerLevels.NotificationLevel(notification), newPowerLevels.NotificationLevel(notification), notification})",
  "}",
  "for notification := range oldPowerLevels.Notifications {",
  "notificationLevelChecks = append(notificationLevelChecks, levelPair{oldPowerLevels.NotificationLevel(notification), newPowerLevels.NotificationLevel(notification), notification})",
  "}",
  "for _, level := range notificationLevelChecks {",
  "if level.old == level.new {",
  "continue",
  "}",
  "if senderLevel < level.new {",
  "return errorf(\"sender with level %d is not allowed change notification level from %d to %d\"+\" because the new level is above the level of the sender\", senderLevel, level.old, level.new)",
  "}",
  "if senderLevel <= level.old {",
  "return errorf(\"sender with level %d is not allowed to change notification level from %d to %d\"+\" because the old level is equal to or above the level of the sender\", senderLevel, level.old, level.new)",
  "}",
  "}",
  "return nil"
]

def eventauth__checkPowerLevelEventV1 : List String := [
  "func func(sender string, createEvent PDU, oldPowerLevels, newPowerLevels PowerLevelContent) error",
  "return nil"
]

def eventauth__checkPowerLevelEventV2 : List String := [
  "func func(sender string, createEvent PDU, oldPowerLevels, newPowerLevels PowerLevelContent) error",
  "senderLevel := oldPowerLevels.UserLevel(spec.SenderID(sender))",
  "return checkNotificationLevels(senderLevel, oldPowerLevels, newPowerLevels)"
]

def eventauth__checkPowerLevelEventV3 : List String := [
  "func func(sender string, createEvent PDU, oldPowerLevels, newPowerLevels PowerLevelContent) error",
  "var content CreateContent",
  "if err := json.Unmarshal(exactMembersOnly(createEvent.Content(), &content), &content); err != nil {",
  "return errorf(\"checkPowerLevelEventV3 unparseable create event content: %s\", err.Error())",
  "}",
  "creators := []string{string(createEvent.SenderID())}",
  "creators = append(creators, content.AdditionalCreators...)",
  "senderLevel := oldPowerLevels.UserLevel(spec.SenderID(sender))",
  "if slices.Contains(creators, sender) {",
  "senderLevel = CreatorPowerLevel",
  "}",
  "if err := checkNotificationLevels(senderLevel, oldPowerLevels, newPowerLevels); err != nil {",
  "return err",
  "}",
  "for userID := range newPowerLevels.Users {",
  "if slices.Contains(creators, userID) {",
  "return &EventValidationError{Code: 400, Message: fmt.Sprintf(\"new power levels event must not contain creator '%s'\", userID)}",
  "}",
  "}",
  "return nil"
]

def eventauth__checkUserLevels : List String := [
  "func func(senderLevel int64, senderID spec.SenderID, oldPowerLevels, newPowerLevels PowerLevelContent) error",
  "type levelPair struct { old int64 new int64 }",
  "userLevelChecks := map[spec.SenderID]levelPair{}",
  "for userSenderID := range newPowerLevels.Users {",
  "userLevelChecks[spec.SenderID(userSenderID)] = levelPair{old: oldPowerLevels.UserLevel(spec.SenderID(userSenderID)), new: newPowerLevels.UserLevel(spec.SenderID(userSenderID))}",
  "}",
  "for userSenderID := range oldPowerLevels.Users {",
  "userLevelChecks[spec.SenderID(userSenderID)] = levelPair{old: oldPowerLevels.UserLevel(spec.SenderID(userSenderID)), new: newPowerLevels.UserLevel(spec.SenderID(userSenderID))}",
  "}",
  "for userSenderID, level := range userLevelChecks {",
  "if level.old == level.new {",
  "continue",
  "}",
  "if senderLevel < level.new {",
  "return errorf(\"sender %q with level %d is not allowed change user %q level from %d to %d\"+\" because the new level is above the level of the sender\", senderID, senderLevel, userSenderID, level.old, level.new)",
  "}",
  "if userSenderID == senderID {",
  "continue",
  "}",
  "if senderLevel <= level.old {",
  "return errorf(\"sender %q with level %d is not allowed to change user %q level from %d to %d\"+\" because the old level is equal to or above the level of the sender\", senderID, senderLevel, userSenderID, level.old, level.new)",
  "}",
  "}",
  "return nil"
]

def eventauth__disallowKnocking : List String := [
  "func func(roomVer, sender, target, joinRule, prevMembership string) error",
  "if sender == target {",
  "return errorf(\"%q is not allowed to change their membership from %q as room version %q does not support knocking on rooms with join rule %q\", sender, prevMembership, roomVer, joinRule)",
  "}",
  "return errorf(\"%q is not allowed to change the membership of %q from %q as room version %q does not support knocking on rooms with join rule %q\", sender, target, prevMembership, roomVer, joinRule)"
]

def eventauth__disallowRestrictedJoins : List String := [
  "func func() error",
  "return errorf(\"restricted joins are not supported in this room version\")"
]

def eventauth__errorf : List String := [
  "func func(message string, args ...interface{}) error",
  "return &NotAllowed{Message: fmt.Sprintf(message, args...)}"
]

def eventauth__newAllowerContext : List String := [
  "func func(provider AuthEventProvider, userIDQuerier spec.UserIDForSender, roomID spec.RoomID) *allowerContext",
  "a := &allowerContext{userIDQuerier: userIDQuerier, roomID: roomID}",
  "a.update(provider)",
  "return a"
]

def eventauth__thirdPartyInviteToken : List String := [
  "func func(thirdPartyInvite *MemberThirdPartyInvite) (string, error)",
  "if thirdPartyInvite.Signed.Token == \"\" {",
  "return \"\", fmt.Errorf(\"missing 'third_party_invite.signed.token' JSON key\")",
  "}",
  "return thirdPartyInvite.Signed.Token, nil"
]

def eventauth_allowerContext_aliasEventAllowed : List String := [
  "func func(event PDU) error",
  "sender, err := a.userIDQuerier(a.roomID, event.SenderID())",
  "if err != nil {",
  "return err",
  "}",
  "if sender == nil {",
  "return errorf(\"userID not found for sender %q in room %q\", event.SenderID(), event.RoomID().String())",
  "}",
  "if event.RoomID().String() != a.create.roomID {",
  "return errorf(\"create event has different roomID: %q (%s) != %q (%s)\", event.RoomID().String(), event.EventID(), a.create.roomID, a.create.eventID)",
  "}",
  "if err := a.create.DomainAllowed(string(sender.Domain())); err != nil {",
  "return err",
  "}",
  "if event.StateKey() == nil {",
  "return errorf(\"alias event must be a state event\")",
  "}",
  "switch event.Version() {",
  "case RoomVersionPseudoIDs:",
  "if !event.StateKeyEquals(string(event.SenderID())) {",
  "return errorf(\"alias state_key does not match sender domain, %q != %q\", event.SenderID(), *event.StateKey())",
  "}",
  "default:",
  "if !event.StateKeyEquals(string(sender.Domain())) {",
  "return errorf(\"alias state_key does not match sender domain, %q != %q\", sender.Domain(), *event.StateKey())",
  "}",
  "}",
  "return nil"
]

def eventauth_allowerContext_allowed : List String := [
  "func func(event PDU) error",
  "if !a.provider.Valid() {",
  "return errorf(\"authEvents contains events from different rooms\")",
  "}",
  "switch event.Type() {",
  "case spec.MRoomCreate:",
  "return a.createEventAllowed(event)",
  "case spec.MRoomAliases:",
  "return a.aliasEventAllowed(event)",
  "}",
  "if a.powerLevelsErr != nil {",
  "return a.powerLevelsErr",
  "}",
  "switch event.Type() {",
  "case spec.MRoomMember:",
  "return a.memberEventAllowed(event)",
  "case spec.MRoomPowerLevels:",
  "return a.powerLevelsEventAllowed(event)",
  "case spec.MRoomRedaction:",
  "return a.redactEventAllowed(event)",
  "default:",
  "return a.defaultEventAllowed(event)",
  "}"
]

def eventauth_allowerContext_createEventAllowed : List String := [
  "func func(event PDU) error",
  "if !event.StateKeyEquals(\"\") {",
  "return errorf(\"create event state key is not empty: %v\", event.StateKey())",
  "}",
  "if len(event.PrevEventIDs()) > 0 {",
  "return errorf(\"create event must be the first event in the room: found %d prev_events\", len(event.PrevEventIDs()))",
  "}",
  "sender, err := a.userIDQuerier(a.roomID, event.SenderID())",
  "if err != nil {",
  "return err",
  "}",
  "if sender == nil {",
  "return errorf(\"userID not found for sender %q in room %q\", event.SenderID(), event.RoomID().String())",
  "}",
  "verImpl, err := GetRoomVersion(event.Version())",
  "if err != nil {",
  "return nil",
  "}",
  "if err = verImpl.CheckCreateEvent(event, *sender, KnownRoomVersion); err != nil {",
  "return err",
  "}",
  "return nil"
]

def eventauth_allowerContext_defaultEventAllowed : List String := [
  "func func(event PDU) error",
  "allower, err := a.newEventAllower(event.SenderID())",
  "if err != nil {",
  "return err",
  "}",
  "return allower.commonChecks(event)"
]

def eventauth_allowerContext_memberEventAllowed : List String := [
  "func func(event PDU) error",
  "allower, err := a.newMembershipAllower(a.provider, event)",
  "if err != nil {",
  "return err",
  "}",
  "return allower.membershipAllowed(event)"
]

def eventauth_allowerContext_newEventAllower : List String := [
  "func func(senderID spec.SenderID) (e eventAllower, err error)",
  "e.allowerContext = a",
  "if e.member, err = NewMemberContentFromAuthEvents(a.provider, senderID); err != nil {",
  "return",
  "}",
  "return"
]

def eventauth_allowerContext_newMembershipAllower : List String := [
  "func func(authEvents AuthEventProvider, event PDU) (m membershipAllower, err error)",
  "m.allowerContext = a",
  "m.joinRule = a.joinRule",
  "m.roomVersionImpl, err = GetRoomVersion(event.Version())",
  "if err != nil {",
  "return",
  "}",
  "stateKey := event.StateKey()",
  "if stateKey == nil {",
  "err = errorf(\"m.room.member must be a state event\")",
  "return",
  "}",
  "m.targetID = *stateKey",
  "m.senderID = string(event.SenderID())",
  "if m.newMember, err = NewMemberContentFromEvent(event); err != nil {",
  "return",
  "}",
  "if m.oldMember, err = NewMemberContentFromAuthEvents(authEvents, spec.SenderID(m.targetID)); err != nil {",
  "return",
  "}",
  "if m.senderMember, err = NewMemberContentFromAuthEvents(authEvents, spec.SenderID(m.senderID)); err != nil {",
  "return",
  "}",
  "if m.newMember.ThirdPartyInvite != nil && m.newMember.Membership == spec.Invite {",
  "var token string",
  "if token, err = thirdPartyInviteToken(m.newMember.ThirdPartyInvite); err != nil {",
  "err = errorf(\"could not get third-party token: %s\", err)",
  "return",
  "}",
  "if m.thirdPartyInvite, err = NewThirdPartyInviteContentFromAuthEvents(authEvents, token); err != nil {",
  "return",
  "}",
  "}",
  "return"
]

def eventauth_allowerContext_powerLevelsEventAllowed : List String := [
  "func func(event PDU) error",
  "allower, err := a.newEventAllower(event.SenderID())",
  "if err != nil {",
  "return err",
  "}",
  "if err = allower.commonChecks(event); err != nil {",
  "return err",
  "}",
  "newPowerLevels, err := NewPowerLevelContentFromEvent(event)",
  "if err != nil {",
  "return err",
  "}",
  "for senderID := range newPowerLevels.Users {",
  "sender, err := a.userIDQuerier(a.roomID, spec.SenderID(senderID))",
  "if err != nil {",
  "return err",
  "}",
  "if sender == nil || !isValidUserID(sender.String()) {",
  "return errorf(\"Not a valid user ID: %q\", senderID)",
  "}",
  "}",
  "oldPowerLevels := a.powerLevels",
  "senderLevel := a.userPowerLevel(event.SenderID())",
  "if err = checkEventLevels(senderLevel, oldPowerLevels, newPowerLevels); err != nil {",
  "return err",
  "}",
  "verImpl, err := GetRoomVersion(event.Version())",
  "if err != nil {",
  "return nil",
  "}",
  "if err = verImpl.CheckPowerLevelEvent(string(event.SenderID()), a.createEvent, oldPowerLevels, newPowerLevels); err != nil {",
  "return err",
  "}",
  "return checkUserLevels(senderLevel, event.SenderID(), oldPowerLevels, newPowerLevels)"
]

def eventauth_allowerContext_redactEventAllowed : List String := [
  "func func(event PDU) error",
  "allower, err := a.newEventAllower(event.SenderID())",
  "if err != nil {",
  "return err",
  "}",
  "if err = allower.commonChecks(event); err != nil {",
  "return err",
  "}",
  "roomVersion := allower.create.RoomVersion",
  "if roomVersion != nil && *roomVersion != \"1\" && *roomVersion != \"2\" {",
  "return nil",
  "}",
  "redactDomain, err := domainFromID(event.Redacts())",
  "if err != nil {",
  "return err",
  "}",
  "sender, err := a.userIDQuerier(a.roomID, event.SenderID())",
  "if err != nil {",
  "return err",
  "}",
  "if string(sender.Domain()) == redactDomain {",
  "return nil",
  "}",
  "senderLevel := allower.userPowerLevel(event.SenderID())",
  "redactLevel := allower.powerLevels.Redact",
  "if senderLevel >= redactLevel {",
  "return nil",
  "}",
  "return errorf(\"%q is not allowed to redact message from %q. %d < %d\", sender, redactDomain, senderLevel, redactLevel)"
]

def eventauth_allowerContext_resetCreate : List String := [
  "func func()",
  "a.create = CreateContent{}",
  "a.creators = nil",
  "a.privilegedCreators = false"
]

def eventauth_allowerContext_update : List String := [
  "func func(provider AuthEventProvider)",
  "if provider != a.provider {",
  "a.provider = provider",
  "a.createEvent, a.powerLevelsEvent, a.joinRuleEvent = nil, nil, nil",
  "a.resetCreate()",
  "a.powerLevels = PowerLevelContent{}",
  "a.powerLevelsErr = nil",
  "a.joinRule = JoinRuleContent{}",
  "}",
  "if e, _ := provider.Create(); a.createEvent == nil || a.createEvent != e {",
  "if c, err := NewCreateContentFromAuthEvents(provider, a.userIDQuerier); err == nil {",
  "a.createEvent = e",
  "a.create = c",
  "a.creators = CreatorsFromCreateEvent(e)",
  "verImpl := MustGetRoomVersion(e.Version())",
  "a.privilegedCreators = verImpl.PrivilegedCreators()",
  "} else {",
  "a.createEvent = nil",
  "a.resetCreate()",
  "}",
  "}",
  "if e, _ := provider.PowerLevels(); a.powerLevelsEvent == nil || a.powerLevelsEvent != e {",
  "creator := \"\"",
  "if a.createEvent != nil {",
  "creator = string(a.createEvent.SenderID())",
  "}",
  "if p, err := NewPowerLevelContentFromAuthEvents(provider, creator); err == nil {",
  "a.powerLevelsEvent = e",
  "a.powerLevels = p",
  "a.powerLevelsErr = nil",
  "} else {",
  "a.powerLevelsEvent = nil",
  "a.powerLevels = PowerLevelContent{}",
  "a.powerLevelsErr = err",
  "}",
  "}",
  "if e, _ := provider.JoinRules(); a.joinRuleEvent == nil || a.joinRuleEvent != e {",
  "if j, err := NewJoinRuleContentFromAuthEvents(provider); err == nil {",
  "a.joinRuleEvent, _ = provider.JoinRules()",
  "a.joinRule = j",
  "} else {",
  "a.joinRuleEvent = nil",
  "a.joinRule = JoinRuleContent{}",
  "}",
  "}"
]

def eventauth_allowerContext_userPowerLevel : List String := [
  "func func(userID spec.SenderID) int64",
  "if a.privilegedCreators {",
  "if slices.Contains(a.creators, string(userID)) {",
  "return CreatorPowerLevel",
  "}",
  "}",
  "if a.powerLevelsEvent == nil {",
  "if userID == a.createEvent.SenderID() {",
  "return CreatorPowerLevel - 1",
  "}",
  "return 0",
  "}",
  "return a.powerLevels.UserLevel(userID)"
]

def eventauth_eventAllower_commonChecks : List String := [
  "func func(event PDU) error",
  "if event.RoomID().String() != e.create.roomID {",
  "return errorf(\"create event has different roomID1: %q (%s) != %q (%s)\", event.RoomID().String(), event.EventID(), e.create.roomID, e.create.eventID)",
  "}",
  "stateKey := event.StateKey()",
  "userID, err := e.userIDQuerier(e.roomID, event.SenderID())",
  "if err != nil {",
  "return err",
  "}",
  "if userID == nil {",
  "return errorf(\"userID not found for sender %q in room %q\", event.SenderID(), event.RoomID().String())",
  "}",
  "if err := e.create.UserIDAllowed(*userID); err != nil {",
  "return err",
  "}",
  "if e.member.Membership != spec.Join {",
  "return errorf(\"sender %q not in room\", event.SenderID())",
  "}",
  "senderLevel := e.userPowerLevel(event.SenderID())",
  "eventLevel := e.powerLevels.EventLevel(event.Type(), stateKey != nil)",
  "if senderLevel < eventLevel {",
  "return errorf(\"sender %q is not allowed to send event. %d < %d\", event.SenderID(), senderLevel, eventLevel)",
  "}",
  "if event.Type() != spec.MRoomThirdPartyInvite && stateKey != nil && len(*stateKey) > 0 && (*stateKey)[0] == '@' {",
  "if spec.SenderID(*stateKey) != event.SenderID() {",
  "return errorf(\"sender %q is not allowed to modify the state belonging to %q\", event.SenderID(), *stateKey)",
  "}",
  "}",
  "return nil"
]

def eventauth_membershipAllower_membershipAllowed : List String := [
  "func func(event PDU) error",
  "if m.create.roomID != event.RoomID().String() {",
  "return errorf(\"create event has different roomID: %q (%s) != %q (%s)\", event.RoomID().String(), event.EventID(), m.create.roomID, m.create.eventID)",
  "}",
  "var sender *spec.UserID",
  "var err error",
  "if event.Type() == spec.MRoomMember {",
  "mapping := membershipContent{}",
  "if err := json.Unmarshal(exactMembersOnly(event.Content(), &mapping), &mapping); err != nil {",
  "return err",
  "}",
  "if mapping.MXIDMapping != nil && event.Version() == RoomVersionPseudoIDs {",
  "sender, err = spec.NewUserID(mapping.MXIDMapping.UserID, true)",
  "if err != nil {",
  "return err",
  "}",
  "}",
  "}",
  "if sender == nil {",
  "sender, err = m.userIDQuerier(m.roomID, spec.SenderID(m.senderID))",
  "if err != nil {",
  "return err",
  "}",
  "}",
  "if sender == nil {",
  "return errorf(\"userID not found for sender %q in room %q\", m.senderID, event.RoomID().String())",
  "}",
  "if err := m.create.UserIDAllowed(*sender); err != nil {",
  "return err",
  "}",
  "if m.targetID == string(m.createEvent.SenderID()) && m.newMember.Membership == spec.Join && m.senderID == m.targetID && len(event.PrevEventIDs()) == 1 {",
  "prevEventID := event.PrevEventIDs()[0]",
  "if prevEventID == m.create.eventID {",
  "return nil",
  "}",
  "}",
  "if m.newMember.Membership == spec.Invite && m.newMember.ThirdPartyInvite != nil {",
  "return m.membershipAllowedFromThirdPartyInvite()",
  "}",
  "if m.targetID == m.senderID {",
  "return m.membershipAllowedSelf()",
  "}",
  "return m.membershipAllowedOther()"
]

def eventauth_membershipAllower_membershipAllowedFromThirdPartyInvite : List String := [
  "func func() error",
  "if m.targetID != m.newMember.ThirdPartyInvite.Signed.MXID {",
  "return errorf(\"The invite target %s doesn't match with the Matrix ID provided by the identity server %s\", m.targetID, m.newMember.ThirdPartyInvite.Signed.MXID)",
  "}",
  "marshalledSigned, err := json.Marshal(m.newMember.ThirdPartyInvite.Signed)",
  "if err != nil {",
  "return err",
  "}",
  "for _, publicKey := range m.thirdPartyInvite.PublicKeys {",
  "for domain, signatures := range m.newMember.ThirdPartyInvite.Signed.Signatures {",
  "for keyID := range signatures {",
  "if strings.HasPrefix(keyID, \"ed25519\") {",
  "if err = VerifyJSON(domain, KeyID(keyID), ed25519.PublicKey(publicKey.PublicKey), marshalledSigned); err == nil {",
  "return nil",
  "}",
  "}",
  "}",
  "}",
  "}",
  "return errorf(\"Couldn't verify signature on third-party invite for %s\", m.targetID)"
]

def eventauth_membershipAllower_membershipAllowedOther : List String := [
  "func func() error",
  "senderLevel := m.userPowerLevel(spec.SenderID(m.senderID))",
  "targetLevel := m.userPowerLevel(spec.SenderID(m.targetID))",
  "if m.senderMember.Membership != spec.Join {",
  "return errorf(\"sender %q is not in the room\", m.senderID)",
  "}",
  "switch m.newMember.Membership {",
  "case spec.Ban:",
  "if senderLevel >= m.powerLevels.Ban && senderLevel > targetLevel {",
  "return nil",
  "}",
  "return m.membershipFailed(\"sender has insufficient power to ban (sender level %d, target level %d, ban level %d)\", senderLevel, targetLevel, m.powerLevels.Ban)",
  "case spec.Leave:",
  "if m.oldMember.Membership == spec.Ban {",
  "if senderLevel >= m.powerLevels.Ban {",
  "return nil",
  "}",
  "return m.membershipFailed(\"sender has insufficient power to unban (sender level %d, ban level %d)\", senderLevel, m.powerLevels.Ban)",
  "}",
  "if senderLevel >= m.powerLevels.Kick && senderLevel > targetLevel {",
  "return nil",
  "}",
  "return m.membershipFailed(\"sender has insufficient power to kick (sender level %d, target level %d, kick level %d)\", senderLevel, targetLevel, m.powerLevels.Kick)",
  "case spec.Invite:",
  "if senderLevel < m.powerLevels.Invite {",
  "return m.membershipFailed(\"sender has insufficient power to invite (sender level %d, invite level %d)\", senderLevel, m.powerLevels.Invite)",
  "}",
  "switch m.oldMember.Membership {",
  "case spec.Join, spec.Ban:",
  "return m.membershipFailed(\"target cannot be invited when their membership is %q\", m.oldMember.Membership)",
  "default:",
  "return nil",
  "}",
  "case spec.Knock, spec.Join:",
  "return m.membershipFailed(\"sender cannot set membership of another user to %q\", m.newMember.Membership)",
  "default:",
  "return m.membershipFailed(\"membership %q is unknown\", m.newMember.Membership)",
  "}"
]

def eventauth_membershipAllower_membershipAllowedSelf : List String := [
  "func func() error",
  "if m.oldMember.Membership == spec.Leave && m.newMember.Membership == spec.Leave {",
  "return nil",
  "}",
  "if m.oldMember.Membership == spec.Ban {",
  "return m.membershipFailed(\"sender cannot set their own membership to %q\", m.newMember.Membership)",
  "}",
  "switch m.newMember.Membership {",
  "case spec.Knock:",
  "return m.roomVersionImpl.CheckKnockingAllowed(string(m.roomVersionImpl.Version()), m.senderID, m.targetID, m.joinRule.JoinRule, m.oldMember.Membership)",
  "case spec.Join:",
  "if m.joinRule.JoinRule == spec.Restricted || m.joinRule.JoinRule == spec.KnockRestricted {",
  "if err := m.membershipAllowedSelfForRestrictedJoin(); err != nil {",
  "return err",
  "}",
  "if m.joinRule.JoinRule == spec.Public {",
  "return nil",
  "}",
  "}",
  "if m.oldMember.Membership == spec.Invite {",
  "return nil",
  "}",
  "if m.oldMember.Membership == spec.Join {",
  "return nil",
  "}",
  "if m.joinRule.JoinRule == spec.Public {",
  "return nil",
  "}",
  "return m.membershipFailed(\"join rule %q forbids it\", m.joinRule.JoinRule)",
  "case spec.Leave:",
  "switch m.oldMember.Membership {",
  "case spec.Join:",
  "return nil",
  "case spec.Invite:",
  "return nil",
  "case spec.Knock:",
  "return m.roomVersionImpl.CheckKnockingAllowed(string(m.roomVersionImpl.Version()), m.senderID, m.targetID, spec.Knock, m.oldMember.Membership)",
  "default:",
  "return m.membershipFailed(\"sender cannot leave from membership state %q\", m.oldMember.Membership)",
  "}",
  "case spec.Invite, spec.Ban:",
  "return m.membershipFailed(\"sender cannot set their own membership to %q\", m.newMember.Membership)",
  "default:",
  "return m.membershipFailed(\"membership %q is unknown\", m.newMember.Membership)",
  "}"
]

def eventauth_membershipAllower_membershipAllowedSelfForRestrictedJoin : List String := [
  "func func() error",
  "if err := m.roomVersionImpl.CheckRestrictedJoinsAllowed(); err != nil {",
  "return errorf(\"restricted joins are not supported in this room version\")",
  "}",
  "if m.oldMember.Membership == spec.Join || m.oldMember.Membership == spec.Invite || m.newMember.AuthorisedVia == \"\" {",
  "m.joinRule.JoinRule = spec.Invite",
  "return nil",
  "}",
  "switch m.roomVersionImpl.Version() {",
  "case RoomVersionPseudoIDs:",
  "default:",
  "if _, _, err := SplitID('@', m.newMember.AuthorisedVia); err != nil {",
  "return errorf(\"the 'join_authorised_via_users_server' contains an invalid value %q\", m.newMember.AuthorisedVia)",
  "}",
  "}",
  "otherMember, err := m.provider.Member(spec.SenderID(m.newMember.AuthorisedVia))",
  "if err != nil {",
  "return errorf(\"failed to find the membership event for 'join_authorised_via_users_server' user %q\", m.newMember.AuthorisedVia)",
  "}",
  "if otherMember == nil {",
  "return errorf(\"failed to find the membership event for 'join_authorised_via_users_server' user %q\", m.newMember.AuthorisedVia)",
  "}",
  "otherMembership, err := otherMember.Membership()",
  "if err != nil {",
  "return errorf(\"failed to find the membership status for 'join_authorised_via_users_server' user %q\", m.newMember.AuthorisedVia)",
  "}",
  "if otherMembership != spec.Join {",
  "return errorf(\"the nominated 'join_authorised_via_users_server' user %q is not joined to the room\", m.newMember.AuthorisedVia)",
  "}",
  "if pl := m.userPowerLevel(spec.SenderID(m.newMember.AuthorisedVia)); pl < m.powerLevels.Invite {",
  "return errorf(\"the nominated 'join_authorised_via_users_server' user %q does not have permission to invite (%d < %d)\", m.newMember.AuthorisedVia, pl, m.powerLevels.Invite)",
  "}",
  "m.joinRule.JoinRule = spec.Public",
  "return nil"
]

def eventauth_membershipAllower_membershipFailed : List String := [
  "func func(format string, args ...interface{}) error",
  "if m.senderID == m.targetID {",
  "return errorf(\"%q is not allowed to change their membership from %q to %q as \"+format, append([]interface{}{m.targetID, m.oldMember.Membership, m.newMember.Membership}, args...)...)",
  "}",
  "return errorf(\"%q is not allowed to change the membership of %q from %q to %q as \"+format, append([]interface{}{m.senderID, m.targetID, m.oldMember.Membership, m.newMember.Membership}, args...)...)"
]

def eventauth_type_AuthEventProvider : List String := [
  "type AuthEventProvider interface { Create() (PDU, error) JoinRules() (PDU, error) PowerLevels() (PDU, error) Member(stateKey spec.SenderID) (PDU, error) ThirdPartyInvite(stateKey string) (PDU, error) Valid() bool }"
]

def eventauth_type_AuthEvents : List String := [
  "type AuthEvents struct { events map[StateKeyTuple]PDU roomIDs map[string]struct{} }"
]

def eventauth_type_NotAllowed : List String := [
  "type NotAllowed struct{ Message string }"
]

def eventauth_type_StateNeeded : List String := [
  "type StateNeeded struct { Create bool JoinRules bool PowerLevels bool Member []string ThirdPartyInvite []string }"
]

def eventauth_type_allowerContext : List String := [
  "type allowerContext struct { provider AuthEventProvider userIDQuerier spec.UserIDForSender createEvent PDU powerLevelsEvent PDU joinRuleEvent PDU create CreateContent creators []string privilegedCreators bool powerLevels PowerLevelContent joinRule JoinRuleContent powerLevelsErr error roomID spec.RoomID }"
]

def eventauth_type_eventAllower : List String := [
  "type eventAllower struct { *allowerContext member MemberContent }"
]

def eventauth_type_membershipAllower : List String := [
  "type membershipAllower struct { *allowerContext roomVersionImpl IRoomVersion thirdPartyInvite ThirdPartyInviteContent targetID string senderID string senderMember MemberContent oldMember MemberContent newMember MemberContent joinRule JoinRuleContent }"
]

def eventauth_type_membershipContent : List String := [
  "type membershipContent struct { Membership string `json:\"membership\"` ThirdPartyInvite *MemberThirdPartyInvite `json:\"third_party_invite,omitempty\"` AuthorizedVia string `json:\"join_authorised_via_users_server,omitempty\"` MXIDMapping *MXIDMapping `json:\"mxid_mapping,omitempty\"` }"
]

def eventcontent_CreateContent_DomainAllowed : List String := [
  "func func(domain string) error",
  "if domain == c.senderDomain {",
  "return nil",
  "}",
  "if c.Federate == nil || *c.Federate {",
  "return nil",
  "}",
  "return errorf(\"room is unfederatable\")"
]

def eventcontent_CreateContent_UserIDAllowed : List String := [
  "func func(id spec.UserID) error",
  "return c.DomainAllowed(string(id.Domain()))"
]

def eventcontent_HistoryVisibility_Scan : List String := [
  "func func(src interface{}) error",
  "switch v := src.(type) { case int64: s, ok := hisVisIntToStringMapping[uint8(v)] if !ok { *h = HistoryVisibilityShared return nil } *h = s return nil case float64: s, ok := hisVisIntToStringMapping[uint8(v)] if !ok { *h = HistoryVisibilityShared return nil } *h = s return nil default: return fmt.Errorf(\"unknown source type: %T for HistoryVisibilty\", src) }"
]

def eventcontent_HistoryVisibility_Value : List String := [
  "func func() (driver.Value, error)",
  "v, ok := hisVisStringToIntMapping[h]",
  "if !ok {",
  "return int64(hisVisStringToIntMapping[HistoryVisibilityShared]), nil",
  "}",
  "return int64(v), nil"
]

def eventcontent_MXIDMapping_Sign : List String := [
  "func func(serverName spec.ServerName, keyID KeyID, privateKey ed25519.PrivateKey) error",
  "m.Signatures = nil",
  "unsorted, err := json.Marshal(m)",
  "if err != nil {",
  "return err",
  "}",
  "canonical, err := CanonicalJSON(unsorted)",
  "if err != nil {",
  "return err",
  "}",
  "signature := spec.Base64Bytes(ed25519.Sign(privateKey, canonical))",
  "if m.Signatures == nil {",
  "m.Signatures = make(map[spec.ServerName]map[KeyID]spec.Base64Bytes)",
  "}",
  "if m.Signatures[serverName] == nil {",
  "m.Signatures[serverName] = make(map[KeyID]spec.Base64Bytes)",
  "}",
  "m.Signatures[serverName][keyID] = signature",
  "return nil"
]

def eventcontent_PowerLevelContent_Defaults : List String := [
  "func func()",
  "c.Invite = 0",
  "c.Ban = 50",
  "c.Kick = 50",
  "c.Redact = 50",
  "c.UsersDefault = 0",
  "c.EventsDefault = 0",
  "c.StateDefault = 50",
  "c.Notifications = map[string]int64{\"room\": 50}"
]

def eventcontent_PowerLevelContent_EventLevel : List String := [
  "func func(eventType string, isState bool) int64",
  "if eventType == spec.MRoomThirdPartyInvite {",
  "return c.Invite",
  "}",
  "level, ok := c.Events[eventType]",
  "if ok {",
  "return level",
  "}",
  "if isState {",
  "return c.StateDefault",
  "}",
  "return c.EventsDefault"
]

def eventcontent_PowerLevelContent_NotificationLevel : List String := [
  "func func(notification string) int64",
  "level, ok := c.Notifications[notification]",
  "if ok {",
  "return level",
  "}",
  "return 50"
]

def eventcontent_PowerLevelContent_UserLevel : List String := [
  "func func(senderID spec.SenderID) int64",
  "level, ok := c.Users[string(senderID)]",
  "if ok {",
  "return level",
  "}",
  "return c.UsersDefault"
]

def eventcontent__CreatorsFromCreateEvent : List String := [
  "func func(createEvent PDU) (creators []string)",
  "creators = append(creators, string(createEvent.SenderID()))",
  "var content CreateContent",
  "err := json.Unmarshal(exactMembersOnly(createEvent.Content(), &content), &content)",
  "if err != nil {",
  "panic(\"invalid create event content: \" + string(createEvent.JSON()))",
  "}",
  "creators = append(creators, content.AdditionalCreators...)",
  "return creators"
]

def eventcontent__NewCreateContentFromAuthEvents : List String := [
  "func func(authEvents AuthEventProvider, userIDForSender spec.UserIDForSender) (c CreateContent, err error)",
  "var createEvent PDU",
  "if createEvent, err = authEvents.Create(); err != nil {",
  "return",
  "}",
  "if createEvent == nil {",
  "err = errorf(\"missing create event\")",
  "return",
  "}",
  "if err = json.Unmarshal(exactMembersOnly(createEvent.Content(), &c), &c); err != nil {",
  "err = errorf(\"unparseable create event content: %s\", err.Error())",
  "return",
  "}",
  "c.roomID = createEvent.RoomID().String()",
  "c.eventID = createEvent.EventID()",
  "sender, err := userIDForSender(createEvent.RoomID(), createEvent.SenderID())",
  "if err != nil {",
  "err = errorf(\"invalid sender userID: %s\", err.Error())",
  "return",
  "}",
  "if sender == nil {",
  "err = errorf(\"userID not found for sender: %s in room %s\", createEvent.SenderID(), createEvent.RoomID().String())",
  "return",
  "}",
  "c.senderDomain = string(sender.Domain())",
  "return"
]

def eventcontent__NewJoinRuleContentFromAuthEvents : List String := [
  "func func(authEvents AuthEventProvider) (c JoinRuleContent, err error)",
  "c.JoinRule = spec.Invite",
  "joinRulesEvent, err := authEvents.JoinRules()",
  "if err != nil {",
  "return",
  "}",
  "if joinRulesEvent == nil {",
  "return",
  "}",
  "if err = json.Unmarshal(exactMembersOnly(joinRulesEvent.Content(), &c), &c); err != nil {",
  "err = errorf(\"unparseable join_rules event content: %s\", err.Error())",
  "return",
  "}",
  "return"
]

def eventcontent__NewMemberContentFromAuthEvents : List String := [
  "func func(authEvents AuthEventProvider, senderID spec.SenderID) (c MemberContent, err error)",
  "var memberEvent PDU",
  "if memberEvent, err = authEvents.Member(senderID); err != nil {",
  "return",
  "}",
  "if memberEvent == nil {",
  "c.Membership = spec.Leave",
  "return",
  "}",
  "return NewMemberContentFromEvent(memberEvent)"
]

def eventcontent__NewMemberContentFromEvent : List String := [
  "func func(event PDU) (c MemberContent, err error)",
  "content, err := exactFieldsOnly(event.Content(), &c)",
  "if err != nil {",
  "err = errorf(\"unparseable member event content: %s\", err.Error())",
  "return",
  "}",
  "if err = json.Unmarshal(content, &c); err != nil {",
  "var partial membershipContent",
  "if err = json.Unmarshal(content, &partial); err != nil {",
  "err = errorf(\"unparseable member event content: %s\", err.Error())",
  "return",
  "}",
  "c.Membership = partial.Membership",
  "c.ThirdPartyInvite = partial.ThirdPartyInvite",
  "c.AuthorisedVia = partial.AuthorizedVia",
  "c.MXIDMapping = partial.MXIDMapping",
  "}",
  "return"
]

def eventcontent__NewPowerLevelContentFromAuthEvents : List String := [
  "func func(authEvents AuthEventProvider, creatorUserID string) (c PowerLevelContent, err error)",
  "powerLevelsEvent, err := authEvents.PowerLevels()",
  "if err != nil {",
  "return",
  "}",
  "if powerLevelsEvent != nil {",
  "return NewPowerLevelContentFromEvent(powerLevelsEvent)",
  "}",
  "c.Defaults()",
  "c.Users = map[string]int64{creatorUserID: 9007199254740991}",
  "c.StateDefault = 50",
  "return"
]

def eventcontent__NewPowerLevelContentFromEvent : List String := [
  "func func(event PDU) (c PowerLevelContent, err error)",
  "c.Defaults()",
  "verImpl, err := GetRoomVersion(event.Version())",
  "if err != nil {",
  "return c, err",
  "}",
  "if err = verImpl.ParsePowerLevels(event.Content(), &c); err != nil {",
  "err = errorf(\"unparseable power_levels event content: %s\", err.Error())",
  "return",
  "}",
  "return"
]

def eventcontent__NewThirdPartyInviteContentFromAuthEvents : List String := [
  "func func(authEvents AuthEventProvider, token string) (t ThirdPartyInviteContent, err error)",
  "var thirdPartyInviteEvent PDU",
  "if thirdPartyInviteEvent, err = authEvents.ThirdPartyInvite(token); err != nil {",
  "return",
  "}",
  "if thirdPartyInviteEvent == nil {",
  "err = errorf(\"Couldn't find third party invite event\")",
  "return",
  "}",
  "if err = json.Unmarshal(exactMembersOnly(thirdPartyInviteEvent.Content(), &t), &t); err != nil {",
  "err = errorf(\"unparseable third party invite event content: %s\", err.Error())",
  "}",
  "return"
]

def eventcontent__checkCreateEventV1 : List String := [
  "func func(event PDU, sender spec.UserID, knownRoomVersion KnownRoomVersionFunc) error",
  "if sender.Domain() != event.RoomID().Domain() {",
  "return errorf(\"create event room ID domain does not match sender: %q != %q\", event.RoomID().Domain(), sender.String())",
  "}",
  "c := struct { Creator *string `json:\"creator\"` RoomVersion *RoomVersion `json:\"room_version\"` }{}",
  "if err := json.Unmarshal(exactMembersOnly(event.Content(), &c), &c); err != nil {",
  "return errorf(\"create event has invalid content: %s\", err.Error())",
  "}",
  "if c.Creator == nil {",
  "return errorf(\"create event has no creator field\")",
  "}",
  "if c.RoomVersion != nil {",
  "if !knownRoomVersion(*c.RoomVersion) {",
  "return errorf(\"create event has unrecognised room version %q\", *c.RoomVersion)",
  "}",
  "}",
  "return nil"
]

def eventcontent__checkCreateEventV2 : List String := [
  "func func(event PDU, sender spec.UserID, knownRoomVersion KnownRoomVersionFunc) error",
  "if sender.Domain() != event.RoomID().Domain() {",
  "return errorf(\"create event room ID domain does not match sender: %q != %q\", event.RoomID().Domain(), sender.String())",
  "}",
  "c := struct { RoomVersion *RoomVersion `json:\"room_version\"` }{}",
  "if err := json.Unmarshal(exactMembersOnly(event.Content(), &c), &c); err != nil {",
  "return errorf(\"create event has invalid content: %s\", err.Error())",
  "}",
  "if c.RoomVersion != nil {",
  "if !knownRoomVersion(*c.RoomVersion) {",
  "return errorf(\"create event has unrecognised room version %q\", *c.RoomVersion)",
  "}",
  "}",
  "return nil"
]

def eventcontent__checkCreateEventV3 : List String := [
  "func func(event PDU, sender spec.UserID, knownRoomVersion KnownRoomVersionFunc) error",
  "c := struct { RoomVersion *RoomVersion `json:\"room_version\"` AdditionalCreators []string `json:\"additional_creators\"` }{}",
  "if err := json.Unmarshal(exactMembersOnly(event.Content(), &c), &c); err != nil {",
  "return errorf(\"create event has invalid content: %s\", err.Error())",
  "}",
  "if c.RoomVersion != nil {",
  "if !knownRoomVersion(*c.RoomVersion) {",
  "return errorf(\"create event has unrecognised room version %q\", *c.RoomVersion)",
  "}",
  "}",
  "if c.AdditionalCreators != nil {",
  "for _, creator := range c.AdditionalCreators {",
  "_, err := spec.NewUserID(creator, true)",
  "if err != nil {",
  "return errorf(\"additional creator '%s' invalid: %s\", creator, err)",
  "}",
  "}",
  "}",
  "ev := struct { RoomID string `json:\"room_id\"` }{}",
  "if err := json.Unmarshal(event.JSON(), &ev); err != nil {",
  "return errorf(\"create event cannot be valid json: %s\", err.Error())",
  "}",
  "if ev.RoomID != \"\" {",
  "return errorf(\"create event must not have a room_id set\")",
  "}",
  "return nil"
]

def eventcontent__domainFromID : List String := [
  "func func(id string) (string, error)",
  "parts := strings.SplitN(id, \":\", 2)",
  "if len(parts) != 2 {",
  "return \"\", errorf(\"invalid ID: %q\", id)",
  "}",
  "return parts[1], nil"
]

def eventcontent__isValidUserID : List String := [
  "func func(userID string) bool",
  "return userID[0] == '@' && strings.IndexByte(userID, ':') != -1"
]

def eventcontent__parseIntegerPowerLevels : List String := [
  "func func(contentBytes []byte, c *PowerLevelContent) error",
  "contentBytes = exactMembersOnly(contentBytes, c)",
  "var nulls struct { Ban notNullLevel `json:\"ban\"` Invite notNullLevel `json:\"invite\"` Kick notNullLevel `json:\"kick\"` Redact notNullLevel `json:\"redact\"` Users notNullLevels `json:\"users\"` UsersDefault notNullLevel `json:\"users_default\"` Events notNullLevels `json:\"events\"` EventsDefault notNullLevel `json:\"events_default\"` StateDefault notNullLevel `json:\"state_default\"` Notifications notNullLevels `json:\"notifications\"` }",
  "if err := json.Unmarshal(contentBytes, &nulls); err != nil {",
  "return err",
  "}",
  "return json.Unmarshal(contentBytes, c)"
]

def eventcontent__parsePowerLevels : List String := [
  "func func(contentBytes []byte, c *PowerLevelContent) error",
  "contentBytes = exactMembersOnly(contentBytes, c)",
  "var content struct { InviteLevel levelJSONValue `json:\"invite\"` BanLevel levelJSONValue `json:\"ban\"` KickLevel levelJSONValue `json:\"kick\"` RedactLevel levelJSONValue `json:\"redact\"` UserLevels map[string]levelJSONValue `json:\"users\"` UsersDefaultLevel levelJSONValue `json:\"users_default\"` EventLevels map[string]levelJSONValue `json:\"events\"` StateDefaultLevel levelJSONValue `json:\"state_default\"` EventDefaultLevel levelJSONValue `json:\"events_default\"` NotificationLevels map[string]levelJSONValue `json:\"notifications\"` }",
  "if err := json.Unmarshal(contentBytes, &content); err != nil {",
  "return errorf(\"unparseable power_levels event content: %s\", err.Error())",
  "}",
  "content.InviteLevel.assignIfExists(&c.Invite)",
  "content.BanLevel.assignIfExists(&c.Ban)",
  "content.KickLevel.assignIfExists(&c.Kick)",
  "content.RedactLevel.assignIfExists(&c.Redact)",
  "content.UsersDefaultLevel.assignIfExists(&c.UsersDefault)",
  "content.StateDefaultLevel.assignIfExists(&c.StateDefault)",
  "content.EventDefaultLevel.assignIfExists(&c.EventsDefault)",
  "for k, v := range content.UserLevels {",
  "if c.Users == nil {",
  "c.Users = make(map[string]int64)",
  "}",
  "c.Users[k] = v.value",
  "}",
  "for k, v := range content.EventLevels {",
  "if c.Events == nil {",
  "c.Events = make(map[string]int64)",
  "}",
  "c.Events[k] = v.value",
  "}",
  "for k, v := range content.NotificationLevels {",
  "if c.Notifications == nil {",
  "c.Notifications = make(map[string]int64)",
  "}",
  "c.Notifications[k] = v.value",
  "}",
  "return nil"
]

def eventcontent_levelJSONValue_UnmarshalJSON : List String := [
  "func func(data []byte) error",
  "var stringValue string",
  "var int64Value int64",
  "var floatValue float64",
  "var err error",
  "if int64Value, err = strconv.ParseInt(string(data), 10, 64); err != nil {",
  "if err = json.Unmarshal(data, &stringValue); err != nil {",
  "if floatValue, err = strconv.ParseFloat(string(data), 64); err != nil {",
  "return err",
  "}",
  "int64Value = int64(floatValue)",
  "} else {",
  "int64Value, err = strconv.ParseInt(strings.TrimSpace(stringValue), 10, 64)",
  "if err != nil {",
  "return err",
  "}",
  "}",
  "}",
  "v.exists = true",
  "v.value = int64Value",
  "return nil"
]

def eventcontent_levelJSONValue_assignIfExists : List String := [
  "func func(to *int64)",
  "if v.exists {",
  "*to = v.value",
  "}"
]

def eventcontent_notNullLevel_UnmarshalJSON : List String := [
  "func func(data []byte) error",
  "if string(data) == \"null\" {",
  "return fmt.Errorf(\"power level is null\")",
  "}",
  "return nil"
]

def eventcontent_notNullLevels_UnmarshalJSON : List String := [
  "func func(data []byte) error",
  "var levels map[string]notNullLevel",
  "if err := json.Unmarshal(data, &levels); err != nil {",
  "return err",
  "}",
  "if levels == nil {",
  "return fmt.Errorf(\"map of power levels is null\")",
  "}",
  "return nil"
]

def eventcontent_type_CreateContent : List String := [
  "type CreateContent struct { senderDomain string roomID string eventID string Federate *bool `json:\"m.federate,omitempty\"` Creator string `json:\"creator\"` RoomVersion *RoomVersion `json:\"room_version,omitempty\"` Predecessor *PreviousRoom `json:\"predecessor,omitempty\"` RoomType string `json:\"type,omitempty\"` AdditionalCreators []string `json:\"additional_creators,omitempty\"` }"
]

def eventcontent_type_HistoryVisibility : List String := [
  "type HistoryVisibility string"
]

def eventcontent_type_HistoryVisibilityContent : List String := [
  "type HistoryVisibilityContent struct { HistoryVisibility HistoryVisibility `json:\"history_visibility\"` }"
]

def eventcontent_type_JoinRuleContent : List String := [
  "type JoinRuleContent struct { JoinRule string `json:\"join_rule\"` Allow []JoinRuleContentAllowRule `json:\"allow,omitempty\"` }"
]

def eventcontent_type_JoinRuleContentAllowRule : List String := [
  "type JoinRuleContentAllowRule struct { Type string `json:\"type\"` RoomID string `json:\"room_id\"` }"
]

def eventcontent_type_MXIDMapping : List String := [
  "type MXIDMapping struct { UserRoomKey spec.SenderID `json:\"user_room_key\"` UserID string `json:\"user_id\"` Signatures map[spec.ServerName]map[KeyID]spec.Base64Bytes `json:\"signatures,omitempty\"` }"
]

def eventcontent_type_MemberContent : List String := [
  "type MemberContent struct { Membership string `json:\"membership\"` DisplayName string `json:\"displayname,omitempty\"` AvatarURL string `json:\"avatar_url,omitempty\"` Reason string `json:\"reason,omitempty\"` IsDirect bool `json:\"is_direct,omitempty\"` ThirdPartyInvite *MemberThirdPartyInvite `json:\"third_party_invite,omitempty\"` AuthorisedVia string `json:\"join_authorised_via_users_server,omitempty\"` MXIDMapping *MXIDMapping `json:\"mxid_mapping,omitempty\"` }"
]

def eventcontent_type_MemberThirdPartyInvite : List String := [
  "type MemberThirdPartyInvite struct { DisplayName string `json:\"display_name\"` Signed MemberThirdPartyInviteSigned `json:\"signed\"` }"
]

def eventcontent_type_MemberThirdPartyInviteSigned : List String := [
  "type MemberThirdPartyInviteSigned struct { MXID string `json:\"mxid\"` Signatures map[string]map[string]string `json:\"signatures\"` Token string `json:\"token\"` }"
]

def eventcontent_type_PowerLevelContent : List String := [
  "type PowerLevelContent struct { Ban int64 `json:\"ban\"` Invite int64 `json:\"invite\"` Kick int64 `json:\"kick\"` Redact int64 `json:\"redact\"` Users map[string]int64 `json:\"users\"` UsersDefault int64 `json:\"users_default\"` Events map[string]int64 `json:\"events\"` EventsDefault int64 `json:\"events_default\"` StateDefault int64 `json:\"state_default\"` Notifications map[string]int64 `json:\"notifications\"` }"
]

def eventcontent_type_PreviousRoom : List String := [
  "type PreviousRoom struct { RoomID string `json:\"room_id\"` EventID string `json:\"event_id\"` }"
]

def eventcontent_type_PublicKey : List String := [
  "type PublicKey struct { PublicKey spec.Base64Bytes `json:\"public_key\"` KeyValidityURL string `json:\"key_validity_url\"` }"
]

def eventcontent_type_RelatesTo : List String := [
  "type RelatesTo struct { EventID string `json:\"event_id\"` RelationType string `json:\"rel_type\"` }"
]

def eventcontent_type_RelationContent : List String := [
  "type RelationContent struct { Relations *RelatesTo `json:\"m.relates_to\"` }"
]

def eventcontent_type_ThirdPartyInviteContent : List String := [
  "type ThirdPartyInviteContent struct { DisplayName string `json:\"display_name\"` KeyValidityURL string `json:\"key_validity_url\"` PublicKey string `json:\"public_key\"` PublicKeys []PublicKey `json:\"public_keys\"` }"
]

def eventcontent_type_levelJSONValue : List String := [
  "type levelJSONValue struct { exists bool value int64 }"
]

def eventcontent_type_notNullLevel : List String := [
  "type notNullLevel struct{}"
]

def eventcontent_type_notNullLevels : List String := [
  "type notNullLevels struct{}"
]

def eventcrypto__VerifyAllEventSignatures : List String := [
  "func func(ctx context.Context, events []PDU, verifier JSONVerifier, userIDForSender spec.UserIDForSender) []error",
  "errors := make([]error, 0, len(events))",
  "for _, e := range events {",
  "errors = append(errors, VerifyEventSignatures(ctx, e, verifier, userIDForSender))",
  "}",
  "return errors"
]

def eventcrypto__VerifyEventSignatures : List String := [
  "func func(ctx context.Context, e PDU, verifier JSONVerifier, userIDForSender spec.UserIDForSender) error",
  "if userIDForSender == nil {",
  "panic(\"UserIDForSender func is nil\")",
  "}",
  "var serverName spec.ServerName",
  "needed := map[spec.ServerName]struct{}{}",
  "verImpl, err := GetRoomVersion(e.Version())",
  "if err != nil {",
  "return err",
  "}",
  "switch e.Version() {",
  "case RoomVersionPseudoIDs:",
  "needed[spec.ServerName(e.SenderID())] = struct{}{}",
  "default:",
  "sender, err := userIDForSender(e.RoomID(), e.SenderID())",
  "if err != nil {",
  "return fmt.Errorf(\"invalid sender userID: %w\", err)",
  "}",
  "if sender != nil {",
  "serverName = sender.Domain()",
  "needed[serverName] = struct{}{}",
  "}",
  "format := verImpl.EventIDFormat()",
  "if format == EventIDFormatV1 {",
  "_, serverName, err = SplitID('$', e.EventID())",
  "if err != nil {",
  "return fmt.Errorf(\"failed to split event ID: %w\", err)",
  "}",
  "needed[serverName] = struct{}{}",
  "}",
  "}",
  "if e.Type() == spec.MRoomMember {",
  "membership, err := membershipForSignatures(e)",
  "if err != nil {",
  "return fmt.Errorf(\"failed to get membership of membership event: %w\", err)",
  "}",
  "if verImpl.Version() == RoomVersionPseudoIDs && membership == spec.Join {",
  "mapping, err := getMXIDMapping(e)",
  "if err != nil {",
  "return err",
  "}",
  "if mapping.UserRoomKey != e.SenderID() {",
  "return fmt.Errorf(\"mxid_mapping is for %q, not for the sender %q\", mapping.UserRoomKey, e.SenderID())",
  "}",
  "err = validateMXIDMappingSignatures(ctx, e, *mapping, verifier, verImpl)",
  "if err != nil {",
  "return err",
  "}",
  "}",
  "if membership == spec.Invite {",
  "switch e.Version() {",
  "case RoomVersionPseudoIDs:",
  "needed[spec.ServerName(*e.StateKey())] = struct{}{}",
  "default:",
  "_, serverName, err = SplitID('@', *e.StateKey())",
  "if err != nil {",
  "return fmt.Errorf(\"failed to split state key: %w\", err)",
  "}",
  "needed[serverName] = struct{}{}",
  "}",
  "}",
  "if membership == spec.Join {",
  "auth, err := verImpl.RestrictedJoinServername(e.Content())",
  "if err != nil {",
  "return err",
  "}",
  "if auth != \"\" {",
  "needed[auth] = struct{}{}",
  "}",
  "}",
  "}",
  "redactedJSON, err := verImpl.RedactEventJSON(e.JSON())",
  "if err != nil {",
  "return fmt.Errorf(\"failed to redact event: %w\", err)",
  "}",
  "var toVerify []VerifyJSONRequest",
  "for serverName := range needed {",
  "v := VerifyJSONRequest{Message: redactedJSON, AtTS: e.OriginServerTS(), ServerName: serverName, ValidityCheckingFunc: verImpl.SignatureValidityCheck}",
  "toVerify = append(toVerify, v)",
  "}",
  "if verImpl.Version() == RoomVersionPseudoIDs {",
  "verifier = JSONVerifierSelf{}",
  "}",
  "results, err := verifier.VerifyJSONs(ctx, toVerify)",
  "if err != nil {",
  "return fmt.Errorf(\"failed to verify JSONs: %w\", err)",
  "}",
  "for _, result := range results {",
  "if result.Error != nil {",
  "return result.Error",
  "}",
  "}",
  "return nil"
]

def eventcrypto__addContentHashesToEvent : List String := [
  "func func(eventJSON []byte) ([]byte, error)",
  "var event map[string]spec.RawJSON",
  "if err := json.Unmarshal(eventJSON, &event); err != nil {",
  "return nil, err",
  "}",
  "unsignedJSON := event[\"unsigned\"]",
  "signatures := event[\"signatures\"]",
  "delete(event, \"signatures\")",
  "delete(event, \"unsigned\")",
  "delete(event, \"hashes\")",
  "hashableEventJSON, err := json.Marshal(event)",
  "if err != nil {",
  "return nil, err",
  "}",
  "hashableEventJSON, err = CanonicalJSON(hashableEventJSON)",
  "if err != nil {",
  "return nil, err",
  "}",
  "sha256Hash := sha256.Sum256(hashableEventJSON)",
  "hashes := struct { Sha256 spec.Base64Bytes `json:\"sha256\"` }{spec.Base64Bytes(sha256Hash[:])}",
  "hashesJSON, err := json.Marshal(&hashes)",
  "if err != nil {",
  "return nil, err",
  "}",
  "if len(unsignedJSON) > 0 {",
  "event[\"unsigned\"] = unsignedJSON",
  "}",
  "if len(signatures) > 0 {",
  "event[\"signatures\"] = signatures",
  "}",
  "event[\"hashes\"] = spec.RawJSON(hashesJSON)",
  "return json.Marshal(event)"
]

def eventcrypto__checkEventContentHash : List String := [
  "func func(eventJSON []byte) error",
  "var err error",
  "result := gjson.GetBytes(eventJSON, \"hashes.sha256\")",
  "var hash spec.Base64Bytes",
  "if err = hash.Decode(result.Str); err != nil {",
  "return err",
  "}",
  "hashableEventJSON := eventJSON",
  "for _, key := range []string{\"signatures\", \"unsigned\", \"hashes\"} {",
  "if hashableEventJSON, err = sjson.DeleteBytes(hashableEventJSON, key); err != nil {",
  "return err",
  "}",
  "}",
  "sha256Hash := sha256.Sum256(hashableEventJSON)",
  "if !bytes.Equal(sha256Hash[:], []byte(hash)) {",
  "return fmt.Errorf(\"Invalid Sha256 content hash: %v != %v\", sha256Hash[:], []byte(hash))",
  "}",
  "return nil"
]

def eventcrypto__emptyAuthorisedViaServerName : List String := [
  "func func([]byte) (spec.ServerName, error)",
  "return \"\", nil"
]

def eventcrypto__extractAuthorisedViaServerName : List String := [
  "func func(content []byte) (spec.ServerName, error)",
  "var members map[string]json.RawMessage",
  "if err := json.Unmarshal(content, &members); err != nil {",
  "return \"\", fmt.Errorf(\"failed to read member content: %w\", err)",
  "}",
  "if v, ok := members[\"join_authorised_via_users_server\"]; ok {",
  "var userID string",
  "if err := json.Unmarshal(v, &userID); err != nil {",
  "return \"\", fmt.Errorf(\"failed to read authorised user: %w\", err)",
  "}",
  "_, serverName, err := SplitID('@', userID)",
  "if err != nil {",
  "return \"\", fmt.Errorf(\"failed to split authorised server: %w\", err)",
  "}",
  "if serverName == \"\" {",
  "return \"\", fmt.Errorf(\"authorised user %q has no server name\", userID)",
  "}",
  "return serverName, nil",
  "}",
  "return \"\", nil"
]

def eventcrypto__getMXIDMapping : List String := [
  "func func(e PDU) (*MXIDMapping, error)",
  "var content MemberContent",
  "exact, err := exactFieldsOnly(e.Content(), &content)",
  "if err != nil {",
  "return nil, err",
  "}",
  "err = json.Unmarshal(exact, &content)",
  "if err != nil {",
  "return nil, err",
  "}",
  "if content.MXIDMapping == nil {",
  "return nil, fmt.Errorf(\"missing mxid_mapping\")",
  "}",
  "return content.MXIDMapping, nil"
]

def eventcrypto__membershipForSignatures : List String := [
  "func func(e PDU) (string, error)",
  "var content struct { Membership string `json:\"membership\"` }",
  "exact, err := exactFieldsOnly(e.Content(), &content)",
  "if err != nil {",
  "return \"\", err",
  "}",
  "if err = json.Unmarshal(exact, &content); err != nil {",
  "return \"\", err",
  "}",
  "if e.StateKey() == nil {",
  "return \"\", fmt.Errorf(\"gomatrixserverlib: not a m.room.member event, missing state key\")",
  "}",
  "return content.Membership, nil"
]

def eventcrypto__referenceOfEvent : List String := [
  "func func(eventJSON []byte, roomVersion RoomVersion) (eventReference, error)",
  "verImpl, err := GetRoomVersion(roomVersion)",
  "if err != nil {",
  "return eventReference{}, err",
  "}",
  "return referenceOfEventForVersion(eventJSON, verImpl)"
]

def eventcrypto__referenceOfEventForVersion : List String := [
  "func func(eventJSON []byte, verImpl IRoomVersion) (eventReference, error)",
  "redactedJSON, err := verImpl.RedactEventJSON(eventJSON)",
  "if err != nil {",
  "return eventReference{}, err",
  "}",
  "var event map[string]spec.RawJSON",
  "if err = json.Unmarshal(redactedJSON, &event); err != nil {",
  "return eventReference{}, err",
  "}",
  "delete(event, \"signatures\")",
  "delete(event, \"unsigned\")",
  "hashableEventJSON, err := json.Marshal(event)",
  "if err != nil {",
  "return eventReference{}, err",
  "}",
  "hashableEventJSON, err = CanonicalJSON(hashableEventJSON)",
  "if err != nil {",
  "return eventReference{}, err",
  "}",
  "sha256Hash := sha256.Sum256(hashableEventJSON)",
  "var eventID string",
  "eventFormat := verImpl.EventFormat()",
  "eventIDFormat := verImpl.EventIDFormat()",
  "switch eventFormat {",
  "case EventFormatV1:",
  "if err = json.Unmarshal(event[\"event_id\"], &eventID); err != nil {",
  "return eventReference{}, err",
  "}",
  "case EventFormatV2:",
  "var encoder *base64.Encoding",
  "switch eventIDFormat {",
  "case EventIDFormatV2:",
  "encoder = base64.RawStdEncoding.WithPadding(base64.NoPadding)",
  "case EventIDFormatV3:",
  "encoder = base64.RawURLEncoding.WithPadding(base64.NoPadding)",
  "default:",
  "return eventReference{}, UnsupportedRoomVersionError{Version: verImpl.Version()}",
  "}",
  "eventID = fmt.Sprintf(\"$%s\", encoder.EncodeToString(sha256Hash[:]))",
  "default:",
  "return eventReference{}, UnsupportedRoomVersionError{Version: verImpl.Version()}",
  "}",
  "return eventReference{eventID, sha256Hash[:]}, nil"
]

def eventcrypto__signEvent : List String := [
  "func func(signingName string, keyID KeyID, privateKey ed25519.PrivateKey, eventJSON []byte, roomVersion RoomVersion) ([]byte, error)",
  "verImpl, err := GetRoomVersion(roomVersion)",
  "if err != nil {",
  "return nil, err",
  "}",
  "redactedJSON, err := verImpl.RedactEventJSON(eventJSON)",
  "if err != nil {",
  "return nil, err",
  "}",
  "signedJSON, err := SignJSON(signingName, keyID, privateKey, redactedJSON)",
  "if err != nil {",
  "return nil, err",
  "}",
  "var signedEvent struct { Signatures spec.RawJSON `json:\"signatures\"` }",
  "if err := json.Unmarshal(signedJSON, &signedEvent); err != nil {",
  "return nil, err",
  "}",
  "var event map[string]spec.RawJSON",
  "if err := json.Unmarshal(eventJSON, &event); err != nil {",
  "return nil, err",
  "}",
  "event[\"signatures\"] = signedEvent.Signatures",
  "return json.Marshal(event)"
]

def eventcrypto__validateMXIDMappingSignatures : List String := [
  "func func(ctx context.Context, e PDU, mapping MXIDMapping, verifier JSONVerifier, verImpl IRoomVersion) error",
  "mappingBytes, err := json.Marshal(mapping)",
  "if err != nil {",
  "return err",
  "}",
  "_, userServer, err := SplitID('@', mapping.UserID)",
  "if err != nil {",
  "return fmt.Errorf(\"failed to verify MXIDMapping: %w\", err)",
  "}",
  "if _, ok := mapping.Signatures[userServer]; !ok {",
  "return fmt.Errorf(\"failed to verify MXIDMapping: not signed by %q\", userServer)",
  "}",
  "var toVerify []VerifyJSONRequest",
  "for s := range mapping.Signatures {",
  "v := VerifyJSONRequest{Message: mappingBytes, AtTS: e.OriginServerTS(), ServerName: s, ValidityCheckingFunc: verImpl.SignatureValidityCheck}",
  "toVerify = append(toVerify, v)",
  "}",
  "results, err := verifier.VerifyJSONs(ctx, toVerify)",
  "if err != nil {",
  "return fmt.Errorf(\"failed to verify MXIDMapping: %w\", err)",
  "}",
  "for _, result := range results {",
  "if result.Error != nil {",
  "return fmt.Errorf(\"failed to verify MXIDMapping: %w\", result.Error)",
  "}",
  "}",
  "return err"
]

def eventversion_RoomVersionImpl_CheckCanonicalJSON : List String := [
  "func func(eventJSON []byte) error",
  "return v.canonicalJSONCheck(eventJSON)"
]

def eventversion_RoomVersionImpl_CheckCreateEvent : List String := [
  "func func(event PDU, sender spec.UserID, knownRoomVersion KnownRoomVersionFunc) error",
  "return v.checkCreateEvent(event, sender, knownRoomVersion)"
]

def eventversion_RoomVersionImpl_CheckKnockingAllowed : List String := [
  "func func(roomVer, sender, target, joinRule, prevMembership string) error",
  "return v.checkKnockingAllowedFunc(roomVer, sender, target, joinRule, prevMembership)"
]

def eventversion_RoomVersionImpl_CheckPowerLevelEvent : List String := [
  "func func(sender string, createEvent PDU, oldPowerLevels, newPowerLevels PowerLevelContent) error",
  "return v.checkPowerLevelEvent(sender, createEvent, oldPowerLevels, newPowerLevels)"
]

def eventversion_RoomVersionImpl_CheckRestrictedJoin : List String := [
  "func func(ctx context.Context, localServerName spec.ServerName, roomQuerier RestrictedRoomJoinQuerier, roomID spec.RoomID, senderID spec.SenderID) (string, error)",
  "return v.checkRestrictedJoin(ctx, localServerName, roomQuerier, roomID, senderID, v.privilegedCreators)"
]

def eventversion_RoomVersionImpl_CheckRestrictedJoinsAllowed : List String := [
  "func func() error",
  "return v.checkRestrictedJoinAllowedFunc()"
]

def eventversion_RoomVersionImpl_DomainlessRoomIDs : List String := [
  "func func() bool",
  "return v.domainlessRoomID"
]

def eventversion_RoomVersionImpl_EventFormat : List String := [
  "func func() EventFormat",
  "return v.eventFormat"
]

def eventversion_RoomVersionImpl_EventIDFormat : List String := [
  "func func() EventIDFormat",
  "return v.eventIDFormat"
]

def eventversion_RoomVersionImpl_NewEventBuilder : List String := [
  "func func() *EventBuilder",
  "return &EventBuilder{version: v}"
]

def eventversion_RoomVersionImpl_NewEventBuilderFromProtoEvent : List String := [
  "func func(pe *ProtoEvent) *EventBuilder",
  "eb := v.NewEventBuilder()",
  "eb.AuthEvents = pe.AuthEvents",
  "eb.Content = pe.Content",
  "eb.Depth = pe.Depth",
  "eb.PrevEvents = pe.PrevEvents",
  "eb.Redacts = pe.Redacts",
  "eb.RoomID = pe.RoomID",
  "eb.SenderID = pe.SenderID",
  "eb.Signature = pe.Signature",
  "eb.StateKey = pe.StateKey",
  "eb.Type = pe.Type",
  "eb.Unsigned = pe.Unsigned",
  "return eb"
]

def eventversion_RoomVersionImpl_NewEventFromTrustedJSON : List String := [
  "func func(eventJSON []byte, redacted bool) (result PDU, err error)",
  "return v.newEventFromTrustedJSONFunc(eventJSON, redacted, v)"
]

def eventversion_RoomVersionImpl_NewEventFromTrustedJSONWithEventID : List String := [
  "func func(eventID string, eventJSON []byte, redacted bool) (result PDU, err error)",
  "return v.newEventFromTrustedJSONWithEventIDFunc(eventID, eventJSON, redacted, v)"
]

def eventversion_RoomVersionImpl_NewEventFromUntrustedJSON : List String := [
  "func func(eventJSON []byte) (result PDU, err error)",
  "return v.newEventFromUntrustedJSONFunc(eventJSON, v)"
]

def eventversion_RoomVersionImpl_ParsePowerLevels : List String := [
  "func func(contentBytes []byte, c *PowerLevelContent) error",
  "return v.parsePowerLevelsFunc(contentBytes, c)"
]

def eventversion_RoomVersionImpl_PrivilegedCreators : List String := [
  "func func() bool",
  "return v.privilegedCreators"
]

def eventversion_RoomVersionImpl_RedactEventJSON : List String := [
  "func func(eventJSON []byte) ([]byte, error)",
  "return v.redactionAlgorithm(eventJSON)"
]

def eventversion_RoomVersionImpl_RestrictedJoinServername : List String := [
  "func func(content []byte) (spec.ServerName, error)",
  "return v.restrictedJoinServernameFunc(content)"
]

def eventversion_RoomVersionImpl_SignatureValidityCheck : List String := [
  "func func(atTS, validUntilTS spec.Timestamp) bool",
  "return v.signatureValidityCheckFunc(atTS, validUntilTS)"
]

def eventversion_RoomVersionImpl_Stable : List String := [
  "func func() bool",
  "return v.stable"
]

def eventversion_RoomVersionImpl_StateResAlgorithm : List String := [
  "func func() StateResAlgorithm",
  "return v.stateResAlgorithm"
]

def eventversion_RoomVersionImpl_Version : List String := [
  "func func() RoomVersion",
  "return v.ver"
]

def eventversion_UnsupportedRoomVersionError_Error : List String := [
  "func func() string",
  "return fmt.Sprintf(\"gomatrixserverlib: unsupported room version '%s'\", e.Version)"
]

def eventversion__GetRoomVersion : List String := [
  "func func(verStr RoomVersion) (impl IRoomVersion, err error)",
  "v, ok := roomVersionMeta[verStr]",
  "if !ok {",
  "return impl, UnsupportedRoomVersionError{Version: verStr}",
  "}",
  "return v, nil"
]

def eventversion__KnownRoomVersion : List String := [
  "func func(verStr RoomVersion) bool",
  "_, ok := roomVersionMeta[verStr]",
  "return ok"
]

def eventversion__MustGetRoomVersion : List String := [
  "func func(verStr RoomVersion) IRoomVersion",
  "impl, err := GetRoomVersion(verStr)",
  "if err != nil {",
  "panic(fmt.Sprintf(\"MustGetRoomVersion: %s\", verStr))",
  "}",
  "return impl"
]

def eventversion__NewEventFromHeaderedJSON : List String := [
  "func func(headeredEventJSON []byte, redacted bool) (PDU, error)",
  "eventID := gjson.GetBytes(headeredEventJSON, \"_event_id\").String()",
  "roomVer := RoomVersion(gjson.GetBytes(headeredEventJSON, \"_room_version\").String())",
  "verImpl, err := GetRoomVersion(roomVer)",
  "if err != nil {",
  "return nil, err",
  "}",
  "headeredEventJSON, _ = sjson.DeleteBytes(headeredEventJSON, \"_event_id\")",
  "headeredEventJSON, _ = sjson.DeleteBytes(headeredEventJSON, \"_room_version\")",
  "return verImpl.NewEventFromTrustedJSONWithEventID(eventID, headeredEventJSON, redacted)"
]

def eventversion__RoomVersions : List String := [
  "func func() map[RoomVersion]IRoomVersion",
  "return roomVersionMeta"
]

def eventversion__SetRoomVersion : List String := [
  "func func(ver IRoomVersion)",
  "roomVersionMeta[ver.Version()] = ver"
]

def eventversion__StableRoomVersion : List String := [
  "func func(verStr RoomVersion) bool",
  "verImpl, ok := roomVersionMeta[verStr]",
  "return ok && verImpl.Stable()"
]

def eventversion__StableRoomVersions : List String := [
  "func func() map[RoomVersion]IRoomVersion",
  "versions := make(map[RoomVersion]IRoomVersion)",
  "for id, version := range RoomVersions() {",
  "if version.Stable() {",
  "versions[id] = version",
  "}",
  "}",
  "return versions"
]

def eventversion_type_EventFormat : List String := [
  "type EventFormat int"
]

def eventversion_type_EventIDFormat : List String := [
  "type EventIDFormat int"
]

def eventversion_type_IRoomVersion : List String := [
  "type IRoomVersion interface { Version() RoomVersion Stable() bool StateResAlgorithm() StateResAlgorithm EventFormat() EventFormat EventIDFormat() EventIDFormat RedactEventJSON(eventJSON []byte) ([]byte, error) SignatureValidityCheck(atTS, validUntil spec.Timestamp) bool NewEventFromTrustedJSON(eventJSON []byte, redacted bool) (result PDU, err error) NewEventFromTrustedJSONWithEventID(eventID string, eventJSON []byte, redacted bool) (result PDU, err error) NewEventFromUntrustedJSON(eventJSON []byte) (result PDU, err error) NewEventBuilder() *EventBuilder NewEventBuilderFromProtoEvent(pe *ProtoEvent) *EventBuilder CheckRestrictedJoin(ctx context.Context, localServerName spec.ServerName, roomQuerier RestrictedRoomJoinQuerier, roomID spec.RoomID, senderID spec.SenderID) (string, error) RestrictedJoinServername(content []byte) (spec.ServerName, error) CheckRestrictedJoinsAllowed() error CheckKnockingAllowed(roomVer, sender, target, joinRule, prevMembership string) error CheckPowerLevelEvent(sender string, createEvent PDU, oldPowerLevels, newPowerLevels PowerLevelContent) error CheckCanonicalJSON(input []byte) error ParsePowerLevels(contentBytes []byte, c *PowerLevelContent) error CheckCreateEvent(event PDU, sender spec.UserID, knownRoomVersion KnownRoomVersionFunc) error DomainlessRoomIDs() bool PrivilegedCreators() bool }"
]

def eventversion_type_KnownRoomVersionFunc : List String := [
  "type KnownRoomVersionFunc func(RoomVersion) bool"
]

def eventversion_type_RoomVersion : List String := [
  "type RoomVersion string"
]

def eventversion_type_RoomVersionImpl : List String := [
  "type RoomVersionImpl struct { ver RoomVersion stateResAlgorithm StateResAlgorithm eventFormat EventFormat eventIDFormat EventIDFormat redactionAlgorithm func(eventJSON []byte) ([]byte, error) signatureValidityCheckFunc SignatureValidityCheckFunc canonicalJSONCheck func(eventJSON []byte) error checkPowerLevelEvent func(sender string, createEvent PDU, oldPowerLevels, newPowerLevels PowerLevelContent) error parsePowerLevelsFunc func(contentBytes []byte, c *PowerLevelContent) error stable bool domainlessRoomID bool privilegedCreators bool checkRestrictedJoin func(ctx context.Context, localServerName spec.ServerName, roomQuerier RestrictedRoomJoinQuerier, roomID spec.RoomID, senderID spec.SenderID, privilegedCreators bool) (string, error) restrictedJoinServernameFunc func(content []byte) (spec.ServerName, error) checkRestrictedJoinAllowedFunc func() error checkKnockingAllowedFunc func(roomVer, sender, target, joinRule, prevMembership string) error checkCreateEvent func(e PDU, sender spec.UserID, knownRoomVersion KnownRoomVersionFunc) error newEventFromUntrustedJSONFunc func(eventJSON []byte, roomVersion IRoomVersion) (result PDU, err error) newEventFromTrustedJSONFunc func(eventJSON []byte, redacted bool, roomVersion IRoomVersion) (result PDU, err error) newEventFromTrustedJSONWithEventIDFunc func(eventID string, eventJSON []byte, redacted bool, roomVersion IRoomVersion) (result PDU, err error) }"
]

def eventversion_type_StateResAlgorithm : List String := [
  "type StateResAlgorithm int"
]

def eventversion_type_UnsupportedRoomVersionError : List String := [
  "type UnsupportedRoomVersionError struct{ Version RoomVersion }"
]

def fclient_federationtypes_DeviceKeys_Scan : List String := [
  "func func(src interface{}) error",
  "switch v := src.(type) { case string: return json.Unmarshal([]byte(v), s) case []byte: return json.Unmarshal(v, s) }",
  "return fmt.Errorf(\"unsupported source type\")"
]

def fclient_federationtypes_DeviceKeys_Value : List String := [
  "func func() (driver.Value, error)",
  "return json.Marshal(s)"
]

def fclient_federationtypes_DeviceKeys_isCrossSigningBody : List String := [
  "func func()"
]

def fclient_federationtypes_MSC2836EventRelationshipsRequest_Defaults : List String := [
  "func func()",
  "r.Limit = 100",
  "r.MaxBreadth = 10",
  "r.MaxDepth = 3",
  "r.DepthFirst = false",
  "r.RecentFirst = true",
  "r.IncludeParent = false",
  "r.IncludeChildren = false",
  "r.Direction = \"down\""
]

def fclient_federationtypes_RespInvite_MarshalJSON : List String := [
  "func func() ([]byte, error)",
  "return json.Marshal([]interface{}{200, respInviteFields(r)})"
]

def fclient_federationtypes_RespInvite_UnmarshalJSON : List String := [
  "func func(data []byte) error",
  "var tuple gomatrixserverlib.EventJSONs",
  "if err := json.Unmarshal(data, &tuple); err != nil {",
  "return err",
  "}",
  "if len(tuple) != 2 {",
  "return fmt.Errorf(\"gomatrixserverlib: invalid invite response, invalid length: %d != 2\", len(tuple))",
  "}",
  "if jr := gjson.GetBytes(tuple[1], \"event\"); jr.Exists() {",
  "r.Event = []byte(jr.Raw)",
  "}",
  "return nil"
]

def fclient_federationtypes_RespMakeJoin_GetJoinEvent : List String := [
  "func func() gomatrixserverlib.ProtoEvent",
  "return r.JoinEvent"
]

def fclient_federationtypes_RespMakeJoin_GetRoomVersion : List String := [
  "func func() gomatrixserverlib.RoomVersion",
  "return r.RoomVersion"
]

def fclient_federationtypes_RespPeek_GetAuthEvents : List String := [
  "func func() gomatrixserverlib.EventJSONs",
  "return r.AuthEvents"
]

def fclient_federationtypes_RespPeek_GetStateEvents : List String := [
  "func func() gomatrixserverlib.EventJSONs",
  "return r.StateEvents"
]

def fclient_federationtypes_RespPeek_MarshalJSON : List String := [
  "func func() ([]byte, error)",
  "if len(r.StateEvents) == 0 {",
  "r.StateEvents = gomatrixserverlib.EventJSONs{}",
  "}",
  "if len(r.AuthEvents) == 0 {",
  "r.AuthEvents = gomatrixserverlib.EventJSONs{}",
  "}",
  "return json.Marshal(struct { RenewalInterval int64 `json:\"renewal_interval\"` StateEvents gomatrixserverlib.EventJSONs `json:\"state\"` AuthEvents gomatrixserverlib.EventJSONs `json:\"auth_chain\"` RoomVersion gomatrixserverlib.RoomVersion `json:\"room_version\"` LatestEvent gomatrixserverlib.PDU `json:\"latest_event\"` }{RenewalInterval: r.RenewalInterval, StateEvents: r.StateEvents, AuthEvents: r.AuthEvents, RoomVersion: r.RoomVersion, LatestEvent: r.LatestEvent})"
]

def fclient_federationtypes_RespSendJoin_GetAuthEvents : List String := [
  "func func() gomatrixserverlib.EventJSONs",
  "return r.AuthEvents"
]

def fclient_federationtypes_RespSendJoin_GetJoinEvent : List String := [
  "func func() spec.RawJSON",
  "return r.Event"
]

def fclient_federationtypes_RespSendJoin_GetMembersOmitted : List String := [
  "func func() bool",
  "return r.MembersOmitted"
]

def fclient_federationtypes_RespSendJoin_GetOrigin : List String := [
  "func func() spec.ServerName",
  "return r.Origin"
]

def fclient_federationtypes_RespSendJoin_GetServersInRoom : List String := [
  "func func() []string",
  "return r.ServersInRoom"
]

def fclient_federationtypes_RespSendJoin_GetStateEvents : List String := [
  "func func() gomatrixserverlib.EventJSONs",
  "return r.StateEvents"
]

def fclient_federationtypes_RespSendJoin_MarshalJSON : List String := [
  "func func() ([]byte, error)",
  "fields := respSendJoinFields{StateEvents: r.StateEvents, AuthEvents: r.AuthEvents, Origin: r.Origin, Event: r.Event}",
  "if len(fields.AuthEvents) == 0 {",
  "fields.AuthEvents = gomatrixserverlib.EventJSONs{}",
  "}",
  "if len(fields.StateEvents) == 0 {",
  "fields.StateEvents = gomatrixserverlib.EventJSONs{}",
  "}",
  "if !r.MembersOmitted {",
  "return json.Marshal(fields)",
  "}",
  "partialJoinFields := respSendJoinPartialStateFields{respSendJoinFields: fields, MembersOmitted: true, ServersInRoom: r.ServersInRoom}",
  "return json.Marshal(partialJoinFields)"
]

def fclient_federationtypes_RespStateIDs_GetAuthEventIDs : List String := [
  "func func() []string",
  "return r.AuthEventIDs"
]

def fclient_federationtypes_RespStateIDs_GetStateEventIDs : List String := [
  "func func() []string",
  "return r.StateEventIDs"
]

def fclient_federationtypes_RespState_GetAuthEvents : List String := [
  "func func() gomatrixserverlib.EventJSONs",
  "return r.AuthEvents"
]

def fclient_federationtypes_RespState_GetStateEvents : List String := [
  "func func() gomatrixserverlib.EventJSONs",
  "return r.StateEvents"
]

def fclient_federationtypes_RespState_MarshalJSON : List String := [
  "func func() ([]byte, error)",
  "if len(r.StateEvents) == 0 {",
  "r.StateEvents = gomatrixserverlib.EventJSONs{}",
  "}",
  "if len(r.AuthEvents) == 0 {",
  "r.AuthEvents = gomatrixserverlib.EventJSONs{}",
  "}",
  "return json.Marshal(respStateFields{StateEvents: r.StateEvents, AuthEvents: r.AuthEvents})"
]

def fclient_federationtypes_RespUserDevices_UnmarshalJSON : List String := [
  "func func(data []byte) error",
  "intermediate := struct { UserID string `json:\"user_id\"` StreamID int64 `json:\"stream_id\"` Devices []json.RawMessage `json:\"devices\"` MasterKey json.RawMessage `json:\"master_key\"` SelfSigningKey json.RawMessage `json:\"self_signing_key\"` }{}",
  "if err := json.Unmarshal(data, &intermediate); err != nil {",
  "return err",
  "}",
  "r.UserID = intermediate.UserID",
  "r.StreamID = intermediate.StreamID",
  "_ = json.Unmarshal(intermediate.MasterKey, &r.MasterKey)",
  "_ = json.Unmarshal(intermediate.SelfSigningKey, &r.SelfSigningKey)",
  "for _, deviceJSON := range intermediate.Devices {",
  "var device RespUserDevice",
  "if err := json.Unmarshal(deviceJSON, &device); err == nil {",
  "r.Devices = append(r.Devices, device)",
  "}",
  "}",
  "return nil"
]

def fclient_federationtypes__NewMSC2836EventRelationshipsRequest : List String := [
  "func func(body io.Reader) (*MSC2836EventRelationshipsRequest, error)",
  "var relation MSC2836EventRelationshipsRequest",
  "relation.Defaults()",
  "if err := json.NewDecoder(body).Decode(&relation); err != nil {",
  "return nil, err",
  "}",
  "return &relation, nil"
]

def fclient_federationtypes_type_DeviceKeys : List String := [
  "type DeviceKeys struct { RespUserDeviceKeys Unsigned map[string]interface{} `json:\"unsigned\"` }"
]

def fclient_federationtypes_type_EmptyResp : List String := [
  "type EmptyResp struct{}"
]

def fclient_federationtypes_type_MSC2836EventRelationshipsRequest : List String := [
  "type MSC2836EventRelationshipsRequest struct { EventID string `json:\"event_id\"` MaxDepth int `json:\"max_depth\"` MaxBreadth int `json:\"max_breadth\"` Limit int `json:\"limit\"` DepthFirst bool `json:\"depth_first\"` RecentFirst bool `json:\"recent_first\"` IncludeParent bool `json:\"include_parent\"` IncludeChildren bool `json:\"include_children\"` Direction string `json:\"direction\"` Batch string `json:\"batch\"` AutoJoin bool `json:\"auto_join\"` }"
]

def fclient_federationtypes_type_MSC2836EventRelationshipsResponse : List String := [
  "type MSC2836EventRelationshipsResponse struct { Events gomatrixserverlib.EventJSONs `json:\"events\"` NextBatch string `json:\"next_batch\"` Limited bool `json:\"limited\"` AuthChain gomatrixserverlib.EventJSONs `json:\"auth_chain\"` }"
]

def fclient_federationtypes_type_MissingEvents : List String := [
  "type MissingEvents struct { Limit int `json:\"limit\"` MinDepth int `json:\"min_depth\"` EarliestEvents []string `json:\"earliest_events\"` LatestEvents []string `json:\"latest_events\"` }"
]

def fclient_federationtypes_type_PDUResult : List String := [
  "type PDUResult struct { Error string `json:\"error,omitempty\"` }"
]

def fclient_federationtypes_type_PublicRoom : List String := [
  "type PublicRoom struct { CanonicalAlias string `json:\"canonical_alias,omitempty\"` Name string `json:\"name,omitempty\"` JoinedMembersCount int `json:\"num_joined_members\"` RoomID string `json:\"room_id\"` Topic string `json:\"topic,omitempty\"` WorldReadable bool `json:\"world_readable\"` GuestCanJoin bool `json:\"guest_can_join\"` AvatarURL string `json:\"avatar_url,omitempty\"` JoinRule string `json:\"join_rule,omitempty\"` RoomType string `json:\"room_type,omitempty\"` }"
]

def fclient_federationtypes_type_RespClaimKeys : List String := [
  "type RespClaimKeys struct { OneTimeKeys map[string]map[string]map[string]json.RawMessage `json:\"one_time_keys\"` }"
]

def fclient_federationtypes_type_RespDirectory : List String := [
  "type RespDirectory struct { RoomID string `json:\"room_id\"` Servers []spec.ServerName `json:\"servers\"` }"
]

def fclient_federationtypes_type_RespEventAuth : List String := [
  "type RespEventAuth struct { AuthEvents gomatrixserverlib.EventJSONs `json:\"auth_chain\"` }"
]

def fclient_federationtypes_type_RespInvite : List String := [
  "type RespInvite struct { Event spec.RawJSON `json:\"event\"` }"
]

def fclient_federationtypes_type_RespInviteV2 : List String := [
  "type RespInviteV2 struct { Event spec.RawJSON `json:\"event\"` }"
]

def fclient_federationtypes_type_RespMakeJoin : List String := [
  "type RespMakeJoin struct { JoinEvent gomatrixserverlib.ProtoEvent `json:\"event\"` RoomVersion gomatrixserverlib.RoomVersion `json:\"room_version\"` }"
]

def fclient_federationtypes_type_RespMakeKnock : List String := [
  "type RespMakeKnock struct { KnockEvent gomatrixserverlib.ProtoEvent `json:\"event\"` RoomVersion gomatrixserverlib.RoomVersion `json:\"room_version\"` }"
]

def fclient_federationtypes_type_RespMakeLeave : List String := [
  "type RespMakeLeave struct { LeaveEvent gomatrixserverlib.ProtoEvent `json:\"event\"` RoomVersion gomatrixserverlib.RoomVersion `json:\"room_version\"` }"
]

def fclient_federationtypes_type_RespMissingEvents : List String := [
  "type RespMissingEvents struct { Events gomatrixserverlib.EventJSONs `json:\"events\"` }"
]

def fclient_federationtypes_type_RespPeek : List String := [
  "type RespPeek struct { RenewalInterval int64 `json:\"renewal_interval\"` StateEvents gomatrixserverlib.EventJSONs `json:\"state\"` AuthEvents gomatrixserverlib.EventJSONs `json:\"auth_chain\"` RoomVersion gomatrixserverlib.RoomVersion `json:\"room_version\"` LatestEvent gomatrixserverlib.PDU `json:\"latest_event\"` }"
]

def fclient_federationtypes_type_RespProfile : List String := [
  "type RespProfile struct { DisplayName string `json:\"displayname,omitempty\"` AvatarURL string `json:\"avatar_url,omitempty\"` }"
]

def fclient_federationtypes_type_RespPublicRooms : List String := [
  "type RespPublicRooms struct { Chunk []PublicRoom `json:\"chunk\"` NextBatch string `json:\"next_batch,omitempty\"` PrevBatch string `json:\"prev_batch,omitempty\"` TotalRoomCountEstimate int `json:\"total_room_count_estimate,omitempty\"` }"
]

def fclient_federationtypes_type_RespQueryKeys : List String := [
  "type RespQueryKeys struct { DeviceKeys map[string]map[string]DeviceKeys `json:\"device_keys\"` MasterKeys map[string]CrossSigningKey `json:\"master_keys\"` SelfSigningKeys map[string]CrossSigningKey `json:\"self_signing_keys\"` }"
]

def fclient_federationtypes_type_RespSend : List String := [
  "type RespSend struct { PDUs map[string]PDUResult `json:\"pdus\"` }"
]

def fclient_federationtypes_type_RespSendJoin : List String := [
  "type RespSendJoin struct { StateEvents gomatrixserverlib.EventJSONs `json:\"state\"` AuthEvents gomatrixserverlib.EventJSONs `json:\"auth_chain\"` Origin spec.ServerName `json:\"origin\"` Event spec.RawJSON `json:\"event,omitempty\"` MembersOmitted bool `json:\"members_omitted\"` ServersInRoom []string `json:\"servers_in_room\"` }"
]

def fclient_federationtypes_type_RespSendKnock : List String := [
  "type RespSendKnock struct { KnockRoomState []gomatrixserverlib.InviteStrippedState `json:\"knock_room_state\"` }"
]

def fclient_federationtypes_type_RespState : List String := [
  "type RespState struct { StateEvents gomatrixserverlib.EventJSONs `json:\"pdus\"` AuthEvents gomatrixserverlib.EventJSONs `json:\"auth_chain\"` }"
]

def fclient_federationtypes_type_RespStateIDs : List String := [
  "type RespStateIDs struct { StateEventIDs []string `json:\"pdu_ids\"` AuthEventIDs []string `json:\"auth_chain_ids\"` }"
]

def fclient_federationtypes_type_RespUserDevice : List String := [
  "type RespUserDevice struct { DeviceID string `json:\"device_id\"` DisplayName string `json:\"device_display_name\"` Keys RespUserDeviceKeys `json:\"keys\"` }"
]

def fclient_federationtypes_type_RespUserDeviceKeys : List String := [
  "type RespUserDeviceKeys struct { UserID string `json:\"user_id\"` DeviceID string `json:\"device_id\"` Algorithms []string `json:\"algorithms\"` Keys map[gomatrixserverlib.KeyID]spec.Base64Bytes `json:\"keys\"` Signatures map[string]map[gomatrixserverlib.KeyID]spec.Base64Bytes `json:\"signatures\"` }"
]

def fclient_federationtypes_type_RespUserDevices : List String := [
  "type RespUserDevices struct { UserID string `json:\"user_id\"` StreamID int64 `json:\"stream_id\"` Devices []RespUserDevice `json:\"devices\"` MasterKey *CrossSigningKey `json:\"master_key\"` SelfSigningKey *CrossSigningKey `json:\"self_signing_key\"` }"
]

def fclient_federationtypes_type_RoomHierarchyResponse : List String := [
  "type RoomHierarchyResponse struct { Room RoomHierarchyRoom `json:\"room\"` Children []RoomHierarchyRoom `json:\"children\"` InaccessibleChildren []string `json:\"inaccessible_children\"` }"
]

def fclient_federationtypes_type_RoomHierarchyRoom : List String := [
  "type RoomHierarchyRoom struct { PublicRoom ChildrenState []RoomHierarchyStrippedEvent `json:\"children_state\"` AllowedRoomIDs []string `json:\"allowed_room_ids,omitempty\"` RoomType string `json:\"room_type\"` }"
]

def fclient_federationtypes_type_RoomHierarchyStrippedEvent : List String := [
  "type RoomHierarchyStrippedEvent struct { Type string `json:\"type\"` StateKey string `json:\"state_key\"` Content json.RawMessage `json:\"content\"` Sender string `json:\"sender\"` OriginServerTS spec.Timestamp `json:\"origin_server_ts\"` }"
]

def fclient_federationtypes_type_Version : List String := [
  "type Version struct { Server struct { Name string `json:\"name\"` Version string `json:\"version\"` } `json:\"server\"` }"
]

def fclient_federationtypes_type_respInviteFields : List String := [
  "type respInviteFields struct { Event spec.RawJSON `json:\"event\"` }"
]

def fclient_federationtypes_type_respSendJoinFields : List String := [
  "type respSendJoinFields struct { StateEvents gomatrixserverlib.EventJSONs `json:\"state\"` AuthEvents gomatrixserverlib.EventJSONs `json:\"auth_chain\"` Origin spec.ServerName `json:\"origin\"` Event spec.RawJSON `json:\"event,omitempty\"` }"
]

def fclient_federationtypes_type_respSendJoinPartialStateFields : List String := [
  "type respSendJoinPartialStateFields struct { respSendJoinFields MembersOmitted bool `json:\"members_omitted\"` ServersInRoom []string `json:\"servers_in_room\"` }"
]

def fclient_federationtypes_type_respStateFields : List String := [
  "type respStateFields struct { StateEvents gomatrixserverlib.EventJSONs `json:\"pdus\"` AuthEvents gomatrixserverlib.EventJSONs `json:\"auth_chain\"` }"
]

def fclient_request_FederationRequest_Content : List String := [
  "func func() []byte",
  "return []byte(r.fields.Content)"
]

def fclient_request_FederationRequest_Destination : List String := [
  "func func() spec.ServerName",
  "return r.fields.Destination"
]

def fclient_request_FederationRequest_HTTPRequest : List String := [
  "func func() (*http.Request, error)",
  "urlStr := fmt.Sprintf(\"matrix://%s%s\", r.fields.Destination, r.fields.RequestURI)",
  "var content io.Reader",
  "if r.fields.Content != nil {",
  "content = bytes.NewReader([]byte(r.fields.Content))",
  "}",
  "httpReq, err := http.NewRequest(r.fields.Method, urlStr, content)",
  "if err != nil {",
  "return nil, err",
  "}",
  "if httpReq.URL.RequestURI() != r.fields.RequestURI {",
  "return nil, fmt.Errorf(\"gomatrixserverlib: Request URI didn't encode properly. Wanted %q. Got %q\", r.fields.RequestURI, httpReq.URL.RequestURI())",
  "}",
  "if r.fields.Content != nil {",
  "httpReq.Header.Set(\"Content-Type\", \"application/json\")",
  "}",
  "for keyID, sig := range r.fields.Signatures[r.fields.Origin] {",
  "if !isSafeInHTTPQuotedString(string(r.fields.Origin)) {",
  "return nil, fmt.Errorf(\"gomatrixserverlib: Request Origin isn't safe to include in an HTTP header\")",
  "}",
  "if !isSafeInHTTPQuotedString(string(keyID)) {",
  "return nil, fmt.Errorf(\"gomatrixserverlib: Request key ID isn't safe to include in an HTTP header\")",
  "}",
  "if !isSafeInHTTPQuotedString(string(r.fields.Destination)) {",
  "return nil, fmt.Errorf(\"gomatrixserverlib: Request Destination isn't safe to include in an HTTP header\")",
  "}",
  "httpReq.Header.Add(\"Authorization\", fmt.Sprintf(\"X-Matrix origin=\\\"%s\\\",key=\\\"%s\\\",sig=\\\"%s\\\",destination=\\\"%s\\\"\", r.fields.Origin, keyID, sig, r.fields.Destination))",
  "}",
  "return httpReq, nil"
]

def fclient_request_FederationRequest_Method : List String := [
  "func func() string",
  "return r.fields.Method"
]

def fclient_request_FederationRequest_Origin : List String := [
  "func func() spec.ServerName",
  "return r.fields.Origin"
]

def fclient_request_FederationRequest_RequestURI : List String := [
  "func func() string",
  "return r.fields.RequestURI"
]

def fclient_request_FederationRequest_SetContent : List String := [
  "func func(content interface{}) error",
  "if r.fields.Content != nil {",
  "return fmt.Errorf(\"gomatrixserverlib: content already set on the request\")",
  "}",
  "if r.fields.Signatures != nil {",
  "return fmt.Errorf(\"gomatrixserverlib: the request is signed and cannot be modified\")",
  "}",
  "data, err := json.Marshal(content)",
  "if err != nil {",
  "return err",
  "}",
  "r.fields.Content = spec.RawJSON(data)",
  "return nil"
]

def fclient_request_FederationRequest_Sign : List String := [
  "func func(serverName spec.ServerName, keyID gomatrixserverlib.KeyID, privateKey ed25519.PrivateKey) error",
  "if r.fields.Origin != \"\" && r.fields.Origin != serverName {",
  "return fmt.Errorf(\"gomatrixserverlib: the request is already signed by a different server\")",
  "}",
  "r.fields.Origin = serverName",
  "if err := r.checkFieldsUTF8(); err != nil {",
  "return err",
  "}",
  "data, err := json.Marshal(r.fields)",
  "if err != nil {",
  "return err",
  "}",
  "signedData, err := gomatrixserverlib.SignJSON(string(serverName), keyID, privateKey, data)",
  "if err != nil {",
  "return err",
  "}",
  "return json.Unmarshal(signedData, &r.fields)"
]

def fclient_request_FederationRequest_checkFieldsUTF8 : List String := [
  "func func() error",
  "for _, field := range []string{r.fields.Method, r.fields.RequestURI, string(r.fields.Origin), string(r.fields.Destination)} {",
  "if !utf8.ValidString(field) {",
  "return fmt.Errorf(\"gomatrixserverlib: the request method, URI, origin and destination must be valid UTF-8, not %q\", field)",
  "}",
  "}",
  "return nil"
]

def fclient_request__NewFederationRequest : List String := [
  "func func(method string, origin, destination spec.ServerName, requestURI string) FederationRequest",
  "var r FederationRequest",
  "r.fields.Origin = origin",
  "r.fields.Destination = destination",
  "r.fields.Method = strings.ToUpper(method)",
  "r.fields.RequestURI = requestURI",
  "return r"
]

def fclient_request__ParseAuthorization : List String := [
  "func func(header string) (scheme string, origin, destination spec.ServerName, key gomatrixserverlib.KeyID, sig string)",
  "parts := strings.SplitN(header, \" \", 2)",
  "scheme = parts[0]",
  "if scheme != \"X-Matrix\" {",
  "return",
  "}",
  "if len(parts) != 2 {",
  "return",
  "}",
  "for _, data := range strings.Split(parts[1], \",\") {",
  "pair := strings.SplitN(data, \"=\", 2)",
  "if len(pair) != 2 {",
  "continue",
  "}",
  "name := strings.TrimSpace(pair[0])",
  "value := strings.Trim(strings.TrimSpace(pair[1]), \"\\\"\")",
  "if name == \"origin\" {",
  "origin = spec.ServerName(value)",
  "}",
  "if name == \"key\" {",
  "key = gomatrixserverlib.KeyID(value)",
  "}",
  "if name == \"sig\" {",
  "sig = value",
  "}",
  "if name == \"destination\" {",
  "destination = spec.ServerName(value)",
  "}",
  "}",
  "return"
]

def fclient_request__VerifyHTTPRequest : List String := [
  "func func(req *http.Request, now time.Time, destination spec.ServerName, isLocalServerName func(spec.ServerName) bool, keys gomatrixserverlib.JSONVerifier) (*FederationRequest, util.JSONResponse)",
  "request, err := readHTTPRequest(req)",
  "if err != nil {",
  "util.GetLogger(req.Context()).WithError(err).Print(\"Error parsing HTTP headers\")",
  "return nil, util.MessageResponse(400, \"Bad Request\")",
  "}",
  "if request.fields.Destination != \"\" {",
  "switch {",
  "case isLocalServerName != nil && !isLocalServerName(request.fields.Destination):",
  "fallthrough",
  "case isLocalServerName == nil && destination != request.fields.Destination:",
  "message := fmt.Sprintf(\"Unrecognised server name %q for Destination\", request.fields.Destination)",
  "util.GetLogger(req.Context()).Warn(message)",
  "return nil, util.MessageResponse(400, message)",
  "}",
  "} else if request.fields.Destination == \"\" {",
  "request.fields.Destination = destination",
  "}",
  "toVerify, err := json.Marshal(request.fields)",
  "if err != nil {",
  "util.GetLogger(req.Context()).WithError(err).Print(\"Error parsing JSON\")",
  "return nil, util.MessageResponse(400, \"Invalid JSON\")",
  "}",
  "if request.Origin() == \"\" {",
  "message := \"Missing \\\"Authorization: X-Matrix ...\\\" HTTP header\"",
  "util.GetLogger(req.Context()).WithError(err).Print(message)",
  "return nil, util.MessageResponse(401, message)",
  "}",
  "_, _, valid := spec.ParseAndValidateServerName(request.Origin())",
  "if !valid {",
  "message := \"Invalid server name for Origin\"",
  "util.GetLogger(req.Context()).WithError(err).Print(message)",
  "return nil, util.MessageResponse(400, message)",
  "}",
  "results, err := keys.VerifyJSONs(req.Context(), []gomatrixserverlib.VerifyJSONRequest{{ServerName: request.Origin(), AtTS: spec.AsTimestamp(now), Message: toVerify, ValidityCheckingFunc: gomatrixserverlib.StrictValiditySignatureCheck}})",
  "if err != nil {",
  "message := \"Error authenticating request\"",
  "util.GetLogger(req.Context()).WithError(err).Print(message)",
  "return nil, util.MessageResponse(500, message)",
  "}",
  "if results[0].Error != nil {",
  "message := \"Invalid request signature\"",
  "util.GetLogger(req.Context()).WithError(results[0].Error).Print(message)",
  "return nil, util.MessageResponse(401, message)",
  "}",
  "return request, util.JSONResponse{Code: 200, JSON: struct{}{}}"
]

def fclient_request__isSafeInHTTPQuotedString : List String := [
  "func func(text string) bool",
  "for i := 0; i < len(text); i++ {",
  "c := text[i]",
  "switch {",
  "case c == '\\t':",
  "continue",
  "case c == ' ':",
  "continue",
  "case c == 0x21:",
  "continue",
  "case 0x23 <= c && c <= 0x5B:",
  "continue",
  "case 0x5D <= c && c <= 0x7E:",
  "continue",
  "case 0x80 <= c:",
  "continue",
  "default:",
  "return false",
  "}",
  "}",
  "return true"
]

def fclient_request__readHTTPRequest : List String := [
  "func func(req *http.Request) (*FederationRequest, error)",
  "var result FederationRequest",
  "result.fields.Method = req.Method",
  "result.fields.RequestURI = req.URL.RequestURI()",
  "if err := result.checkFieldsUTF8(); err != nil {",
  "return nil, err",
  "}",
  "content, err := io.ReadAll(req.Body)",
  "if err != nil {",
  "return nil, err",
  "}",
  "if len(content) != 0 {",
  "mimetype, _, err := mime.ParseMediaType(req.Header.Get(\"Content-Type\"))",
  "if err != nil {",
  "return nil, fmt.Errorf(\"gomatrixserverlib: The request had an invalid Content-Type header: %w\", err)",
  "}",
  "if mimetype != \"application/json\" {",
  "return nil, fmt.Errorf(\"gomatrixserverlib: The request must be \\\"application/json\\\" not %q\", mimetype)",
  "}",
  "if !utf8.Valid(content) {",
  "return nil, fmt.Errorf(\"gomatrixserverlib: The request contained invalid UTF-8\")",
  "}",
  "result.fields.Content = spec.RawJSON(content)",
  "}",
  "for _, authorization := range req.Header[\"Authorization\"] {",
  "scheme, origin, destination, key, sig := ParseAuthorization(authorization)",
  "if scheme != \"X-Matrix\" {",
  "continue",
  "}",
  "if origin == \"\" || key == \"\" || sig == \"\" {",
  "return nil, fmt.Errorf(\"gomatrixserverlib: invalid X-Matrix authorization header\")",
  "}",
  "if result.fields.Origin != \"\" && result.fields.Origin != origin {",
  "return nil, fmt.Errorf(\"gomatrixserverlib: different origins in X-Matrix authorization headers\")",
  "}",
  "result.fields.Origin = origin",
  "result.fields.Destination = destination",
  "if err := result.checkFieldsUTF8(); err != nil {",
  "return nil, err",
  "}",
  "if result.fields.Signatures == nil {",
  "result.fields.Signatures = map[spec.ServerName]map[gomatrixserverlib.KeyID]string{origin: {key: sig}}",
  "} else {",
  "result.fields.Signatures[origin][key] = sig",
  "}",
  "}",
  "return &result, nil"
]

def fclient_request_type_FederationRequest : List String := [
  "type FederationRequest struct { fields struct { Content spec.RawJSON `json:\"content,omitempty\"` Destination spec.ServerName `json:\"destination\"` Method string `json:\"method\"` Origin spec.ServerName `json:\"origin\"` RequestURI string `json:\"uri\"` Signatures map[spec.ServerName]map[gomatrixserverlib.KeyID]string `json:\"signatures,omitempty\"` } }"
]

def json_EventJSONs_TrustedEvents : List String := [
  "func func(roomVersion RoomVersion, redacted bool) []PDU",
  "verImpl, err := GetRoomVersion(roomVersion)",
  "if err != nil {",
  "return nil",
  "}",
  "events := make([]PDU, 0, len(e))",
  "for _, js := range e {",
  "event, err := verImpl.NewEventFromTrustedJSON(js, redacted)",
  "if err != nil {",
  "continue",
  "}",
  "events = append(events, event)",
  "}",
  "return events"
]

def json_EventJSONs_UntrustedEvents : List String := [
  "func func(roomVersion RoomVersion) []PDU",
  "verImpl, err := GetRoomVersion(roomVersion)",
  "if err != nil {",
  "return nil",
  "}",
  "events := make([]PDU, 0, len(e))",
  "for _, js := range e {",
  "event, err := verImpl.NewEventFromUntrustedJSON(js)",
  "switch e := err.(type) { case EventValidationError: if !e.Persistable { continue } case nil: default: continue }",
  "if event == nil {",
  "continue",
  "}",
  "events = append(events, event)",
  "}",
  "return events"
]

def json__CanonicalJSON : List String := [
  "func func(input []byte) ([]byte, error)",
  "if !gjson.Valid(string(input)) {",
  "return nil, BadJSONError{errors.New(\"gjson validation failed\")}",
  "}",
  "return CanonicalJSONAssumeValid(input), nil"
]

def json__CanonicalJSONAssumeValid : List String := [
  "func func(input []byte) []byte",
  "input = CompactJSON(input, make([]byte, 0, len(input)))",
  "return SortJSON(input, make([]byte, 0, len(input)))"
]

def json__CompactJSON : List String := [
  "func func(input, output []byte) []byte",
  "var i int",
  "for ; i < len(input);  {",
  "c := input[i]",
  "i++",
  "if c <= ' ' {",
  "continue",
  "}",
  "if c == '-' && isNegativeZeroLiteral(input, i) {",
  "continue",
  "}",
  "output = append(output, c)",
  "if c == '\"' {",
  "for ; i < len(input);  {",
  "c = input[i]",
  "i++",
  "if c == '\\\\' {",
  "escape := input[i]",
  "i++",
  "if escape == 'u' {",
  "output, i = compactUnicodeEscape(input, output, i)",
  "} else if escape == '/' {",
  "output = append(output, escape)",
  "} else {",
  "output = append(output, '\\\\', escape)",
  "}",
  "} else {",
  "output = append(output, c)",
  "}",
  "if c == '\"' {",
  "break",
  "}",
  "}",
  "}",
  "}",
  "return output"
]

def json__EnforcedCanonicalJSON : List String := [
  "func func(input []byte, roomVersion RoomVersion) ([]byte, error)",
  "roomVersionImpl, err := GetRoomVersion(roomVersion)",
  "if err != nil {",
  "return nil, err",
  "}",
  "if err := roomVersionImpl.CheckCanonicalJSON(input); err != nil {",
  "return nil, BadJSONError{err}",
  "}",
  "return CanonicalJSON(input)"
]

def json__NewEventJSONsFromEvents : List String := [
  "func func(he []PDU) EventJSONs",
  "events := make(EventJSONs, len(he))",
  "for i := range he {",
  "events[i] = he[i].JSON()",
  "}",
  "return events"
]

def json__SortJSON : List String := [
  "func func(input, output []byte) []byte",
  "result := gjson.ParseBytes(input)",
  "return sortJSONValue(result, output)"
]

def json__compactUnicodeEscape : List String := [
  "func func(input, output []byte, index int) ([]byte, int)",
  "appendUTF8 := func(c rune) { var buffer [4]byte n := utf8.EncodeRune(buffer[:], c) output = append(output, buffer[:n]...) }",
  "const ( ESCAPES = \"uuuuuuuubtnufruuuuuuuuuuuuuuuuuu\" HEX = \"0123456789abcdef\" )",
  "if len(input)-index < 4 {",
  "return output, len(input)",
  "}",
  "c := readHexDigits(input[index : index+4])",
  "index += 4",
  "if c < ' ' {",
  "escape := ESCAPES[c]",
  "output = append(output, '\\\\', escape)",
  "if escape == 'u' {",
  "output = append(output, '0', '0', byte('0'+(c>>4)), HEX[c&0xF])",
  "}",
  "} else if c == '\\\\' || c == '\"' {",
  "output = append(output, '\\\\', byte(c))",
  "} else if utf16.IsSurrogate(c) {",
  "if input[index] != '\\\\' || input[index+1] != 'u' {",
  "return output, index",
  "}",
  "index += 2",
  "if len(input)-index < 4 {",
  "return output, index",
  "}",
  "c2 := readHexDigits(input[index : index+4])",
  "index += 4",
  "appendUTF8(utf16.DecodeRune(c, c2))",
  "} else {",
  "appendUTF8(c)",
  "}",
  "return output, index"
]

def json__noVerifyCanonicalJSON : List String := [
  "func func(input []byte) error",
  "return nil"
]

def json__sortJSONArray : List String := [
  "func func(input gjson.Result, output []byte) []byte",
  "sep := byte('[')",
  "input.ForEach(func(_, value gjson.Result) bool { output = append(output, sep) sep = ',' output = sortJSONValue(value, output) return true })",
  "if sep == '[' {",
  "output = append(output, '[', ']')",
  "} else {",
  "output = append(output, ']')",
  "}",
  "return output"
]

def json__sortJSONObject : List String := [
  "func func(input gjson.Result, output []byte) []byte",
  "type entry struct { key string raw string value gjson.Result }// The parsed key string // The raw (still escaped, quoted) key as it appears in the input",
  "var _entries [128]entry",
  "entries := _entries[:0]",
  "input.ForEach(func(key, value gjson.Result) bool { entries = append(entries, entry{key: key.String(), raw: key.Raw, value: value}) return true })",
  "slices.SortFunc(entries, func(a, b entry) int { return strings.Compare(a.key, b.key) })",
  "sep := byte('{')",
  "for _, entry := range entries {",
  "output = append(output, sep)",
  "sep = ','",
  "output = append(output, entry.raw...)",
  "output = append(output, ':')",
  "output = sortJSONValue(entry.value, output)",
  "}",
  "if sep == '{' {",
  "output = append(output, '{', '}')",
  "} else {",
  "output = append(output, '}')",
  "}",
  "return output"
]

def json__sortJSONValue : List String := [
  "func func(input gjson.Result, output []byte) []byte",
  "if input.IsArray() {",
  "return sortJSONArray(input, output)",
  "}",
  "if input.IsObject() {",
  "return sortJSONObject(input, output)",
  "}",
  "return append(output, input.Raw...)"
]

def json__verifyEnforcedCanonicalJSON : List String := [
  "func func(input []byte) error",
  "valid := true",
  "res := gjson.ParseBytes(input)",
  "var iter func(key, value gjson.Result) bool",
  "iter = func(_, value gjson.Result) bool { if value.IsArray() || value.IsObject() { value.ForEach(iter) return true } if value.Num < -9007199254740991 || value.Num > 9007199254740991 { valid = false return false } if value.Type == gjson.Number && strings.ContainsAny(value.Raw, \".eE\") { valid = false return false } if value.Num == 0 && value.Raw == \"-0\" { valid = false return false } return true }",
  "res.ForEach(iter)",
  "if !valid {",
  "return ErrCanonicalJSON",
  "}",
  "return nil"
]

def json_type_EventJSONs : List String := [
  "type EventJSONs []spec.RawJSON"
]

def keys_ServerKeys_MarshalJSON : List String := [
  "func func() ([]byte, error)",
  "if len(keys.Raw) == 0 {",
  "js, err := json.Marshal(keys.ServerKeyFields)",
  "if err != nil {",
  "return nil, err",
  "}",
  "return js, nil",
  "}",
  "return keys.Raw, nil"
]

def keys_ServerKeys_PublicKey : List String := [
  "func func(keyID KeyID, atTS spec.Timestamp) []byte",
  "if currentKey, ok := keys.VerifyKeys[keyID]; ok && (atTS <= keys.ValidUntilTS) {",
  "return currentKey.Key",
  "}",
  "if oldKey, ok := keys.OldVerifyKeys[keyID]; ok && (atTS < oldKey.ExpiredTS) {",
  "return oldKey.Key",
  "}",
  "return nil"
]

def keys_ServerKeys_UnmarshalJSON : List String := [
  "func func(data []byte) error",
  "keys.Raw = data",
  "return json.Unmarshal(data, &keys.ServerKeyFields)"
]

def keys__CheckKeys : List String := [
  "func func(serverName spec.ServerName, now time.Time, keys ServerKeys) (checks KeyChecks, ed25519Keys map[KeyID]spec.Base64Bytes)",
  "checks.MatchingServerName = serverName == keys.ServerName",
  "checks.FutureValidUntilTS = keys.ValidUntilTS.Time().After(now)",
  "checks.AllChecksOK = checks.MatchingServerName && checks.FutureValidUntilTS",
  "ed25519Keys = checkVerifyKeys(keys, &checks)",
  "if !checks.AllChecksOK {",
  "ed25519Keys = nil",
  "}",
  "return"
]

def keys__checkVerifyKeys : List String := [
  "func func(keys ServerKeys, checks *KeyChecks) map[KeyID]spec.Base64Bytes",
  "allEd25519ChecksOK := true",
  "checks.Ed25519Checks = map[KeyID]Ed25519Checks{}",
  "verifyKeys := map[KeyID]spec.Base64Bytes{}",
  "for keyID, keyData := range keys.VerifyKeys {",
  "algorithm := strings.SplitN(string(keyID), \":\", 2)[0]",
  "publicKey := keyData.Key",
  "if algorithm == \"ed25519\" {",
  "checks.HasEd25519Key = true",
  "checks.AllEd25519ChecksOK = &allEd25519ChecksOK",
  "entry := Ed25519Checks{ValidEd25519: len(publicKey) == 32}",
  "if entry.ValidEd25519 {",
  "err := VerifyJSON(string(keys.ServerName), keyID, []byte(publicKey), keys.Raw)",
  "entry.MatchingSignature = err == nil",
  "}",
  "checks.Ed25519Checks[keyID] = entry",
  "if entry.MatchingSignature {",
  "verifyKeys[keyID] = publicKey",
  "} else {",
  "allEd25519ChecksOK = false",
  "}",
  "}",
  "}",
  "if checks.AllChecksOK {",
  "checks.AllChecksOK = checks.HasEd25519Key && allEd25519ChecksOK",
  "}",
  "return verifyKeys"
]

def keys_type_Ed25519Checks : List String := [
  "type Ed25519Checks struct { ValidEd25519 bool MatchingSignature bool }"
]

def keys_type_KeyChecks : List String := [
  "type KeyChecks struct { AllChecksOK bool MatchingServerName bool FutureValidUntilTS bool HasEd25519Key bool AllEd25519ChecksOK *bool Ed25519Checks map[KeyID]Ed25519Checks }"
]

def keys_type_OldVerifyKey : List String := [
  "type OldVerifyKey struct { VerifyKey ExpiredTS spec.Timestamp `json:\"expired_ts\"` }"
]

def keys_type_ServerKeyFields : List String := [
  "type ServerKeyFields struct { ServerName spec.ServerName `json:\"server_name\"` VerifyKeys map[KeyID]VerifyKey `json:\"verify_keys\"` ValidUntilTS spec.Timestamp `json:\"valid_until_ts\"` OldVerifyKeys map[KeyID]OldVerifyKey `json:\"old_verify_keys\"` }"
]

def keys_type_ServerKeys : List String := [
  "type ServerKeys struct { Raw []byte ServerKeyFields }"
]

def keys_type_VerifyKey : List String := [
  "type VerifyKey struct { Key spec.Base64Bytes `json:\"key\"` }"
]

def signing__ListKeyIDs : List String := [
  "func func(signingName string, message []byte) ([]KeyID, error)",
  "var members map[string]json.RawMessage",
  "if err := json.Unmarshal(message, &members); err != nil {",
  "return nil, err",
  "}",
  "var object struct { Signatures map[string]map[KeyID]json.RawMessage }",
  "if raw, ok := members[\"signatures\"]; ok {",
  "if err := json.Unmarshal(raw, &object.Signatures); err != nil {",
  "return nil, err",
  "}",
  "}",
  "var result []KeyID",
  "for keyID := range object.Signatures[signingName] {",
  "result = append(result, keyID)",
  "}",
  "return result, nil"
]

def signing__SignJSON : List String := [
  "func func(signingName string, keyID KeyID, privateKey ed25519.PrivateKey, message []byte) (signed []byte, err error)",
  "preserve := struct { Signatures map[string]map[KeyID]spec.Base64Bytes `json:\"signatures\"` Unsigned spec.RawJSON `json:\"unsigned\"` }{Signatures: map[string]map[KeyID]spec.Base64Bytes{}}",
  "if err = checkStrictJSON(message, false, false); err != nil {",
  "return nil, err",
  "}",
  "var object map[string]json.RawMessage",
  "if err = json.Unmarshal(message, &object); err != nil {",
  "return nil, err",
  "}",
  "if raw, ok := object[\"signatures\"]; ok {",
  "if err = json.Unmarshal(raw, &preserve.Signatures); err != nil {",
  "return nil, err",
  "}",
  "}",
  "preserve.Unsigned = spec.RawJSON(object[\"unsigned\"])",
  "if message, err = sjson.DeleteBytes(message, \"signatures\"); err != nil {",
  "return nil, err",
  "}",
  "if message, err = sjson.DeleteBytes(message, \"unsigned\"); err != nil {",
  "return nil, err",
  "}",
  "canonical, err := CanonicalJSON(message)",
  "if err != nil {",
  "return nil, err",
  "}",
  "signature := spec.Base64Bytes(ed25519.Sign(privateKey, canonical))",
  "if preserve.Signatures == nil {",
  "preserve.Signatures = map[string]map[KeyID]spec.Base64Bytes{}",
  "}",
  "if existing := preserve.Signatures[signingName]; existing != nil {",
  "existing[keyID] = signature",
  "} else {",
  "preserve.Signatures[signingName] = map[KeyID]spec.Base64Bytes{keyID: signature}",
  "}",
  "signatures, err := json.Marshal(preserve.Signatures)",
  "if err != nil {",
  "return nil, err",
  "}",
  "if signed, err = sjson.SetRawBytes(canonical, \"signatures\", signatures); err != nil {",
  "return nil, err",
  "}",
  "if len(preserve.Unsigned) > 0 {",
  "if signed, err = sjson.SetRawBytes(signed, \"unsigned\", preserve.Unsigned); err != nil {",
  "return nil, err",
  "}",
  "}",
  "if signed, err = CanonicalJSON(signed); err != nil {",
  "return nil, err",
  "}",
  "return"
]

def signing__VerifyJSON : List String := [
  "func func(signingName string, keyID KeyID, publicKey ed25519.PublicKey, message []byte) error",
  "var object map[string]*json.RawMessage",
  "var signatures map[string]map[KeyID]spec.Base64Bytes",
  "if err := checkStrictJSON(message, true, true); err != nil {",
  "return err",
  "}",
  "if err := json.Unmarshal(message, &object); err != nil {",
  "return err",
  "}",
  "if object[\"signatures\"] == nil {",
  "return fmt.Errorf(\"No signatures\")",
  "}",
  "if err := json.Unmarshal(*object[\"signatures\"], &signatures); err != nil {",
  "return err",
  "}",
  "signature, ok := signatures[signingName][keyID]",
  "if !ok {",
  "return fmt.Errorf(\"No signature from %q with ID %q\", signingName, keyID)",
  "}",
  "if len(signature) != ed25519.SignatureSize {",
  "return fmt.Errorf(\"Bad signature length from %q with ID %q\", signingName, keyID)",
  "}",
  "if len(publicKey) != ed25519.PublicKeySize {",
  "return fmt.Errorf(\"Bad public key length for %q with ID %q\", signingName, keyID)",
  "}",
  "delete(object, \"unsigned\")",
  "delete(object, \"signatures\")",
  "unsorted, err := json.Marshal(object)",
  "if err != nil {",
  "return err",
  "}",
  "canonical, err := CanonicalJSON(unsorted)",
  "if err != nil {",
  "return err",
  "}",
  "if !ed25519.Verify(publicKey, canonical, signature) {",
  "return fmt.Errorf(\"Bad signature from %q with ID %q\", signingName, keyID)",
  "}",
  "return nil"
]

def signing__checkStrictJSON : List String := [
  "func func(message []byte, requireUTF8, skipUnsigned bool) error",
  "if !json.Valid(message) || !gjson.ValidBytes(message) {",
  "return fmt.Errorf(\"gomatrixserverlib: invalid JSON\")",
  "}",
  "walk := jsonWalk{decodeName: func(raw []byte, escaped bool) (string, bool) { if !escaped { return string(raw[1 : len(raw)-1]), true } return gjson.ParseBytes(raw).Str, true }, checkString: func(raw []byte) error { return checkStrictString(string(raw), requireUTF8) }}",
  "if skipUnsigned {",
  "walk.skipMember = func(name string) bool { return name == \"unsigned\" }",
  "}",
  "name, duplicate, err := walk.duplicateName(message)",
  "if err != nil {",
  "return err",
  "}",
  "if duplicate {",
  "return fmt.Errorf(\"gomatrixserverlib: duplicate object member %q\", name)",
  "}",
  "return nil"
]

def signing__checkStrictString : List String := [
  "func func(raw string, requireUTF8 bool) error",
  "if requireUTF8 && !utf8.ValidString(raw) {",
  "return fmt.Errorf(\"gomatrixserverlib: JSON string is not valid UTF-8\")",
  "}",
  "for i := 0; i+1 < len(raw); i++ {",
  "if raw[i] != '\\\\' {",
  "continue",
  "}",
  "i++",
  "if raw[i] != 'u' || i+4 >= len(raw) {",
  "continue",
  "}",
  "high := readHexDigits([]byte(raw[i+1 : i+5]))",
  "i += 4",
  "if !utf16.IsSurrogate(high) {",
  "continue",
  "}",
  "if i+6 >= len(raw) || raw[i+1] != '\\\\' || raw[i+2] != 'u' || utf16.DecodeRune(high, readHexDigits([]byte(raw[i+3:i+7]))) == utf8.RuneError {",
  "return fmt.Errorf(\"gomatrixserverlib: JSON string has an unpaired surrogate escape\")",
  "}",
  "i += 6",
  "}",
  "return nil"
]

def signing_type_KeyID : List String := [
  "type KeyID string"
]

def spec_senderid_SenderID_IsPseudoID : List String := [
  "func func() bool",
  "return !s.IsUserID()"
]

def spec_senderid_SenderID_IsUserID : List String := [
  "func func() bool",
  "return len(s) > 0 && s[0] == '@'"
]

def spec_senderid_SenderID_RawBytes : List String := [
  "func func() (res Base64Bytes, err error)",
  "err = res.Decode(string(s))",
  "if err != nil {",
  "return nil, err",
  "}",
  "return res, nil"
]

def spec_senderid_SenderID_ToPseudoID : List String := [
  "func func() *ed25519.PublicKey",
  "if s.IsPseudoID() {",
  "decoded, err := s.RawBytes()",
  "if err != nil {",
  "return nil",
  "}",
  "key := ed25519.PublicKey([]byte(decoded))",
  "return &key",
  "}",
  "return nil"
]

def spec_senderid_SenderID_ToUserID : List String := [
  "func func() *UserID",
  "if s.IsUserID() {",
  "uID, _ := NewUserID(string(s), true)",
  "return uID",
  "}",
  "return nil"
]

def spec_senderid__SenderIDFromPseudoIDKey : List String := [
  "func func(key ed25519.PrivateKey) SenderID",
  "return SenderID(Base64Bytes(key.Public().(ed25519.PublicKey)).Encode())"
]

def spec_senderid__SenderIDFromUserID : List String := [
  "func func(user UserID) SenderID",
  "return SenderID(user.String())"
]

def spec_senderid_type_CreateSenderID : List String := [
  "type CreateSenderID func(ctx context.Context, userID UserID, roomID RoomID, roomVersion string) (SenderID, ed25519.PrivateKey, error)"
]

def spec_senderid_type_SenderID : List String := [
  "type SenderID string"
]

def spec_senderid_type_SenderIDForUser : List String := [
  "type SenderIDForUser func(roomID RoomID, userID UserID) (*SenderID, error)"
]

def spec_senderid_type_StoreSenderIDFromPublicID : List String := [
  "type StoreSenderIDFromPublicID func(ctx context.Context, senderID SenderID, userID string, id RoomID) error"
]

def spec_senderid_type_UserIDForSender : List String := [
  "type UserIDForSender func(roomID RoomID, senderID SenderID) (*UserID, error)"
]

def stateresolutionv2__HeaderedReverseTopologicalOrdering : List String := [
  "func func(events []PDU, order TopologicalOrder) []PDU",
  "r := stateResolverV2{resolvedCreate: getCreateEvent(events)}",
  "input := make([]PDU, len(events))",
  "for i := range events {",
  "unwrapped := events[i]",
  "input[i] = unwrapped",
  "}",
  "result := make([]PDU, len(input))",
  "for i, e := range r.reverseTopologicalOrdering(input, order) {",
  "result[i] = e",
  "}",
  "return result"
]

def stateresolutionv2__ResolveStateConflictsV2 : List String := [
  "func func(conflicted, unconflicted, authEvents []PDU, userIDForSender spec.UserIDForSender, isRejectedFn IsRejected) []PDU",
  "var createEvent PDU",
  "for _, ev := range authEvents {",
  "if ev.Type() == spec.MRoomCreate && ev.StateKeyEquals(\"\") {",
  "createEvent = ev",
  "break",
  "}",
  "}",
  "if createEvent == nil {",
  "return nil",
  "}",
  "conflictedControlEvents := make([]PDU, 0, len(conflicted))",
  "conflictedOthers := make([]PDU, 0, len(conflicted))",
  "authProvider, _ := NewAuthEvents(nil)",
  "r := stateResolverV2{authEventMap: eventMapFromEvents(authEvents), authProvider: authProvider, conflictedEventMap: eventMapFromEvents(conflicted), powerLevelContents: make(map[string]*PowerLevelContent), powerLevelMainlinePos: make(map[string]int), resolvedThirdPartyInvites: make(map[string]PDU, len(conflicted)), resolvedMembers: make(map[spec.SenderID]PDU, len(conflicted)), resolvedOthers: make(map[StateKeyTuple]PDU, len(conflicted)), result: make([]PDU, 0, len(conflicted)+len(unconflicted)), isRejectedFn: isRejectedFn, isRejectedCache: make(map[string]bool)}",
  "var roomID *spec.RoomID",
  "if len(conflicted) > 0 {",
  "validRoomID := conflicted[0].RoomID()",
  "roomID = &validRoomID",
  "}",
  "if len(unconflicted) > 0 {",
  "validRoomID := unconflicted[0].RoomID()",
  "roomID = &validRoomID",
  "}",
  "if len(authEvents) > 0 {",
  "validRoomID := authEvents[0].RoomID()",
  "roomID = &validRoomID",
  "}",
  "if roomID == nil {",
  "return r.result",
  "}",
  "r.allower = newAllowerContext(r.authProvider, userIDForSender, *roomID)",
  "isUnconflicted := make(map[string]struct{}, len(unconflicted))",
  "for _, u := range unconflicted {",
  "isUnconflicted[u.EventID()] = struct{}{}",
  "}",
  "fullConflictedSet := append(conflicted, r.calculateAuthDifference()...)",
  "visited := make(map[string]struct{}, len(conflicted)+len(authEvents))",
  "var fullControlSet func(event PDU) []PDU",
  "fullControlSet = func(event PDU) []PDU { events := []PDU{event} for _, authEventID := range event.AuthEventIDs() { if _, ok := visited[authEventID]; ok { continue } visited[authEventID] = struct{}{} if event, ok := r.conflictedEventMap[authEventID]; ok { events = append(events, fullControlSet(event)...) } } return events }",
  "conflictedPulledIn := make(map[string]struct{}, len(conflicted)+len(authEvents))",
  "for _, p := range fullConflictedSet {",
  "if _, unconflicted := isUnconflicted[p.EventID()]; unconflicted {",
  "continue",
  "}",
  "if isControlEvent(p) {",
  "relatedEvents := fullControlSet(p)",
  "for _, event := range relatedEvents {",
  "conflictedPulledIn[event.EventID()] = struct{}{}",
  "}",
  "conflictedControlEvents = append(conflictedControlEvents, relatedEvents...)",
  "}",
  "}",
  "for _, p := range fullConflictedSet {",
  "eventID := p.EventID()",
  "if _, unconflicted := isUnconflicted[eventID]; unconflicted || isControlEvent(p) {",
  "continue",
  "}",
  "if _, ok := conflictedPulledIn[eventID]; !ok {",
  "conflictedOthers = append(conflictedOthers, p)",
  "}",
  "}",
  "r.applyEvents(unconflicted...)",
  "conflictedControlEvents = r.reverseTopologicalOrdering(conflictedControlEvents, TopologicalOrderByAuthEvents)",
  "r.authAndApplyEvents(conflictedControlEvents...)",
  "for pos, event := range r.createPowerLevelMainline() {",
  "r.powerLevelMainlinePos[event.EventID()] = pos",
  "}",
  "conflictedOthers = r.mainlineOrdering(conflictedOthers)",
  "r.authAndApplyEvents(conflictedOthers...)",
  "r.applyEvents(unconflicted...)",
  "if r.resolvedCreate != nil {",
  "r.result = append(r.result, r.resolvedCreate)",
  "}",
  "if r.resolvedJoinRules != nil {",
  "r.result = append(r.result, r.resolvedJoinRules)",
  "}",
  "if r.resolvedPowerLevels != nil {",
  "r.result = append(r.result, r.resolvedPowerLevels)",
  "}",
  "for _, member := range r.resolvedMembers {",
  "r.result = append(r.result, member)",
  "}",
  "for _, invite := range r.resolvedThirdPartyInvites {",
  "r.result = append(r.result, invite)",
  "}",
  "for _, other := range r.resolvedOthers {",
  "r.result = append(r.result, other)",
  "}",
  "return r.result"
]

def stateresolutionv2__ResolveStateConflictsV2New : List String := [
  "func func(stateResAlgo StateResAlgorithm, stateSets [][]PDU, authEvents []PDU, userIDForSender spec.UserIDForSender, isRejectedFn IsRejected) []PDU",
  "if len(stateSets) < 2 {",
  "panic(\"must provide at least 2 stateSets to resolve conflicts\")",
  "}",
  "conflicted, unconflicted := splitConflictedUnconflicted(stateResAlgo, stateSets)",
  "conflictedControlEvents := make([]PDU, 0, len(conflicted))",
  "conflictedOthers := make([]PDU, 0, len(conflicted))",
  "authProvider, _ := NewAuthEvents(nil)",
  "r := stateResolverV2{authEventMap: eventMapFromEvents(authEvents), authProvider: authProvider, conflictedEventMap: eventMapFromEvents(conflicted), powerLevelContents: make(map[string]*PowerLevelContent), powerLevelMainlinePos: make(map[string]int), resolvedThirdPartyInvites: make(map[string]PDU, len(conflicted)), resolvedMembers: make(map[spec.SenderID]PDU, len(conflicted)), resolvedOthers: make(map[StateKeyTuple]PDU, len(conflicted)), result: make([]PDU, 0, len(conflicted)+len(unconflicted)), isRejectedFn: isRejectedFn, isRejectedCache: make(map[string]bool)}",
  "var roomID *spec.RoomID",
  "if len(conflicted) > 0 {",
  "validRoomID := conflicted[0].RoomID()",
  "roomID = &validRoomID",
  "}",
  "if len(unconflicted) > 0 {",
  "validRoomID := unconflicted[0].RoomID()",
  "roomID = &validRoomID",
  "}",
  "if len(authEvents) > 0 {",
  "validRoomID := authEvents[0].RoomID()",
  "roomID = &validRoomID",
  "}",
  "if roomID == nil {",
  "return r.result",
  "}",
  "r.allower = newAllowerContext(r.authProvider, userIDForSender, *roomID)",
  "if r.createEvent = getCreateEvent(unconflicted); r.createEvent == nil {",
  "if r.createEvent = getCreateEvent(authEvents); r.createEvent == nil {",
  "r.createEvent = getCreateEvent(conflicted)",
  "}",
  "}",
  "unconflictedSet := newPDUSet(unconflicted)",
  "fullConflictedSet := append(conflicted, r.calculateAuthDifferenceNew(stateResAlgo, newPDUSet(conflicted), stateSets)...)",
  "visited := make(map[string]struct{}, len(conflicted)+len(authEvents))",
  "var fullControlSet func(event PDU) []PDU",
  "fullControlSet = func(event PDU) []PDU { events := []PDU{event} for _, authEventID := range event.AuthEventIDs() { if _, ok := visited[authEventID]; ok { continue } visited[authEventID] = struct{}{} if event, ok := r.conflictedEventMap[authEventID]; ok { events = append(events, fullControlSet(event)...) } } return events }",
  "conflictedPulledIn := make(map[string]struct{}, len(conflicted)+len(authEvents))",
  "for _, p := range fullConflictedSet {",
  "if unconflictedSet.Contains(p) {",
  "continue",
  "}",
  "if isControlEvent(p) {",
  "relatedEvents := fullControlSet(p)",
  "for _, event := range relatedEvents {",
  "conflictedPulledIn[event.EventID()] = struct{}{}",
  "}",
  "conflictedControlEvents = append(conflictedControlEvents, relatedEvents...)",
  "}",
  "}",
  "for _, p := range fullConflictedSet {",
  "if unconflictedSet.Contains(p) || isControlEvent(p) {",
  "continue",
  "}",
  "if _, ok := conflictedPulledIn[p.EventID()]; !ok {",
  "conflictedOthers = append(conflictedOthers, p)",
  "}",
  "}",
  "if stateResAlgo == StateResV2 {",
  "unconflicted = r.reverseTopologicalOrdering(unconflicted, TopologicalOrderByAuthEvents)",
  "r.applyEvents(unconflicted...)",
  "}",
  "conflictedControlEvents = r.reverseTopologicalOrdering(conflictedControlEvents, TopologicalOrderByAuthEvents)",
  "r.authAndApplyEvents(conflictedControlEvents...)",
  "for pos, event := range r.createPowerLevelMainline() {",
  "r.powerLevelMainlinePos[event.EventID()] = pos",
  "}",
  "conflictedOthers = r.mainlineOrdering(conflictedOthers)",
  "r.authAndApplyEvents(conflictedOthers...)",
  "r.applyEvents(unconflicted...)",
  "if r.resolvedCreate != nil {",
  "r.result = append(r.result, r.resolvedCreate)",
  "}",
  "if r.resolvedJoinRules != nil {",
  "r.result = append(r.result, r.resolvedJoinRules)",
  "}",
  "if r.resolvedPowerLevels != nil {",
  "r.result = append(r.result, r.resolvedPowerLevels)",
  "}",
  "for _, member := range r.resolvedMembers {",
  "r.result = append(r.result, member)",
  "}",
  "for _, invite := range r.resolvedThirdPartyInvites {",
  "r.result = append(r.result, invite)",
  "}",
  "for _, other := range r.resolvedOthers {",
  "r.result = append(r.result, other)",
  "}",
  "return r.result"
]

def stateresolutionv2__ReverseTopologicalOrdering : List String := [
  "func func(input []PDU, order TopologicalOrder) []PDU",
  "r := stateResolverV2{resolvedCreate: getCreateEvent(input)}",
  "return r.reverseTopologicalOrdering(input, order)"
]

def stateresolutionv2__creatorsFromCreateEventOrNone : List String := [
  "func func(createEvent PDU) []string",
  "creators := []string{string(createEvent.SenderID())}",
  "var content CreateContent",
  "if err := json.Unmarshal(exactMembersOnly(createEvent.Content(), &content), &content); err != nil {",
  "return creators",
  "}",
  "return append(creators, content.AdditionalCreators...)"
]

def stateresolutionv2__eventMapFromEvents : List String := [
  "func func(events []PDU) map[string]PDU",
  "r := make(map[string]PDU, len(events))",
  "for _, e := range events {",
  "if _, ok := r[e.EventID()]; !ok {",
  "r[e.EventID()] = e",
  "}",
  "}",
  "return r"
]

def stateresolutionv2__getCreateEvent : List String := [
  "func func(input []PDU) PDU",
  "for _, ev := range input {",
  "if ev.Type() == spec.MRoomCreate && ev.StateKeyEquals(\"\") {",
  "return ev",
  "}",
  "}",
  "return nil"
]

def stateresolutionv2__isControlEvent : List String := [
  "func func(e PDU) bool",
  "switch e.Type() {",
  "case spec.MRoomPowerLevels:",
  "return e.StateKeyEquals(\"\")",
  "case spec.MRoomJoinRules:",
  "return e.StateKeyEquals(\"\")",
  "case spec.MRoomMember:",
  "if e.StateKey() == nil || e.StateKeyEquals(\"\") {",
  "break",
  "}",
  "if e.StateKeyEquals(string(e.SenderID())) {",
  "break",
  "}",
  "var content MemberContent",
  "if err := json.Unmarshal(exactMembersOnly(e.Content(), &content), &content); err != nil {",
  "break",
  "}",
  "if content.Membership == spec.Leave || content.Membership == spec.Ban {",
  "return true",
  "}",
  "default:",
  "}",
  "return false"
]

def stateresolutionv2__kahnsAlgorithmUsingAuthEvents : List String := [
  "func func(events []*stateResV2ConflictedPowerLevel) []*stateResV2ConflictedPowerLevel",
  "eventMap := make(map[string]*stateResV2ConflictedPowerLevel, len(events))",
  "graph := make([]*stateResV2ConflictedPowerLevel, 0, len(events))",
  "inDegree := make(map[string]int, len(events))",
  "for _, event := range events {",
  "if _, seen := eventMap[event.eventID]; seen {",
  "continue",
  "}",
  "eventMap[event.eventID] = event",
  "if _, ok := inDegree[event.eventID]; !ok {",
  "inDegree[event.eventID] = 0",
  "}",
  "for _, auth := range event.event.AuthEventIDs() {",
  "inDegree[auth]++",
  "}",
  "}",
  "noIncoming := make(stateResV2ConflictedPowerLevelHeap, 0, len(events))",
  "for eventID, count := range inDegree {",
  "if count == 0 {",
  "noIncoming.Push(eventMap[eventID])",
  "delete(eventMap, eventID)",
  "}",
  "}",
  "slices.SortStableFunc(noIncoming, sortStateResV2ConflictedPowerLevelHeap)",
  "for ; len(noIncoming) > 0;  {",
  "event := noIncoming.Pop()",
  "graph = append(graph, nil)",
  "copy(graph[1:], graph)",
  "graph[0] = event",
  "for _, auth := range event.event.AuthEventIDs() {",
  "inDegree[auth]--",
  "if inDegree[auth] == 0 {",
  "if _, ok := eventMap[auth]; ok {",
  "noIncoming.Push(eventMap[auth])",
  "delete(eventMap, auth)",
  "}",
  "}",
  "}",
  "slices.SortStableFunc(noIncoming, sortStateResV2ConflictedPowerLevelHeap)",
  "}",
  "if len(eventMap) > 0 {",
  "remaining := make(stateResV2ConflictedPowerLevelHeap, 0, len(events))",
  "for _, event := range eventMap {",
  "remaining.Push(event)",
  "}",
  "slices.SortStableFunc(remaining, sortStateResV2ConflictedPowerLevelHeap)",
  "graph = append(remaining, graph...)",
  "}",
  "return graph"
]

def stateresolutionv2__kahnsAlgorithmUsingPrevEvents : List String := [
  "func func(events []*stateResV2ConflictedOther) []*stateResV2ConflictedOther",
  "eventMap := make(map[string]*stateResV2ConflictedOther, len(events))",
  "graph := make([]*stateResV2ConflictedOther, 0, len(events))",
  "inDegree := make(map[string]int, len(events))",
  "for _, event := range events {",
  "if _, seen := eventMap[event.eventID]; seen {",
  "continue",
  "}",
  "eventMap[event.eventID] = event",
  "if _, ok := inDegree[event.eventID]; !ok {",
  "inDegree[event.eventID] = 0",
  "}",
  "for _, prev := range event.event.PrevEventIDs() {",
  "inDegree[prev]++",
  "}",
  "}",
  "noIncoming := make(stateResV2ConflictedOtherHeap, 0, len(events))",
  "for eventID, count := range inDegree {",
  "if count == 0 {",
  "noIncoming.Push(eventMap[eventID])",
  "delete(eventMap, eventID)",
  "}",
  "}",
  "slices.SortStableFunc(noIncoming, sortStateResV2ConflictedOtherHeap)",
  "for ; len(noIncoming) > 0;  {",
  "event := noIncoming.Pop()",
  "graph = append(graph, nil)",
  "copy(graph[1:], graph)",
  "graph[0] = event",
  "for _, prev := range event.event.PrevEventIDs() {",
  "inDegree[prev]--",
  "if inDegree[prev] == 0 {",
  "if _, ok := eventMap[prev]; ok {",
  "noIncoming.Push(eventMap[prev])",
  "delete(eventMap, prev)",
  "}",
  "}",
  "}",
  "slices.SortStableFunc(noIncoming, sortStateResV2ConflictedOtherHeap)",
  "}",
  "if len(eventMap) > 0 {",
  "remaining := make(stateResV2ConflictedOtherHeap, 0, len(events))",
  "for _, event := range eventMap {",
  "remaining = append(remaining, event)",
  "}",
  "slices.SortStableFunc(remaining, sortStateResV2ConflictedOtherHeap)",
  "graph = append(remaining, graph...)",
  "}",
  "return graph"
]

def stateresolutionv2__newPDUSet : List String := [
  "func func(pdus []PDU) *sets.HashSet[PDU, string]",
  "s := sets.NewHashSetFunc[PDU, string](len(pdus), func(p PDU) string { return p.EventID() })",
  "s.InsertSlice(pdus)",
  "return s"
]

def stateresolutionv2_stateResolverV2_applyEvents : List String := [
  "func func(events ...PDU)",
  "for _, event := range events {",
  "if st, sk := event.Type(), event.StateKey(); sk == nil {",
  "continue",
  "} else if *sk == \"\" {",
  "switch st {",
  "case spec.MRoomCreate:",
  "r.resolvedCreate = event",
  "case spec.MRoomPowerLevels:",
  "r.resolvedPowerLevels = event",
  "case spec.MRoomJoinRules:",
  "r.resolvedJoinRules = event",
  "default:",
  "r.resolvedOthers[StateKeyTuple{st, *sk}] = event",
  "}",
  "} else {",
  "switch st {",
  "case spec.MRoomThirdPartyInvite:",
  "r.resolvedThirdPartyInvites[*sk] = event",
  "case spec.MRoomMember:",
  "r.resolvedMembers[spec.SenderID(*sk)] = event",
  "default:",
  "r.resolvedOthers[StateKeyTuple{st, *sk}] = event",
  "}",
  "}",
  "}"
]

def stateresolutionv2_stateResolverV2_authAndApplyEvents : List String := [
  "func func(events ...PDU)",
  "addFromAuthEventsIfNotRejected := func(event PDU, eventType, stateKey string) { for _, authEventID := range event.AuthEventIDs() { rejected, ok := r.isRejectedCache[authEventID] if !ok { rejected = r.isRejectedFn(authEventID) r.isRejectedCache[authEventID] = rejected } if rejected { continue } authEv, ok := r.authEventMap[authEventID] if !ok { continue } if authEv.Type() != eventType || !authEv.StateKeyEquals(stateKey) { continue } _ = r.authProvider.AddEvent(authEv) } }",
  "for _, event := range events {",
  "r.authProvider.Clear()",
  "needed := StateNeededForAuth([]PDU{event})",
  "if resolved := r.resolvedCreate; needed.Create {",
  "if resolved != nil {",
  "_ = r.authProvider.AddEvent(resolved)",
  "} else {",
  "addFromAuthEventsIfNotRejected(event, spec.MRoomCreate, \"\")",
  "}",
  "}",
  "if resolved := r.resolvedJoinRules; needed.JoinRules {",
  "if resolved != nil {",
  "_ = r.authProvider.AddEvent(resolved)",
  "} else {",
  "addFromAuthEventsIfNotRejected(event, spec.MRoomJoinRules, \"\")",
  "}",
  "}",
  "if resolved := r.resolvedPowerLevels; needed.PowerLevels {",
  "if resolved != nil {",
  "_ = r.authProvider.AddEvent(resolved)",
  "} else {",
  "addFromAuthEventsIfNotRejected(event, spec.MRoomPowerLevels, \"\")",
  "}",
  "}",
  "for _, needed := range needed.Member {",
  "if resolved := r.resolvedMembers[spec.SenderID(needed)]; resolved != nil {",
  "_ = r.authProvider.AddEvent(resolved)",
  "} else {",
  "addFromAuthEventsIfNotRejected(event, spec.MRoomMember, needed)",
  "}",
  "}",
  "for _, needed := range needed.ThirdPartyInvite {",
  "if resolved := r.resolvedThirdPartyInvites[needed]; resolved != nil {",
  "_ = r.authProvider.AddEvent(resolved)",
  "} else {",
  "addFromAuthEventsIfNotRejected(event, spec.MRoomThirdPartyInvite, needed)",
  "}",
  "}",
  "r.allower.update(r.authProvider)",
  "if err := r.allower.allowed(event); err != nil {",
  "continue",
  "}",
  "r.applyEvents(event)",
  "}"
]

def stateresolutionv2_stateResolverV2_calculateAuthDifference : List String := [
  "func func() []PDU",
  "authDifference := make([]PDU, 0, len(r.conflictedEventMap)*3)",
  "authSets := make(map[string]map[string]PDU, len(r.conflictedEventMap))",
  "isInAuthList := func(k string, event PDU) bool { events, ok := authSets[k] if !ok { return false } _, ok = events[event.EventID()] return ok }",
  "isInAllAuthLists := func(event PDU) bool { for k, event := range authSets[event.EventID()] { if !isInAuthList(k, event) { return false } } return true }",
  "var iter func(eventID string, event PDU)",
  "iter = func(eventID string, event PDU) { for _, authEventID := range event.AuthEventIDs() { authEvent, ok := r.authEventMap[authEventID] if !ok { continue } if _, ok := authSets[eventID]; !ok { authSets[eventID] = map[string]PDU{} } if _, ok := authSets[eventID][authEventID]; ok { continue } authSets[eventID][authEventID] = authEvent iter(eventID, authEvent) } }",
  "for conflictedEventID, conflictedEvent := range r.conflictedEventMap {",
  "iter(conflictedEventID, conflictedEvent)",
  "}",
  "for _, event := range r.authEventMap {",
  "if !isInAllAuthLists(event) {",
  "authDifference = append(authDifference, event)",
  "}",
  "}",
  "return authDifference"
]

def stateresolutionv2_stateResolverV2_calculateAuthDifferenceNew : List String := [
  "func func(stateResAlgo StateResAlgorithm, conflictedEvents *sets.HashSet[PDU, string], stateSets [][]PDU) []PDU",
  "fullAuthChains := make([]*sets.HashSet[PDU, string], len(stateSets))",
  "completeConflictedSubgraph := newPDUSet(nil)",
  "for i, stateEvents := range stateSets {",
  "fullAuthChain, conflictedSubgraph := r.calculateFullAuthChainAndConflictedSubgraph(stateResAlgo, stateEvents, conflictedEvents)",
  "fullAuthChains[i] = fullAuthChain",
  "if stateResAlgo == StateResV2_1 {",
  "completeConflictedSubgraph.InsertSet(conflictedSubgraph)",
  "}",
  "}",
  "union := newPDUSet(nil)",
  "for _, fac := range fullAuthChains {",
  "union.InsertSet(fac)",
  "}",
  "var intersection sets.Collection[PDU] = fullAuthChains[0]",
  "for _, fac := range fullAuthChains[1:] {",
  "intersection = intersection.Intersect(fac)",
  "}",
  "authDifference := union.Difference(intersection)",
  "if stateResAlgo == StateResV2 {",
  "return authDifference.Slice()",
  "}",
  "return authDifference.Union(completeConflictedSubgraph).Slice()"
]

def stateresolutionv2_stateResolverV2_calculateFullAuthChainAndConflictedSubgraph : List String := [
  "func func(stateResAlgo StateResAlgorithm, stateSet []PDU, conflictedEvents *sets.HashSet[PDU, string]) (fullAuthChains, conflictedSubgraph *sets.HashSet[PDU, string])",
  "fullAuthChains = newPDUSet(nil)",
  "conflictedSubgraph = newPDUSet(nil)",
  "type pduVisitors struct { pdu PDU visiting [ // the current exploration path ]PDU originConflicted bool }// flag to indicate that the starting node is conflicted. // We are only interested in doing the book-keeping for 'visiting' for conflicted events.",
  "initial := make([]pduVisitors, len(stateSet))",
  "for i, p := range stateSet {",
  "initial[i] = pduVisitors{pdu: p, visiting: nil, originConflicted: conflictedEvents.Contains(p)}",
  "}",
  "stack := lane.NewStack(initial...)",
  "for ; stack.Size() > 0;  {",
  "curr, ok := stack.Pop()",
  "if !ok {",
  "break",
  "}",
  "shouldCalculateConflictedSubgraph := stateResAlgo == StateResV2_1 && curr.originConflicted",
  "if shouldCalculateConflictedSubgraph && conflictedEvents.Contains(curr.pdu) {",
  "for _, pathEvent := range curr.visiting {",
  "conflictedSubgraph.Insert(pathEvent)",
  "}",
  "conflictedSubgraph.Insert(curr.pdu)",
  "}",
  "for _, authEventID := range curr.pdu.AuthEventIDs() {",
  "authEvent, ok := r.authEventMap[authEventID]",
  "if !ok {",
  "continue",
  "}",
  "if fullAuthChains.Contains(authEvent) {",
  "if !shouldCalculateConflictedSubgraph {",
  "continue",
  "}",
  "}",
  "fullAuthChains.Insert(authEvent)",
  "if !shouldCalculateConflictedSubgraph {",
  "stack.Push(pduVisitors{pdu: authEvent, visiting: nil})",
  "continue",
  "}",
  "newVisiting := append(slices.Clone(curr.visiting), curr.pdu)",
  "stack.Push(pduVisitors{pdu: authEvent, visiting: newVisiting, originConflicted: curr.originConflicted})",
  "}",
  "}",
  "return fullAuthChains, conflictedSubgraph"
]

def stateresolutionv2_stateResolverV2_createPowerLevelMainline : List String := [
  "func func() []PDU",
  "var mainline []PDU",
  "visiting := make(map[string]struct{})",
  "var iter func(event PDU)",
  "iter = func(event PDU) { mainline = append(mainline, nil) copy(mainline[1:], mainline) mainline[0] = event for _, authEventID := range event.AuthEventIDs() { if authEvent, ok := r.authEventMap[authEventID]; ok { if authEvent.Type() == spec.MRoomPowerLevels && authEvent.StateKeyEquals(\"\") { if _, cyclic := visiting[authEventID]; cyclic { continue } visiting[authEventID] = struct{}{} iter(authEvent) delete(visiting, authEventID) } } } }",
  "if r.resolvedPowerLevels != nil {",
  "iter(r.resolvedPowerLevels)",
  "}",
  "return mainline"
]

def stateresolutionv2_stateResolverV2_getFirstPowerLevelMainlineEvent : List String := [
  "func func(event PDU) (mainlineEvent PDU, mainlinePosition int, steps int)",
  "isInMainline := func(searchEvent PDU) (int, bool) { pos, ok := r.powerLevelMainlinePos[searchEvent.EventID()] return pos, ok }",
  "visiting := make(map[string]struct{})",
  "var iter func(event PDU)",
  "iter = func(event PDU) { for _, authEventID := range event.AuthEventIDs() { authEvent, ok := r.authEventMap[authEventID] if !ok { continue } if authEvent.Type() != spec.MRoomPowerLevels || !authEvent.StateKeyEquals(\"\") { continue } if pos, isIn := isInMainline(authEvent); isIn { mainlineEvent = authEvent mainlinePosition = pos r.powerLevelMainlinePos[mainlineEvent.EventID()] = mainlinePosition return } if _, cyclic := visiting[authEventID]; cyclic { continue } steps++ visiting[authEventID] = struct{}{} iter(authEvent) delete(visiting, authEventID) } }",
  "iter(event)",
  "return"
]

def stateresolutionv2_stateResolverV2_getPowerLevelFromAuthEvents : List String := [
  "func func(event PDU) int64",
  "user := event.SenderID()",
  "verImpl := MustGetRoomVersion(event.Version())",
  "if verImpl.PrivilegedCreators() {",
  "createEvent := r.resolvedCreate",
  "if createEvent == nil {",
  "createEvent = r.createEvent",
  "}",
  "if createEvent != nil {",
  "for _, creator := range creatorsFromCreateEventOrNone(createEvent) {",
  "if creator == string(user) {",
  "return CreatorPowerLevel",
  "}",
  "}",
  "}",
  "}",
  "for _, authID := range event.AuthEventIDs() {",
  "authEvent, ok := r.authEventMap[authID]",
  "if !ok {",
  "continue",
  "}",
  "if authEvent.Type() != spec.MRoomPowerLevels || !authEvent.StateKeyEquals(\"\") {",
  "continue",
  "}",
  "content, ok := r.powerLevelContents[authID]",
  "if !ok {",
  "parsed, err := NewPowerLevelContentFromEvent(authEvent)",
  "if err != nil {",
  "return 0",
  "}",
  "content = &parsed",
  "r.powerLevelContents[authID] = content",
  "}",
  "return content.UserLevel(user)",
  "}",
  "return 0"
]

def stateresolutionv2_stateResolverV2_mainlineOrdering : List String := [
  "func func(events []PDU) []PDU",
  "block := r.wrapOtherEventsForSort(events)",
  "result := make([]PDU, 0, len(block))",
  "slices.SortStableFunc(block, sortStateResV2ConflictedOtherHeap)",
  "for _, s := range block {",
  "result = append(result, s.event)",
  "}",
  "return result"
]

def stateresolutionv2_stateResolverV2_reverseTopologicalOrdering : List String := [
  "func func(events []PDU, order TopologicalOrder) []PDU",
  "result := make([]PDU, 0, len(events))",
  "switch order {",
  "case TopologicalOrderByAuthEvents:",
  "block := r.wrapPowerLevelEventsForSort(events)",
  "for _, s := range kahnsAlgorithmUsingAuthEvents(block) {",
  "result = append(result, s.event)",
  "}",
  "case TopologicalOrderByPrevEvents:",
  "block := r.wrapOtherEventsForSort(events)",
  "for _, s := range kahnsAlgorithmUsingPrevEvents(block) {",
  "result = append(result, s.event)",
  "}",
  "default:",
  "panic(fmt.Sprintf(\"gomatrixserverlib.reverseTopologicalOrdering unknown Ordering %d\", order))",
  "}",
  "return result"
]

def stateresolutionv2_stateResolverV2_wrapOtherEventsForSort : List String := [
  "func func(events []PDU) []*stateResV2ConflictedOther",
  "block := make([]*stateResV2ConflictedOther, len(events))",
  "for i, event := range events {",
  "_, pos, steps := r.getFirstPowerLevelMainlineEvent(event)",
  "block[i] = &stateResV2ConflictedOther{mainlinePosition: pos, mainlineSteps: steps, originServerTS: event.OriginServerTS(), eventID: event.EventID(), event: event}",
  "}",
  "return block"
]

def stateresolutionv2_stateResolverV2_wrapPowerLevelEventsForSort : List String := [
  "func func(events []PDU) []*stateResV2ConflictedPowerLevel",
  "block := make([]*stateResV2ConflictedPowerLevel, len(events))",
  "for i, event := range events {",
  "block[i] = &stateResV2ConflictedPowerLevel{powerLevel: r.getPowerLevelFromAuthEvents(event), originServerTS: event.OriginServerTS(), eventID: event.EventID(), event: event}",
  "}",
  "return block"
]

def stateresolutionv2_type_IsRejected : List String := [
  "type IsRejected func(eventID string) bool"
]

def stateresolutionv2_type_TopologicalOrder : List String := [
  "type TopologicalOrder int"
]

def stateresolutionv2_type_stateResolverV2 : List String := [
  "type stateResolverV2 struct { allower *allowerContext authProvider *AuthEvents authEventMap map[string]PDU conflictedEventMap map[string]PDU powerLevelContents map[string]*PowerLevelContent powerLevelMainlinePos map[string]int resolvedCreate PDU createEvent PDU resolvedPowerLevels PDU resolvedJoinRules PDU resolvedThirdPartyInvites map[string]PDU resolvedMembers map[spec.SenderID]PDU resolvedOthers map[StateKeyTuple]PDU result []PDU isRejectedFn IsRejected isRejectedCache map[string]bool }"
]

def functions : List String := ["eventV1.go:.newEventFromTrustedJSONV1", "eventV1.go:.newEventFromTrustedJSONWithEventIDV1", "eventV1.go:.newEventFromUntrustedJSONV1", "eventV1.go:.signableEventJSON", "eventV1.go:eventV1.AuthEventIDs", "eventV1.go:eventV1.Content", "eventV1.go:eventV1.Depth", "eventV1.go:eventV1.EventID", "eventV1.go:eventV1.HistoryVisibility", "eventV1.go:eventV1.IsSticky", "eventV1.go:eventV1.JSON", "eventV1.go:eventV1.JoinRule", "eventV1.go:eventV1.MarshalJSON", "eventV1.go:eventV1.Membership", "eventV1.go:eventV1.OriginServerTS", "eventV1.go:eventV1.PowerLevels", "eventV1.go:eventV1.PrevEventIDs", "eventV1.go:eventV1.Redact", "eventV1.go:eventV1.Redacted", "eventV1.go:eventV1.Redacts", "eventV1.go:eventV1.RoomID", "eventV1.go:eventV1.SenderID", "eventV1.go:eventV1.SetUnsigned", "eventV1.go:eventV1.SetUnsignedField", "eventV1.go:eventV1.Sign", "eventV1.go:eventV1.StateKey", "eventV1.go:eventV1.StateKeyEquals", "eventV1.go:eventV1.StickyEndTime", "eventV1.go:eventV1.ToHeaderedJSON", "eventV1.go:eventV1.Type", "eventV1.go:eventV1.Unsigned", "eventV1.go:eventV1.Version", "eventV1.go:eventV1.assumedStickyStartTime", "eventV1.go:eventV1.calculatedStickyEndTime", "eventV1.go:type eventV1", "eventV1.go:type stickyEventData", "eventV2.go:.CheckFields", "eventV2.go:.newEventFromTrustedJSONV2", "eventV2.go:.newEventFromTrustedJSONWithEventIDV2", "eventV2.go:.newEventFromUntrustedJSONV2", "eventV2.go:eventV2.AuthEventIDs", "eventV2.go:eventV2.EventID", "eventV2.go:eventV2.MarshalJSON", "eventV2.go:eventV2.PrevEventIDs", "eventV2.go:eventV2.Redact", "eventV2.go:eventV2.SenderID", "eventV2.go:eventV2.SetUnsigned", "eventV2.go:eventV2.Sign", "eventV2.go:eventV2.populateEventID", "eventV2.go:type eventV2", "eventV3.go:.checkRoomID", "eventV3.go:.newEventFromTrustedJSONV3", "eventV3.go:.newEventFromTrustedJSONWithEventIDV3", "eventV3.go:.newEventFromUntrustedJSONV3", "eventV3.go:eventV3.AuthEventIDs", "eventV3.go:eventV3.RoomID", "eventV3.go:eventV3.SetUnsigned", "eventV3.go:eventV3.Sign", "eventV3.go:type eventV3", "event.go:EventValidationError.Error", "event.go:.SplitID", "event.go:.checkID", "event.go:.checkRoomIDField", "event.go:.checkUntrustedEventJSON", "event.go:.duplicateJSONKey", "event.go:.jsonFieldNames", "event.go:jsonWalk.duplicateName", "event.go:type EventValidationError", "event.go:type eventFields", "event.go:type jsonWalk", "eventauth.go:AuthEvents.AddEvent", "eventauth.go:AuthEvents.Clear", "eventauth.go:AuthEvents.Create", "eventauth.go:AuthEvents.JoinRules", "eventauth.go:AuthEvents.Member", "eventauth.go:AuthEvents.PowerLevels", "eventauth.go:AuthEvents.ThirdPartyInvite", "eventauth.go:AuthEvents.Valid", "eventauth.go:NotAllowed.Error", "eventauth.go:StateNeeded.AuthEventReferences", "eventauth.go:StateNeeded.Tuples", "eventauth.go:.Allowed", "eventauth.go:.NewAuthEvents", "eventauth.go:.StateNeededForAuth", "eventauth.go:.StateNeededForProtoEvent", "eventauth.go:.accumulateStateNeeded", "eventauth.go:.allowRestrictedJoins", "eventauth.go:.checkEventLevels", "eventauth.go:.checkKnocking", "eventauth.go:.checkNotificationLevels", "eventauth.go:.checkPowerLevelEventV1", "eventauth.go:.checkPowerLevelEventV2", "eventauth.go:.checkPowerLevelEventV3", "eventauth.go:.checkUserLevels", "eventauth.go:.disallowKnocking", "eventauth.go:.disallowRestrictedJoins", "eventauth.go:.errorf", "eventauth.go:.newAllowerContext", "eventauth.go:.thirdPartyInviteToken", "eventauth.go:allowerContext.aliasEventAllowed", "eventauth.go:allowerContext.allowed", "eventauth.go:allowerContext.createEventAllowed", "eventauth.go:allowerContext.defaultEventAllowed", "eventauth.go:allowerContext.memberEventAllowed", "eventauth.go:allowerContext.newEventAllower", "eventauth.go:allowerContext.newMembershipAllower", "eventauth.go:allowerContext.powerLevelsEventAllowed", "eventauth.go:allowerContext.redactEventAllowed", "eventauth.go:allowerContext.resetCreate", "eventauth.go:allowerContext.update", "eventauth.go:allowerContext.userPowerLevel", "eventauth.go:eventAllower.commonChecks", "eventauth.go:membershipAllower.membershipAllowed", "eventauth.go:membershipAllower.membershipAllowedFromThirdPartyInvite", "eventauth.go:membershipAllower.membershipAllowedOther", "eventauth.go:membershipAllower.membershipAllowedSelf", "eventauth.go:membershipAllower.membershipAllowedSelfForRestrictedJoin", "eventauth.go:membershipAllower.membershipFailed", "eventauth.go:type AuthEventProvider", "eventauth.go:type AuthEvents", "eventauth.go:type NotAllowed", "eventauth.go:type StateNeeded", "eventauth.go:type allowerContext", "eventauth.go:type eventAllower", "eventauth.go:type membershipAllower", "eventauth.go:type membershipContent", "eventcontent.go:CreateContent.DomainAllowed", "eventcontent.go:CreateContent.UserIDAllowed", "eventcontent.go:HistoryVisibility.Scan", "eventcontent.go:HistoryVisibility.Value", "eventcontent.go:MXIDMapping.Sign", "eventcontent.go:PowerLevelContent.Defaults", "eventcontent.go:PowerLevelContent.EventLevel", "eventcontent.go:PowerLevelContent.NotificationLevel", "eventcontent.go:PowerLevelContent.UserLevel", "eventcontent.go:.CreatorsFromCreateEvent", "eventcontent.go:.NewCreateContentFromAuthEvents", "eventcontent.go:.NewJoinRuleContentFromAuthEvents", "eventcontent.go:.NewMemberContentFromAuthEvents", "eventcontent.go:.NewMemberContentFromEvent", "eventcontent.go:.NewPowerLevelContentFromAuthEvents", "eventcontent.go:.NewPowerLevelContentFromEvent", "eventcontent.go:.NewThirdPartyInviteContentFromAuthEvents", "eventcontent.go:.checkCreateEventV1", "eventcontent.go:.checkCreateEventV2", "eventcontent.go:.checkCreateEventV3", "eventcontent.go:.domainFromID", "eventcontent.go:.isValidUserID", "eventcontent.go:.parseIntegerPowerLevels", "eventcontent.go:.parsePowerLevels", "eventcontent.go:levelJSONValue.UnmarshalJSON", "eventcontent.go:levelJSONValue.assignIfExists", "eventcontent.go:notNullLevel.UnmarshalJSON", "eventcontent.go:notNullLevels.UnmarshalJSON", "eventcontent.go:type CreateContent", "eventcontent.go:type HistoryVisibility", "eventcontent.go:type HistoryVisibilityContent", "eventcontent.go:type JoinRuleContent", "eventcontent.go:type JoinRuleContentAllowRule", "eventcontent.go:type MXIDMapping", "eventcontent.go:type MemberContent", "eventcontent.go:type MemberThirdPartyInvite", "eventcontent.go:type MemberThirdPartyInviteSigned", "eventcontent.go:type PowerLevelContent", "eventcontent.go:type PreviousRoom", "eventcontent.go:type PublicKey", "eventcontent.go:type RelatesTo", "eventcontent.go:type RelationContent", "eventcontent.go:type ThirdPartyInviteContent", "eventcontent.go:type levelJSONValue", "eventcontent.go:type notNullLevel", "eventcontent.go:type notNullLevels", "eventcrypto.go:.VerifyAllEventSignatures", "eventcrypto.go:.VerifyEventSignatures", "eventcrypto.go:.addContentHashesToEvent", "eventcrypto.go:.checkEventContentHash", "eventcrypto.go:.emptyAuthorisedViaServerName", "eventcrypto.go:.extractAuthorisedViaServerName", "eventcrypto.go:.getMXIDMapping", "eventcrypto.go:.membershipForSignatures", "eventcrypto.go:.referenceOfEvent", "eventcrypto.go:.referenceOfEventForVersion", "eventcrypto.go:.signEvent", "eventcrypto.go:.validateMXIDMappingSignatures", "eventversion.go:RoomVersionImpl.CheckCanonicalJSON", "eventversion.go:RoomVersionImpl.CheckCreateEvent", "eventversion.go:RoomVersionImpl.CheckKnockingAllowed", "eventversion.go:RoomVersionImpl.CheckPowerLevelEvent", "eventversion.go:RoomVersionImpl.CheckRestrictedJoin", "eventversion.go:RoomVersionImpl.CheckRestrictedJoinsAllowed", "eventversion.go:RoomVersionImpl.DomainlessRoomIDs", "eventversion.go:RoomVersionImpl.EventFormat", "eventversion.go:RoomVersionImpl.EventIDFormat", "eventversion.go:RoomVersionImpl.NewEventBuilder", "eventversion.go:RoomVersionImpl.NewEventBuilderFromProtoEvent", "eventversion.go:RoomVersionImpl.NewEventFromTrustedJSON", "eventversion.go:RoomVersionImpl.NewEventFromTrustedJSONWithEventID", "eventversion.go:RoomVersionImpl.NewEventFromUntrustedJSON", "eventversion.go:RoomVersionImpl.ParsePowerLevels", "eventversion.go:RoomVersionImpl.PrivilegedCreators", "eventversion.go:RoomVersionImpl.RedactEventJSON", "eventversion.go:RoomVersionImpl.RestrictedJoinServername", "eventversion.go:RoomVersionImpl.SignatureValidityCheck", "eventversion.go:RoomVersionImpl.Stable", "eventversion.go:RoomVersionImpl.StateResAlgorithm", "eventversion.go:RoomVersionImpl.Version", "eventversion.go:UnsupportedRoomVersionError.Error", "eventversion.go:.GetRoomVersion", "eventversion.go:.KnownRoomVersion", "eventversion.go:.MustGetRoomVersion", "eventversion.go:.NewEventFromHeaderedJSON", "eventversion.go:.RoomVersions", "eventversion.go:.SetRoomVersion", "eventversion.go:.StableRoomVersion", "eventversion.go:.StableRoomVersions", "eventversion.go:type EventFormat", "eventversion.go:type EventIDFormat", "eventversion.go:type IRoomVersion", "eventversion.go:type KnownRoomVersionFunc", "eventversion.go:type RoomVersion", "eventversion.go:type RoomVersionImpl", "eventversion.go:type StateResAlgorithm", "eventversion.go:type UnsupportedRoomVersionError", "fclient/federationtypes.go:DeviceKeys.Scan", "fclient/federationtypes.go:DeviceKeys.Value", "fclient/federationtypes.go:DeviceKeys.isCrossSigningBody", "fclient/federationtypes.go:MSC2836EventRelationshipsRequest.Defaults", "fclient/federationtypes.go:RespInvite.MarshalJSON", "fclient/federationtypes.go:RespInvite.UnmarshalJSON", "fclient/federationtypes.go:RespMakeJoin.GetJoinEvent", "fclient/federationtypes.go:RespMakeJoin.GetRoomVersion", "fclient/federationtypes.go:RespPeek.GetAuthEvents", "fclient/federationtypes.go:RespPeek.GetStateEvents", "fclient/federationtypes.go:RespPeek.MarshalJSON", "fclient/federationtypes.go:RespSendJoin.GetAuthEvents", "fclient/federationtypes.go:RespSendJoin.GetJoinEvent", "fclient/federationtypes.go:RespSendJoin.GetMembersOmitted", "fclient/federationtypes.go:RespSendJoin.GetOrigin", "fclient/federationtypes.go:RespSendJoin.GetServersInRoom", "fclient/federationtypes.go:RespSendJoin.GetStateEvents", "fclient/federationtypes.go:RespSendJoin.MarshalJSON", "fclient/federationtypes.go:RespStateIDs.GetAuthEventIDs", "fclient/federationtypes.go:RespStateIDs.GetStateEventIDs", "fclient/federationtypes.go:RespState.GetAuthEvents", "fclient/federationtypes.go:RespState.GetStateEvents", "fclient/federationtypes.go:RespState.MarshalJSON", "fclient/federationtypes.go:RespUserDevices.UnmarshalJSON", "fclient/federationtypes.go:.NewMSC2836EventRelationshipsRequest", "fclient/federationtypes.go:type DeviceKeys", "fclient/federationtypes.go:type EmptyResp", "fclient/federationtypes.go:type MSC2836EventRelationshipsRequest", "fclient/federationtypes.go:type MSC2836EventRelationshipsResponse", "fclient/federationtypes.go:type MissingEvents", "fclient/federationtypes.go:type PDUResult", "fclient/federationtypes.go:type PublicRoom", "fclient/federationtypes.go:type RespClaimKeys", "fclient/federationtypes.go:type RespDirectory", "fclient/federationtypes.go:type RespEventAuth", "fclient/federationtypes.go:type RespInvite", "fclient/federationtypes.go:type RespInviteV2", "fclient/federationtypes.go:type RespMakeJoin", "fclient/federationtypes.go:type RespMakeKnock", "fclient/federationtypes.go:type RespMakeLeave", "fclient/federationtypes.go:type RespMissingEvents", "fclient/federationtypes.go:type RespPeek", "fclient/federationtypes.go:type RespProfile", "fclient/federationtypes.go:type RespPublicRooms", "fclient/federationtypes.go:type RespQueryKeys", "fclient/federationtypes.go:type RespSend", "fclient/federationtypes.go:type RespSendJoin", "fclient/federationtypes.go:type RespSendKnock", "fclient/federationtypes.go:type RespState", "fclient/federationtypes.go:type RespStateIDs", "fclient/federationtypes.go:type RespUserDevice", "fclient/federationtypes.go:type RespUserDeviceKeys", "fclient/federationtypes.go:type RespUserDevices", "fclient/federationtypes.go:type RoomHierarchyResponse", "fclient/federationtypes.go:type RoomHierarchyRoom", "fclient/federationtypes.go:type RoomHierarchyStrippedEvent", "fclient/federationtypes.go:type Version", "fclient/federationtypes.go:type respInviteFields", "fclient/federationtypes.go:type respSendJoinFields", "fclient/federationtypes.go:type respSendJoinPartialStateFields", "fclient/federationtypes.go:type respStateFields", "fclient/request.go:FederationRequest.Content", "fclient/request.go:FederationRequest.Destination", "fclient/request.go:FederationRequest.HTTPRequest", "fclient/request.go:FederationRequest.Method", "fclient/request.go:FederationRequest.Origin", "fclient/request.go:FederationRequest.RequestURI", "fclient/request.go:FederationRequest.SetContent", "fclient/request.go:FederationRequest.Sign", "fclient/request.go:FederationRequest.checkFieldsUTF8", "fclient/request.go:.NewFederationRequest", "fclient/request.go:.ParseAuthorization", "fclient/request.go:.VerifyHTTPRequest", "fclient/request.go:.isSafeInHTTPQuotedString", "fclient/request.go:.readHTTPRequest", "fclient/request.go:type FederationRequest", "json.go:EventJSONs.TrustedEvents", "json.go:EventJSONs.UntrustedEvents", "json.go:.CanonicalJSON", "json.go:.CanonicalJSONAssumeValid", "json.go:.CompactJSON", "json.go:.EnforcedCanonicalJSON", "json.go:.NewEventJSONsFromEvents", "json.go:.SortJSON", "json.go:.compactUnicodeEscape", "json.go:.noVerifyCanonicalJSON", "json.go:.sortJSONArray", "json.go:.sortJSONObject", "json.go:.sortJSONValue", "json.go:.verifyEnforcedCanonicalJSON", "json.go:type EventJSONs", "keys.go:ServerKeys.MarshalJSON", "keys.go:ServerKeys.PublicKey", "keys.go:ServerKeys.UnmarshalJSON", "keys.go:.CheckKeys", "keys.go:.checkVerifyKeys", "keys.go:type Ed25519Checks", "keys.go:type KeyChecks", "keys.go:type OldVerifyKey", "keys.go:type ServerKeyFields", "keys.go:type ServerKeys", "keys.go:type VerifyKey", "signing.go:.ListKeyIDs", "signing.go:.SignJSON", "signing.go:.VerifyJSON", "signing.go:.checkStrictJSON", "signing.go:.checkStrictString", "signing.go:type KeyID", "spec/senderid.go:SenderID.IsPseudoID", "spec/senderid.go:SenderID.IsUserID", "spec/senderid.go:SenderID.RawBytes", "spec/senderid.go:SenderID.ToPseudoID", "spec/senderid.go:SenderID.ToUserID", "spec/senderid.go:.SenderIDFromPseudoIDKey", "spec/senderid.go:.SenderIDFromUserID", "spec/senderid.go:type CreateSenderID", "spec/senderid.go:type SenderID", "spec/senderid.go:type SenderIDForUser", "spec/senderid.go:type StoreSenderIDFromPublicID", "spec/senderid.go:type UserIDForSender", "stateresolutionv2.go:.HeaderedReverseTopologicalOrdering", "stateresolutionv2.go:.ResolveStateConflictsV2", "stateresolutionv2.go:.ResolveStateConflictsV2New", "stateresolutionv2.go:.ReverseTopologicalOrdering", "stateresolutionv2.go:.creatorsFromCreateEventOrNone", "stateresolutionv2.go:.eventMapFromEvents", "stateresolutionv2.go:.getCreateEvent", "stateresolutionv2.go:.isControlEvent", "stateresolutionv2.go:.kahnsAlgorithmUsingAuthEvents", "stateresolutionv2.go:.kahnsAlgorithmUsingPrevEvents", "stateresolutionv2.go:.newPDUSet", "stateresolutionv2.go:stateResolverV2.applyEvents", "stateresolutionv2.go:stateResolverV2.authAndApplyEvents", "stateresolutionv2.go:stateResolverV2.calculateAuthDifference", "stateresolutionv2.go:stateResolverV2.calculateAuthDifferenceNew", "stateresolutionv2.go:stateResolverV2.calculateFullAuthChainAndConflictedSubgraph", "stateresolutionv2.go:stateResolverV2.createPowerLevelMainline", "stateresolutionv2.go:stateResolverV2.getFirstPowerLevelMainlineEvent", "stateresolutionv2.go:stateResolverV2.getPowerLevelFromAuthEvents", "stateresolutionv2.go:stateResolverV2.mainlineOrdering", "stateresolutionv2.go:stateResolverV2.reverseTopologicalOrdering", "stateresolutionv2.go:stateResolverV2.wrapOtherEventsForSort", "stateresolutionv2.go:stateResolverV2.wrapPowerLevelEventsForSort", "stateresolutionv2.go:type IsRejected", "stateresolutionv2.go:type TopologicalOrder", "stateresolutionv2.go:type stateResolverV2"]

end VPins.C18
