/- PINNED copy of the statement skeletons of the Go functions the C18 model mirrors (written by tools/pin.sh
   when the model was last validated against the code). Compared with the regenerated VGen.SkelC18 in VProps/PinC18.lean. -/
namespace VPins.C18

def spec_senderid_SenderID_IsPseudoID : List String := [
  "func func() bool",
  "return !s.IsUserID()"
]

def spec_senderid_SenderID_IsUserID : List String := [
  "func func() bool",
  "return len(s) > 0 && s[0] == '@'"
]

def spec_senderid_SenderID_RawBytes : List String := [
  "func func() (res Base64Bytes, err error)",
  "err = res.Decode(string(s))",
  "if err != nil {",
  "return nil, err",
  "}",
  "return res, nil"
]

def spec_senderid_SenderID_ToPseudoID : List String := [
  "func func() *ed25519.PublicKey",
  "if s.IsPseudoID() {",
  "decoded, err := s.RawBytes()",
  "if err != nil {",
  "return nil",
  "}",
  "key := ed25519.PublicKey([]byte(decoded))",
  "return &key",
  "}",
  "return nil"
]

def spec_senderid_SenderID_ToUserID : List String := [
  "func func() *UserID",
  "if s.IsUserID() {",
  "uID, _ := NewUserID(string(s), true)",
  "return uID",
  "}",
  "return nil"
]

def spec_senderid__SenderIDFromPseudoIDKey : List String := [
  "func func(key ed25519.PrivateKey) SenderID",
  "return SenderID(Base64Bytes(key.Public().(ed25519.PublicKey)).Encode())"
]

def spec_senderid__SenderIDFromUserID : List String := [
  "func func(user UserID) SenderID",
  "return SenderID(user.String())"
]

def functions : List String := ["spec/senderid.go:SenderID.IsPseudoID", "spec/senderid.go:SenderID.IsUserID", "spec/senderid.go:SenderID.RawBytes", "spec/senderid.go:SenderID.ToPseudoID", "spec/senderid.go:SenderID.ToUserID", "spec/senderid.go:.SenderIDFromPseudoIDKey", "spec/senderid.go:.SenderIDFromUserID"]

end VPins.C18
