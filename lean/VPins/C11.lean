/- PINNED copy of the statement skeletons of the Go functions the C11 model mirrors (written by tools/pin.sh
   when the model was last validated against the code). Compared with the regenerated VGen.SkelC11 in VProps/PinC11.lean. -/
namespace VPins.C11

def authstate_FederatedStateProvider_StateBeforeEvent : List String := [
  "func func(ctx context.Context, roomVer RoomVersion, event PDU, eventIDs []string) (map[string]PDU, error)",
  "res, err := p.FedClient.LookupState(ctx, p.Origin, p.Server, event.RoomID().String(), event.EventID(), roomVer)",
  "if err != nil {",
  "return nil, err",
  "}",
  "roomVerImpl, err := GetRoomVersion(roomVer)",
  "if err != nil {",
  "return nil, err",
  "}",
  "if p.RememberAuthEvents {",
  "for _, js := range res.GetAuthEvents() {",
  "event, err := roomVerImpl.NewEventFromUntrustedJSON(js)",
  "if err != nil {",
  "continue",
  "}",
  "p.AuthEventMap[event.EventID()] = event",
  "}",
  "}",
  "result := make(map[string]PDU)",
  "for _, js := range res.GetStateEvents() {",
  "event, err := roomVerImpl.NewEventFromUntrustedJSON(js)",
  "if err != nil {",
  "continue",
  "}",
  "result[event.EventID()] = event",
  "}",
  "return result, nil"
]

def authstate_FederatedStateProvider_StateIDsBeforeEvent : List String := [
  "func func(ctx context.Context, event PDU) ([]string, error)",
  "res, err := p.FedClient.LookupStateIDs(ctx, p.Origin, p.Server, event.RoomID().String(), event.EventID())",
  "if err != nil {",
  "return nil, err",
  "}",
  "if p.RememberAuthEvents {",
  "p.EventToAuthEventIDs[event.EventID()] = res.GetAuthEventIDs()",
  "}",
  "return res.GetStateEventIDs(), nil"
]

def authstate__CheckSendJoinResponse : List String := [
  "func func(ctx context.Context, roomVersion RoomVersion, r StateResponse, keyRing JSONVerifier, joinEvent PDU, missingAuth EventProvider, userIDForSender spec.UserIDForSender) (StateResponse, error)",
  "authEvents, stateEvents, err := CheckStateResponse(ctx, r, roomVersion, keyRing, missingAuth, userIDForSender)",
  "if err != nil {",
  "return nil, err",
  "}",
  "eventsByID := map[string]PDU{}",
  "authEventProvider, _ := NewAuthEvents(nil)",
  "for i, event := range authEvents {",
  "eventsByID[event.EventID()] = authEvents[i]",
  "}",
  "for i, event := range stateEvents {",
  "eventsByID[event.EventID()] = stateEvents[i]",
  "}",
  "if err := checkAllowedByAuthEvents(joinEvent, eventsByID, missingAuth, userIDForSender); err != nil {",
  "return nil, fmt.Errorf(\"gomatrixserverlib: event with ID %q is not allowed by its auth events: %w\", joinEvent.EventID(), err)",
  "}",
  "stateEventsJSON := NewEventJSONsFromEvents(stateEvents)",
  "for i := range stateEventsJSON {",
  "if err := authEventProvider.AddEvent(stateEvents[i]); err != nil {",
  "return nil, err",
  "}",
  "}",
  "if err := Allowed(joinEvent, authEventProvider, userIDForSender); err != nil {",
  "return nil, fmt.Errorf(\"gomatrixserverlib: event with ID %q is not allowed by the current room state: %w\", joinEvent.EventID(), err)",
  "}",
  "return &stateResponseImpl{authEvents: NewEventJSONsFromEvents(authEvents), stateEvents: stateEventsJSON}, nil"
]

def authstate__CheckStateResponse : List String := [
  "func func(ctx context.Context, r StateResponse, roomVersion RoomVersion, keyRing JSONVerifier, missingAuth EventProvider, userIDForSender spec.UserIDForSender) ([]PDU, []PDU, error)",
  "logger := util.GetLogger(ctx)",
  "authEvents := r.GetAuthEvents().UntrustedEvents(roomVersion)",
  "stateEvents := r.GetStateEvents().UntrustedEvents(roomVersion)",
  "var allEvents []PDU",
  "for _, event := range authEvents {",
  "if event.StateKey() == nil {",
  "return nil, nil, fmt.Errorf(\"gomatrixserverlib: event %q does not have a state key\", event.EventID())",
  "}",
  "allEvents = append(allEvents, event)",
  "}",
  "stateTuples := map[StateKeyTuple]bool{}",
  "for _, event := range stateEvents {",
  "if event.StateKey() == nil {",
  "return nil, nil, fmt.Errorf(\"gomatrixserverlib: event %q does not have a state key\", event.EventID())",
  "}",
  "stateTuple := StateKeyTuple{EventType: event.Type(), StateKey: *event.StateKey()}",
  "if stateTuples[stateTuple] {",
  "return nil, nil, fmt.Errorf(\"gomatrixserverlib: duplicate state key tuple (%q, %q)\", event.Type(), *event.StateKey())",
  "}",
  "stateTuples[stateTuple] = true",
  "allEvents = append(allEvents, event)",
  "}",
  "logger.Infof(\"Checking event signatures for %d events of room state\", len(allEvents))",
  "errors := VerifyAllEventSignatures(ctx, allEvents, keyRing, userIDForSender)",
  "if len(errors) != len(allEvents) {",
  "return nil, nil, fmt.Errorf(\"expected %d errors but got %d\", len(allEvents), len(errors))",
  "}",
  "failed := make([]bool, len(allEvents))",
  "for i, e := range allEvents {",
  "if errors[i] != nil {",
  "logrus.WithError(errors[i]).Warnf(\"Signature validation failed for event %q\", e.EventID())",
  "failed[i] = true",
  "}",
  "}",
  "eventsByID := map[string]PDU{}",
  "for i := range allEvents {",
  "if !failed[i] {",
  "eventsByID[allEvents[i].EventID()] = allEvents[i]",
  "}",
  "}",
  "for i, event := range allEvents {",
  "if err := checkAllowedByAuthEvents(event, eventsByID, missingAuth, userIDForSender); err != nil {",
  "logrus.WithError(err).Warnf(\"Event %q is not allowed by its auth events\", event.EventID())",
  "failed[i] = true",
  "}",
  "}",
  "discarded := 0",
  "keep := func(events []PDU, offset int) []PDU { kept := events[:0] for i := range events { if failed[offset+i] { discarded++ continue } kept = append(kept, events[i]) } return kept }",
  "numAuthEvents := len(authEvents)",
  "authEvents = keep(authEvents, 0)",
  "stateEvents = keep(stateEvents, numAuthEvents)",
  "if discarded > 0 {",
  "logger.Warnf(\"Discarding %d auth/state event(s) due to invalid signatures\", discarded)",
  "}",
  "return authEvents, stateEvents, nil"
]

def authstate__LineariseStateResponse : List String := [
  "func func(roomVersion RoomVersion, r StateResponse) []PDU",
  "authEvents := r.GetAuthEvents().UntrustedEvents(roomVersion)",
  "stateEvents := r.GetStateEvents().UntrustedEvents(roomVersion)",
  "eventsByID := make(map[string]PDU, len(authEvents)+len(stateEvents))",
  "for i, event := range authEvents {",
  "eventsByID[event.EventID()] = authEvents[i]",
  "}",
  "for i, event := range stateEvents {",
  "eventsByID[event.EventID()] = stateEvents[i]",
  "}",
  "allEvents := make([]PDU, 0, len(eventsByID))",
  "for _, event := range eventsByID {",
  "allEvents = append(allEvents, event)",
  "}",
  "return ReverseTopologicalOrdering(allEvents, TopologicalOrderByAuthEvents)"
]

def authstate__VerifyAuthRulesAtState : List String := [
  "func func(ctx context.Context, sp StateProvider, eventToVerify PDU, allowValidation bool, userIDForSender spec.UserIDForSender) error",
  "stateIDs, err := sp.StateIDsBeforeEvent(ctx, eventToVerify)",
  "if err != nil {",
  "return fmt.Errorf(\"gomatrixserverlib.VerifyAuthRulesAtState: cannot fetch state IDs before event %s: %w\", eventToVerify.EventID(), err)",
  "}",
  "if allowValidation {",
  "authRulesExistAtState := true",
  "for _, authEventID := range eventToVerify.AuthEventIDs() {",
  "found := false",
  "for _, stateID := range stateIDs {",
  "if stateID == authEventID {",
  "found = true",
  "break",
  "}",
  "}",
  "if !found {",
  "authRulesExistAtState = false",
  "break",
  "}",
  "}",
  "if authRulesExistAtState {",
  "return nil",
  "}",
  "}",
  "if ctx.Err() != nil {",
  "return fmt.Errorf(\"gomatrixserverlib.VerifyAuthRulesAtState: context cancelled: %w\", ctx.Err())",
  "}",
  "roomState, err := sp.StateBeforeEvent(ctx, eventToVerify.Version(), eventToVerify, stateIDs)",
  "if err != nil {",
  "return fmt.Errorf(\"gomatrixserverlib.VerifyAuthRulesAtState: cannot get state at event %s: %w\", eventToVerify.EventID(), err)",
  "}",
  "if ctx.Err() != nil {",
  "return fmt.Errorf(\"gomatrixserverlib.VerifyAuthRulesAtState: context cancelled: %w\", ctx.Err())",
  "}",
  "stateAuthEvents, _ := NewAuthEvents(nil)",
  "for _, stateEvent := range roomState {",
  "if stateEvent == nil {",
  "continue",
  "}",
  "if stateKey := stateEvent.StateKey(); stateKey != nil {",
  "if other := stateAuthEvents.events[StateKeyTuple{stateEvent.Type(), *stateKey}]; other != nil && (other.EventID() != stateEvent.EventID() || !bytes.Equal(other.JSON(), stateEvent.JSON())) {",
  "return fmt.Errorf(\"gomatrixserverlib.VerifyAuthRulesAtState: event %s is not allowed at state %s : the state has two events for (%q, %q): %s and %s\", eventToVerify.EventID(), eventToVerify.EventID(), stateEvent.Type(), *stateKey, other.EventID(), stateEvent.EventID())",
  "}",
  "}",
  "if err := stateAuthEvents.AddEvent(stateEvent); err != nil {",
  "return fmt.Errorf(\"gomatrixserverlib.VerifyAuthRulesAtState: event %s is not allowed at state %s : %w\", eventToVerify.EventID(), eventToVerify.EventID(), err)",
  "}",
  "}",
  "if err := Allowed(eventToVerify, stateAuthEvents, userIDForSender); err != nil {",
  "return fmt.Errorf(\"gomatrixserverlib.VerifyAuthRulesAtState: event %s is not allowed at state %s : %w\", eventToVerify.EventID(), eventToVerify.EventID(), err)",
  "}",
  "return nil"
]

def authstate__checkAllowedByAuthEvents : List String := [
  "func func(event PDU, eventsByID map[string]PDU, missingAuth EventProvider, userIDForSender spec.UserIDForSender) error",
  "authEvents, _ := NewAuthEvents(nil)",
  "for _, ae := range event.AuthEventIDs() {",
  "retryEvent: authEvent, ok := eventsByID[ae]",
  "if !ok {",
  "if missingAuth != nil {",
  "if ev, err := missingAuth(event.Version(), []string{ae}); err == nil && len(ev) > 0 {",
  "for _, e := range ev {",
  "if err := authEvents.AddEvent(e); err == nil {",
  "eventsByID[e.EventID()] = e",
  "} else {",
  "eventsByID[e.EventID()] = nil",
  "}",
  "}",
  "if _, got := eventsByID[ae]; !got {",
  "eventsByID[ae] = nil",
  "}",
  "} else {",
  "eventsByID[ae] = nil",
  "}",
  "goto retryEvent",
  "} else {",
  "continue",
  "}",
  "} else if authEvent != nil {",
  "if err := authEvents.AddEvent(authEvent); err != nil {",
  "return err",
  "}",
  "} else {",
  "continue",
  "}",
  "}",
  "if err := Allowed(event, authEvents, userIDForSender); err != nil {",
  "return fmt.Errorf(\"gomatrixserverlib: event with ID %q is not allowed by its auth_events: %s\", event.EventID(), err.Error())",
  "}",
  "return nil"
]

def authstate_stateResponseImpl_GetAuthEvents : List String := [
  "func func() EventJSONs",
  "return s.authEvents"
]

def authstate_stateResponseImpl_GetStateEvents : List String := [
  "func func() EventJSONs",
  "return s.stateEvents"
]

def authstate_type_FederatedStateClient : List String := [
  "type FederatedStateClient interface { LookupState(ctx context.Context, origin, s spec.ServerName, roomID, eventID string, roomVersion RoomVersion) (res StateResponse, err error) LookupStateIDs(ctx context.Context, origin, s spec.ServerName, roomID, eventID string) (res StateIDResponse, err error) }"
]

def authstate_type_FederatedStateProvider : List String := [
  "type FederatedStateProvider struct { FedClient FederatedStateClient Origin spec.ServerName Server spec.ServerName RememberAuthEvents bool EventToAuthEventIDs map[string][]string AuthEventMap map[string]PDU }"
]

def authstate_type_StateIDResponse : List String := [
  "type StateIDResponse interface { GetStateEventIDs() []string GetAuthEventIDs() []string }"
]

def authstate_type_StateProvider : List String := [
  "type StateProvider interface { StateIDsBeforeEvent(ctx context.Context, event PDU) ([]string, error) StateBeforeEvent(ctx context.Context, roomVer RoomVersion, event PDU, eventIDs []string) (map[string]PDU, error) }"
]

def authstate_type_StateResponse : List String := [
  "type StateResponse interface { GetAuthEvents() EventJSONs GetStateEvents() EventJSONs }"
]

def authstate_type_stateResponseImpl : List String := [
  "type stateResponseImpl struct { authEvents EventJSONs stateEvents EventJSONs }"
]

def backfill__RequestBackfill : List String := [
  "func func(ctx context.Context, origin spec.ServerName, b BackfillRequester, keyRing JSONVerifier, roomID string, ver RoomVersion, fromEventIDs []string, limit int, userIDForSender spec.UserIDForSender) ([]PDU, error)",
  "if len(fromEventIDs) == 0 {",
  "return nil, nil",
  "}",
  "haveEventIDs := make(map[string]bool)",
  "var result []PDU",
  "loader := NewEventsLoader(ver, keyRing, b, b.ProvideEvents, false)",
  "servers := b.ServersAtEvent(ctx, roomID, fromEventIDs[0])",
  "var lastErr error",
  "for _, s := range servers {",
  "if len(result) >= limit {",
  "break",
  "}",
  "if ctx.Err() != nil {",
  "return nil, fmt.Errorf(\"gomatrixserverlib: RequestBackfill context cancelled %w\", ctx.Err())",
  "}",
  "txn, err := b.Backfill(ctx, origin, s, roomID, limit, fromEventIDs)",
  "if err != nil {",
  "lastErr = err",
  "continue",
  "}",
  "loadResults, err := loader.LoadAndVerify(ctx, txn.PDUs, TopologicalOrderByPrevEvents, userIDForSender)",
  "if err != nil {",
  "lastErr = err",
  "continue",
  "}",
  "for _, res := range loadResults {",
  "switch res.Error.(type) { case nil, SignatureErr: case AuthChainErr, AuthRulesErr: continue default: continue }",
  "if haveEventIDs[res.Event.EventID()] {",
  "continue",
  "}",
  "haveEventIDs[res.Event.EventID()] = true",
  "result = append(result, res.Event)",
  "}",
  "}",
  "return ReverseTopologicalOrdering(result, TopologicalOrderByPrevEvents), lastErr"
]

def backfill_type_BackfillClient : List String := [
  "type BackfillClient interface { Backfill(ctx context.Context, origin, server spec.ServerName, roomID string, limit int, fromEventIDs []string) (Transaction, error) }"
]

def backfill_type_BackfillRequester : List String := [
  "type BackfillRequester interface { StateProvider BackfillClient ServersAtEvent(ctx context.Context, roomID, eventID string) []spec.ServerName ProvideEvents(roomVer RoomVersion, eventIDs []string) ([]PDU, error) }"
]

def load_AuthChainErr_Error : List String := [
  "func func() string",
  "return fmt.Sprintf(\"AuthChainErr: %s\", se.err)"
]

def load_AuthChainErr_Is : List String := [
  "func func(target error) bool",
  "return strings.HasPrefix(target.Error(), \"AuthChainErr\")"
]

def load_AuthRulesErr_Error : List String := [
  "func func() string",
  "return fmt.Sprintf(\"AuthRulesErr: %s\", se.err)"
]

def load_AuthRulesErr_Is : List String := [
  "func func(target error) bool",
  "return strings.HasPrefix(target.Error(), \"AuthRulesErr\")"
]

def load_EventsLoader_LoadAndVerify : List String := [
  "func func(ctx context.Context, rawEvents []json.RawMessage, sortOrder TopologicalOrder, userIDForSender spec.UserIDForSender) ([]EventLoadResult, error)",
  "results := make([]EventLoadResult, len(rawEvents))",
  "verImpl, err := GetRoomVersion(l.roomVer)",
  "if err != nil {",
  "return nil, err",
  "}",
  "events := make([]PDU, 0, len(rawEvents))",
  "errs := make([]error, 0, len(rawEvents))",
  "seen := make(map[string]struct{}, len(rawEvents))",
  "for _, rawEv := range rawEvents {",
  "event, err := verImpl.NewEventFromUntrustedJSON(rawEv)",
  "if err != nil {",
  "errs = append(errs, err)",
  "continue",
  "}",
  "if _, dup := seen[event.EventID()]; dup {",
  "errs = append(errs, fmt.Errorf(\"gomatrixserverlib: duplicate event %q\", event.EventID()))",
  "continue",
  "}",
  "seen[event.EventID()] = struct{}{}",
  "events = append(events, event)",
  "}",
  "events = ReverseTopologicalOrdering(events, sortOrder)",
  "for i := 0; i < len(errs); i++ {",
  "results[len(results)-len(errs)+i] = EventLoadResult{Error: errs[i]}",
  "}",
  "failures := VerifyAllEventSignatures(ctx, events, l.keyRing, userIDForSender)",
  "if len(failures) != len(events) {",
  "return nil, fmt.Errorf(\"gomatrixserverlib: bulk event signature verification length mismatch: %d != %d\", len(failures), len(events))",
  "}",
  "for i := range events {",
  "h := events[i]",
  "results[i] = EventLoadResult{Event: h}",
  "if eventErr := failures[i]; eventErr != nil {",
  "if results[i].Error == nil {",
  "results[i].Error = SignatureErr{eventErr}",
  "continue",
  "}",
  "}",
  "if err := VerifyEventAuthChain(ctx, h, l.provider, userIDForSender); err != nil {",
  "if results[i].Error == nil {",
  "results[i].Error = AuthChainErr{err}",
  "continue",
  "}",
  "}",
  "if err := VerifyAuthRulesAtState(ctx, l.stateProvider, h, true, userIDForSender); err != nil {",
  "if results[i].Error == nil {",
  "results[i].Error = AuthRulesErr{err}",
  "continue",
  "}",
  "}",
  "}",
  "return results, nil"
]

def load_SignatureErr_Error : List String := [
  "func func() string",
  "return fmt.Sprintf(\"SignatureErr: %s\", se.err)"
]

def load_SignatureErr_Is : List String := [
  "func func(target error) bool",
  "return strings.HasPrefix(target.Error(), \"SignatureErr\")"
]

def load__NewEventsLoader : List String := [
  "func func(roomVer RoomVersion, keyRing JSONVerifier, stateProvider StateProvider, provider EventProvider, performSoftFailCheck bool) *EventsLoader",
  "return &EventsLoader{roomVer: roomVer, keyRing: keyRing, provider: provider, stateProvider: stateProvider, performSoftFailCheck: performSoftFailCheck}"
]

def load_type_AuthChainErr : List String := [
  "type AuthChainErr struct{ err error }"
]

def load_type_AuthRulesErr : List String := [
  "type AuthRulesErr struct{ err error }"
]

def load_type_EventLoadResult : List String := [
  "type EventLoadResult struct { Event PDU Error error SoftFail bool }"
]

def load_type_EventsLoader : List String := [
  "type EventsLoader struct { roomVer RoomVersion keyRing JSONVerifier provider EventProvider stateProvider StateProvider performSoftFailCheck bool }"
]

def load_type_SignatureErr : List String := [
  "type SignatureErr struct{ err error }"
]

def stateresolution__ResolveConflicts : List String := [
  "func func(version RoomVersion, events []PDU, authEvents []PDU, userIDForSender spec.UserIDForSender, isRejectedFn IsRejected) ([]PDU, error)",
  "type stateKeyTuple struct { Type string StateKey string }",
  "eventIDMap := map[string]struct{}{}",
  "eventMap := make(map[stateKeyTuple][]PDU)",
  "var conflicted, notConflicted, resolved []PDU",
  "for _, event := range events {",
  "if _, ok := eventIDMap[event.EventID()]; ok {",
  "continue",
  "}",
  "eventIDMap[event.EventID()] = struct{}{}",
  "if event.StateKey() == nil {",
  "continue",
  "}",
  "tuple := stateKeyTuple{event.Type(), *event.StateKey()}",
  "eventMap[tuple] = append(eventMap[tuple], event)",
  "}",
  "for _, list := range eventMap {",
  "if len(list) > 1 {",
  "conflicted = append(conflicted, list...)",
  "} else {",
  "notConflicted = append(notConflicted, list...)",
  "}",
  "}",
  "verImpl, err := GetRoomVersion(version)",
  "if err != nil {",
  "return nil, err",
  "}",
  "stateResAlgo := verImpl.StateResAlgorithm()",
  "switch stateResAlgo {",
  "case StateResV1:",
  "resolved = ResolveStateConflicts(conflicted, authEvents, userIDForSender)",
  "resolved = append(resolved, notConflicted...)",
  "case StateResV2:",
  "fallthrough",
  "case StateResV2_1:",
  "resolved = ResolveStateConflictsV2(conflicted, notConflicted, authEvents, userIDForSender, isRejectedFn)",
  "default:",
  "return nil, fmt.Errorf(\"unsupported state resolution algorithm %v\", stateResAlgo)",
  "}",
  "return resolved, nil"
]

def stateresolution__ResolveConflictsNew : List String := [
  "func func(version RoomVersion, stateSets [][]PDU, authEvents []PDU, userIDForSender spec.UserIDForSender, isRejectedFn IsRejected) ([]PDU, error)",
  "verImpl, err := GetRoomVersion(version)",
  "if err != nil {",
  "return nil, err",
  "}",
  "stateResAlgo := verImpl.StateResAlgorithm()",
  "var resolved []PDU",
  "switch stateResAlgo {",
  "case StateResV1:",
  "conflicted, notConflicted := splitConflictedUnconflicted(stateResAlgo, stateSets)",
  "resolved = ResolveStateConflicts(conflicted, authEvents, userIDForSender)",
  "resolved = append(resolved, notConflicted...)",
  "case StateResV2:",
  "fallthrough",
  "case StateResV2_1:",
  "resolved = ResolveStateConflictsV2New(stateResAlgo, stateSets, authEvents, userIDForSender, isRejectedFn)",
  "default:",
  "return nil, fmt.Errorf(\"unsupported state resolution algorithm %v\", stateResAlgo)",
  "}",
  "return resolved, nil"
]

def stateresolution__ResolveStateConflicts : List String := [
  "func func(conflicted []PDU, authEvents []PDU, userIDForSender spec.UserIDForSender) []PDU",
  "r := stateResolver{valid: true}",
  "r.resolvedThirdPartyInvites = map[string]PDU{}",
  "r.resolvedMembers = map[spec.SenderID]PDU{}",
  "r.addConflicted(conflicted)",
  "for i := range authEvents {",
  "r.addAuthEvent(authEvents[i])",
  "}",
  "r.resolveAndAddAuthBlocks([][]PDU{r.creates}, userIDForSender)",
  "r.resolveAndAddAuthBlocks([][]PDU{r.powerLevels}, userIDForSender)",
  "r.resolveAndAddAuthBlocks([][]PDU{r.joinRules}, userIDForSender)",
  "r.resolveAndAddAuthBlocks(r.thirdPartyInvites, userIDForSender)",
  "r.resolveAndAddAuthBlocks(r.members, userIDForSender)",
  "for _, block := range r.others {",
  "if event := r.resolveNormalBlock(block, userIDForSender); event != nil {",
  "r.result = append(r.result, event)",
  "}",
  "}",
  "return r.result"
]

def stateresolution__sortConflictedEventsByDepthAndSHA1 : List String := [
  "func func(events []PDU) []conflictedEvent",
  "block := make([]conflictedEvent, len(events))",
  "for i := range events {",
  "event := events[i]",
  "block[i] = conflictedEvent{depth: event.Depth(), eventIDSHA1: sha1.Sum([]byte(event.EventID())), event: event}",
  "}",
  "sort.Sort(conflictedEventSorter(block))",
  "return block"
]

def stateresolution__splitConflictedUnconflicted : List String := [
  "func func(algoVersion StateResAlgorithm, stateSets [][]PDU) (conflicted, notConflicted []PDU)",
  "type stateKeyTuple struct { Type string StateKey string }",
  "eventIDCountMap := map[string]int{}",
  "eventMap := make(map[stateKeyTuple][]PDU)",
  "for _, events := range stateSets {",
  "for _, event := range events {",
  "numSeen := eventIDCountMap[event.EventID()]",
  "eventIDCountMap[event.EventID()] += 1",
  "if numSeen > 0 {",
  "continue",
  "}",
  "if event.StateKey() == nil {",
  "continue",
  "}",
  "tuple := stateKeyTuple{event.Type(), *event.StateKey()}",
  "eventMap[tuple] = append(eventMap[tuple], event)",
  "}",
  "}",
  "for _, list := range eventMap {",
  "if len(list) > 1 {",
  "conflicted = append(conflicted, list...)",
  "} else {",
  "if algoVersion == StateResV1 {",
  "notConflicted = append(notConflicted, list...)",
  "continue",
  "}",
  "for _, event := range list {",
  "if numSeen := eventIDCountMap[event.EventID()]; numSeen == len(stateSets) {",
  "notConflicted = append(notConflicted, list...)",
  "} else {",
  "conflicted = append(conflicted, event)",
  "}",
  "}",
  "}",
  "}",
  "return"
]

def stateresolution_conflictedEventSorter_Len : List String := [
  "func func() int",
  "return len(s)"
]

def stateresolution_conflictedEventSorter_Swap : List String := [
  "func func(i, j int)",
  "s[i], s[j] = s[j], s[i]"
]

def stateresolution_stateResolver_Create : List String := [
  "func func() (PDU, error)",
  "return r.resolvedCreate, nil"
]

def stateresolution_stateResolver_JoinRules : List String := [
  "func func() (PDU, error)",
  "return r.resolvedJoinRules, nil"
]

def stateresolution_stateResolver_Member : List String := [
  "func func(key spec.SenderID) (PDU, error)",
  "return r.resolvedMembers[key], nil"
]

def stateresolution_stateResolver_PowerLevels : List String := [
  "func func() (PDU, error)",
  "return r.resolvedPowerLevels, nil"
]

def stateresolution_stateResolver_ThirdPartyInvite : List String := [
  "func func(key string) (PDU, error)",
  "return r.resolvedThirdPartyInvites[key], nil"
]

def stateresolution_stateResolver_Valid : List String := [
  "func func() bool",
  "return r.valid"
]

def stateresolution_stateResolver_addAuthEvent : List String := [
  "func func(event PDU)",
  "if event.StateKey() == nil {",
  "return",
  "}",
  "if event.RoomID().String() != \"\" && r.roomID == \"\" {",
  "r.roomID = event.RoomID().String()",
  "}",
  "if r.roomID != event.RoomID().String() {",
  "r.valid = false",
  "}",
  "switch event.Type() {",
  "case spec.MRoomCreate:",
  "if event.StateKeyEquals(\"\") {",
  "r.resolvedCreate = event",
  "}",
  "case spec.MRoomPowerLevels:",
  "if event.StateKeyEquals(\"\") {",
  "r.resolvedPowerLevels = event",
  "}",
  "case spec.MRoomJoinRules:",
  "if event.StateKeyEquals(\"\") {",
  "r.resolvedJoinRules = event",
  "}",
  "case spec.MRoomMember:",
  "r.resolvedMembers[spec.SenderID(*event.StateKey())] = event",
  "case spec.MRoomThirdPartyInvite:",
  "r.resolvedThirdPartyInvites[*event.StateKey()] = event",
  "}"
]

def stateresolution_stateResolver_addConflicted : List String := [
  "func func(events []PDU)",
  "type conflictKey struct { eventType string stateKey string }",
  "offsets := map[conflictKey]int{}",
  "for _, event := range events {",
  "key := conflictKey{event.Type(), *event.StateKey()}",
  "blockList := &r.others",
  "switch key.eventType {",
  "case spec.MRoomCreate:",
  "if key.stateKey == \"\" {",
  "r.creates = append(r.creates, event)",
  "continue",
  "}",
  "case spec.MRoomPowerLevels:",
  "if key.stateKey == \"\" {",
  "r.powerLevels = append(r.powerLevels, event)",
  "continue",
  "}",
  "case spec.MRoomJoinRules:",
  "if key.stateKey == \"\" {",
  "r.joinRules = append(r.joinRules, event)",
  "continue",
  "}",
  "case spec.MRoomMember:",
  "blockList = &r.members",
  "case spec.MRoomThirdPartyInvite:",
  "blockList = &r.thirdPartyInvites",
  "}",
  "offset, ok := offsets[key]",
  "if !ok {",
  "offset = len(*blockList)",
  "*blockList = append(*blockList, nil)",
  "offsets[key] = offset",
  "}",
  "block := &(*blockList)[offset]",
  "*block = append(*block, event)",
  "}"
]

def stateresolution_stateResolver_authEventAt : List String := [
  "func func(eventType, stateKey string) PDU",
  "switch eventType {",
  "case spec.MRoomCreate:",
  "if stateKey == \"\" {",
  "return r.resolvedCreate",
  "}",
  "case spec.MRoomPowerLevels:",
  "if stateKey == \"\" {",
  "return r.resolvedPowerLevels",
  "}",
  "case spec.MRoomJoinRules:",
  "if stateKey == \"\" {",
  "return r.resolvedJoinRules",
  "}",
  "case spec.MRoomMember:",
  "return r.resolvedMembers[spec.SenderID(stateKey)]",
  "case spec.MRoomThirdPartyInvite:",
  "return r.resolvedThirdPartyInvites[stateKey]",
  "}",
  "return nil"
]

def stateresolution_stateResolver_removeAuthEvent : List String := [
  "func func(eventType, stateKey string)",
  "switch eventType {",
  "case spec.MRoomCreate:",
  "if stateKey == \"\" {",
  "r.resolvedCreate = nil",
  "}",
  "case spec.MRoomPowerLevels:",
  "if stateKey == \"\" {",
  "r.resolvedPowerLevels = nil",
  "}",
  "case spec.MRoomJoinRules:",
  "if stateKey == \"\" {",
  "r.resolvedJoinRules = nil",
  "}",
  "case spec.MRoomMember:",
  "r.resolvedMembers[spec.SenderID(stateKey)] = nil",
  "case spec.MRoomThirdPartyInvite:",
  "r.resolvedThirdPartyInvites[stateKey] = nil",
  "}"
]

def stateresolution_stateResolver_resolveAndAddAuthBlocks : List String := [
  "func func(blocks [][]PDU, userIDForSender spec.UserIDForSender)",
  "start := len(r.result)",
  "for _, block := range blocks {",
  "if len(block) == 0 {",
  "continue",
  "}",
  "if event := r.resolveAuthBlock(block, userIDForSender); event != nil {",
  "r.result = append(r.result, event)",
  "}",
  "}",
  "for i := start; i < len(r.result); i++ {",
  "r.addAuthEvent(r.result[i])",
  "}"
]

def stateresolution_stateResolver_resolveAuthBlock : List String := [
  "func func(events []PDU, userIDForSender spec.UserIDForSender) PDU",
  "block := sortConflictedEventsByDepthAndSHA1(events)",
  "result := block[0].event",
  "previous := r.authEventAt(result.Type(), *result.StateKey())",
  "r.addAuthEvent(result)",
  "for i := 1; i < len(block); i++ {",
  "event := block[i].event",
  "if Allowed(event, r, userIDForSender) == nil {",
  "result = event",
  "r.addAuthEvent(result)",
  "} else {",
  "break",
  "}",
  "}",
  "r.removeAuthEvent(result.Type(), *result.StateKey())",
  "if previous != nil {",
  "r.addAuthEvent(previous)",
  "}",
  "return result"
]

def stateresolution_stateResolver_resolveNormalBlock : List String := [
  "func func(events []PDU, userIDForSender spec.UserIDForSender) PDU",
  "block := sortConflictedEventsByDepthAndSHA1(events)",
  "for i := len(block) - 1; i > 0; i-- {",
  "event := block[i].event",
  "if Allowed(event, r, userIDForSender) == nil {",
  "return event",
  "}",
  "}",
  "return block[0].event"
]

def stateresolution_type_conflictedEvent : List String := [
  "type conflictedEvent struct { depth int64 eventIDSHA1 [sha1.Size]byte event PDU }"
]

def stateresolution_type_conflictedEventSorter : List String := [
  "type conflictedEventSorter []conflictedEvent"
]

def stateresolution_type_stateResolver : List String := [
  "type stateResolver struct { creates []PDU powerLevels []PDU joinRules []PDU thirdPartyInvites [][]PDU members [][]PDU others [][]PDU resolvedCreate PDU resolvedPowerLevels PDU resolvedJoinRules PDU resolvedThirdPartyInvites map[string]PDU resolvedMembers map[spec.SenderID]PDU result []PDU roomID string valid bool }"
]

def stateresolutionv2__HeaderedReverseTopologicalOrdering : List String := [
  "func func(events []PDU, order TopologicalOrder) []PDU",
  "r := stateResolverV2{resolvedCreate: getCreateEvent(events)}",
  "input := make([]PDU, len(events))",
  "for i := range events {",
  "unwrapped := events[i]",
  "input[i] = unwrapped",
  "}",
  "result := make([]PDU, len(input))",
  "for i, e := range r.reverseTopologicalOrdering(input, order) {",
  "result[i] = e",
  "}",
  "return result"
]

def stateresolutionv2__ResolveStateConflictsV2 : List String := [
  "func func(conflicted, unconflicted, authEvents []PDU, userIDForSender spec.UserIDForSender, isRejectedFn IsRejected) []PDU",
  "var createEvent PDU",
  "for _, ev := range authEvents {",
  "if ev.Type() == spec.MRoomCreate && ev.StateKeyEquals(\"\") {",
  "createEvent = ev",
  "break",
  "}",
  "}",
  "if createEvent == nil {",
  "return nil",
  "}",
  "conflictedControlEvents := make([]PDU, 0, len(conflicted))",
  "conflictedOthers := make([]PDU, 0, len(conflicted))",
  "authProvider, _ := NewAuthEvents(nil)",
  "r := stateResolverV2{authEventMap: eventMapFromEvents(authEvents), authProvider: authProvider, conflictedEventMap: eventMapFromEvents(conflicted), powerLevelContents: make(map[string]*PowerLevelContent), powerLevelMainlinePos: make(map[string]int), resolvedThirdPartyInvites: make(map[string]PDU, len(conflicted)), resolvedMembers: make(map[spec.SenderID]PDU, len(conflicted)), resolvedOthers: make(map[StateKeyTuple]PDU, len(conflicted)), result: make([]PDU, 0, len(conflicted)+len(unconflicted)), isRejectedFn: isRejectedFn, isRejectedCache: make(map[string]bool)}",
  "var roomID *spec.RoomID",
  "if len(conflicted) > 0 {",
  "validRoomID := conflicted[0].RoomID()",
  "roomID = &validRoomID",
  "}",
  "if len(unconflicted) > 0 {",
  "validRoomID := unconflicted[0].RoomID()",
  "roomID = &validRoomID",
  "}",
  "if len(authEvents) > 0 {",
  "validRoomID := authEvents[0].RoomID()",
  "roomID = &validRoomID",
  "}",
  "if roomID == nil {",
  "return r.result",
  "}",
  "r.allower = newAllowerContext(r.authProvider, userIDForSender, *roomID)",
  "isUnconflicted := make(map[string]struct{}, len(unconflicted))",
  "for _, u := range unconflicted {",
  "isUnconflicted[u.EventID()] = struct{}{}",
  "}",
  "fullConflictedSet := append(conflicted, r.calculateAuthDifference()...)",
  "visited := make(map[string]struct{}, len(conflicted)+len(authEvents))",
  "var fullControlSet func(event PDU) []PDU",
  "fullControlSet = func(event PDU) []PDU { events := []PDU{event} for _, authEventID := range event.AuthEventIDs() { if _, ok := visited[authEventID]; ok { continue } visited[authEventID] = struct{}{} if event, ok := r.conflictedEventMap[authEventID]; ok { events = append(events, fullControlSet(event)...) } } return events }",
  "conflictedPulledIn := make(map[string]struct{}, len(conflicted)+len(authEvents))",
  "for _, p := range fullConflictedSet {",
  "if _, unconflicted := isUnconflicted[p.EventID()]; unconflicted {",
  "continue",
  "}",
  "if isControlEvent(p) {",
  "relatedEvents := fullControlSet(p)",
  "for _, event := range relatedEvents {",
  "conflictedPulledIn[event.EventID()] = struct{}{}",
  "}",
  "conflictedControlEvents = append(conflictedControlEvents, relatedEvents...)",
  "}",
  "}",
  "for _, p := range fullConflictedSet {",
  "eventID := p.EventID()",
  "if _, unconflicted := isUnconflicted[eventID]; unconflicted || isControlEvent(p) {",
  "continue",
  "}",
  "if _, ok := conflictedPulledIn[eventID]; !ok {",
  "conflictedOthers = append(conflictedOthers, p)",
  "}",
  "}",
  "r.applyEvents(unconflicted...)",
  "conflictedControlEvents = r.reverseTopologicalOrdering(conflictedControlEvents, TopologicalOrderByAuthEvents)",
  "r.authAndApplyEvents(conflictedControlEvents...)",
  "for pos, event := range r.createPowerLevelMainline() {",
  "r.powerLevelMainlinePos[event.EventID()] = pos",
  "}",
  "conflictedOthers = r.mainlineOrdering(conflictedOthers)",
  "r.authAndApplyEvents(conflictedOthers...)",
  "r.applyEvents(unconflicted...)",
  "if r.resolvedCreate != nil {",
  "r.result = append(r.result, r.resolvedCreate)",
  "}",
  "if r.resolvedJoinRules != nil {",
  "r.result = append(r.result, r.resolvedJoinRules)",
  "}",
  "if r.resolvedPowerLevels != nil {",
  "r.result = append(r.result, r.resolvedPowerLevels)",
  "}",
  "for _, member := range r.resolvedMembers {",
  "r.result = append(r.result, member)",
  "}",
  "for _, invite := range r.resolvedThirdPartyInvites {",
  "r.result = append(r.result, invite)",
  "}",
  "for _, other := range r.resolvedOthers {",
  "r.result = append(r.result, other)",
  "}",
  "return r.result"
]

def stateresolutionv2__ResolveStateConflictsV2New : List String := [
  "func func(stateResAlgo StateResAlgorithm, stateSets [][]PDU, authEvents []PDU, userIDForSender spec.UserIDForSender, isRejectedFn IsRejected) []PDU",
  "if len(stateSets) < 2 {",
  "panic(\"must provide at least 2 stateSets to resolve conflicts\")",
  "}",
  "conflicted, unconflicted := splitConflictedUnconflicted(stateResAlgo, stateSets)",
  "conflictedControlEvents := make([]PDU, 0, len(conflicted))",
  "conflictedOthers := make([]PDU, 0, len(conflicted))",
  "authProvider, _ := NewAuthEvents(nil)",
  "r := stateResolverV2{authEventMap: eventMapFromEvents(authEvents), authProvider: authProvider, conflictedEventMap: eventMapFromEvents(conflicted), powerLevelContents: make(map[string]*PowerLevelContent), powerLevelMainlinePos: make(map[string]int), resolvedThirdPartyInvites: make(map[string]PDU, len(conflicted)), resolvedMembers: make(map[spec.SenderID]PDU, len(conflicted)), resolvedOthers: make(map[StateKeyTuple]PDU, len(conflicted)), result: make([]PDU, 0, len(conflicted)+len(unconflicted)), isRejectedFn: isRejectedFn, isRejectedCache: make(map[string]bool)}",
  "var roomID *spec.RoomID",
  "if len(conflicted) > 0 {",
  "validRoomID := conflicted[0].RoomID()",
  "roomID = &validRoomID",
  "}",
  "if len(unconflicted) > 0 {",
  "validRoomID := unconflicted[0].RoomID()",
  "roomID = &validRoomID",
  "}",
  "if len(authEvents) > 0 {",
  "validRoomID := authEvents[0].RoomID()",
  "roomID = &validRoomID",
  "}",
  "if roomID == nil {",
  "return r.result",
  "}",
  "r.allower = newAllowerContext(r.authProvider, userIDForSender, *roomID)",
  "if r.createEvent = getCreateEvent(unconflicted); r.createEvent == nil {",
  "if r.createEvent = getCreateEvent(authEvents); r.createEvent == nil {",
  "r.createEvent = getCreateEvent(conflicted)",
  "}",
  "}",
  "unconflictedSet := newPDUSet(unconflicted)",
  "fullConflictedSet := append(conflicted, r.calculateAuthDifferenceNew(stateResAlgo, newPDUSet(conflicted), stateSets)...)",
  "visited := make(map[string]struct{}, len(conflicted)+len(authEvents))",
  "var fullControlSet func(event PDU) []PDU",
  "fullControlSet = func(event PDU) []PDU { events := []PDU{event} for _, authEventID := range event.AuthEventIDs() { if _, ok := visited[authEventID]; ok { continue } visited[authEventID] = struct{}{} if event, ok := r.conflictedEventMap[authEventID]; ok { events = append(events, fullControlSet(event)...) } } return events }",
  "conflictedPulledIn := make(map[string]struct{}, len(conflicted)+len(authEvents))",
  "for _, p := range fullConflictedSet {",
  "if unconflictedSet.Contains(p) {",
  "continue",
  "}",
  "if isControlEvent(p) {",
  "relatedEvents := fullControlSet(p)",
  "for _, event := range relatedEvents {",
  "conflictedPulledIn[event.EventID()] = struct{}{}",
  "}",
  "conflictedControlEvents = append(conflictedControlEvents, relatedEvents...)",
  "}",
  "}",
  "for _, p := range fullConflictedSet {",
  "if unconflictedSet.Contains(p) || isControlEvent(p) {",
  "continue",
  "}",
  "if _, ok := conflictedPulledIn[p.EventID()]; !ok {",
  "conflictedOthers = append(conflictedOthers, p)",
  "}",
  "}",
  "if stateResAlgo == StateResV2 {",
  "unconflicted = r.reverseTopologicalOrdering(unconflicted, TopologicalOrderByAuthEvents)",
  "r.applyEvents(unconflicted...)",
  "}",
  "conflictedControlEvents = r.reverseTopologicalOrdering(conflictedControlEvents, TopologicalOrderByAuthEvents)",
  "r.authAndApplyEvents(conflictedControlEvents...)",
  "for pos, event := range r.createPowerLevelMainline() {",
  "r.powerLevelMainlinePos[event.EventID()] = pos",
  "}",
  "conflictedOthers = r.mainlineOrdering(conflictedOthers)",
  "r.authAndApplyEvents(conflictedOthers...)",
  "r.applyEvents(unconflicted...)",
  "if r.resolvedCreate != nil {",
  "r.result = append(r.result, r.resolvedCreate)",
  "}",
  "if r.resolvedJoinRules != nil {",
  "r.result = append(r.result, r.resolvedJoinRules)",
  "}",
  "if r.resolvedPowerLevels != nil {",
  "r.result = append(r.result, r.resolvedPowerLevels)",
  "}",
  "for _, member := range r.resolvedMembers {",
  "r.result = append(r.result, member)",
  "}",
  "for _, invite := range r.resolvedThirdPartyInvites {",
  "r.result = append(r.result, invite)",
  "}",
  "for _, other := range r.resolvedOthers {",
  "r.result = append(r.result, other)",
  "}",
  "return r.result"
]

def stateresolutionv2__ReverseTopologicalOrdering : List String := [
  "func func(input []PDU, order TopologicalOrder) []PDU",
  "r := stateResolverV2{resolvedCreate: getCreateEvent(input)}",
  "return r.reverseTopologicalOrdering(input, order)"
]

def stateresolutionv2__creatorsFromCreateEventOrNone : List String := [
  "func func(createEvent PDU) []string",
  "creators := []string{string(createEvent.SenderID())}",
  "var content CreateContent",
  "if err := json.Unmarshal(exactMembersOnly(createEvent.Content(), &content), &content); err != nil {",
  "return creators",
  "}",
  "return append(creators, content.AdditionalCreators...)"
]

def stateresolutionv2__eventMapFromEvents : List String := [
  "func func(events []PDU) map[string]PDU",
  "r := make(map[string]PDU, len(events))",
  "for _, e := range events {",
  "if _, ok := r[e.EventID()]; !ok {",
  "r[e.EventID()] = e",
  "}",
  "}",
  "return r"
]

def stateresolutionv2__getCreateEvent : List String := [
  "func func(input []PDU) PDU",
  "for _, ev := range input {",
  "if ev.Type() == spec.MRoomCreate && ev.StateKeyEquals(\"\") {",
  "return ev",
  "}",
  "}",
  "return nil"
]

def stateresolutionv2__isControlEvent : List String := [
  "func func(e PDU) bool",
  "switch e.Type() {",
  "case spec.MRoomPowerLevels:",
  "return e.StateKeyEquals(\"\")",
  "case spec.MRoomJoinRules:",
  "return e.StateKeyEquals(\"\")",
  "case spec.MRoomMember:",
  "if e.StateKey() == nil || e.StateKeyEquals(\"\") {",
  "break",
  "}",
  "if e.StateKeyEquals(string(e.SenderID())) {",
  "break",
  "}",
  "var content MemberContent",
  "if err := json.Unmarshal(exactMembersOnly(e.Content(), &content), &content); err != nil {",
  "break",
  "}",
  "if content.Membership == spec.Leave || content.Membership == spec.Ban {",
  "return true",
  "}",
  "default:",
  "}",
  "return false"
]

def stateresolutionv2__kahnsAlgorithmUsingAuthEvents : List String := [
  "func func(events []*stateResV2ConflictedPowerLevel) []*stateResV2ConflictedPowerLevel",
  "eventMap := make(map[string]*stateResV2ConflictedPowerLevel, len(events))",
  "graph := make([]*stateResV2ConflictedPowerLevel, 0, len(events))",
  "inDegree := make(map[string]int, len(events))",
  "for _, event := range events {",
  "if _, seen := eventMap[event.eventID]; seen {",
  "continue",
  "}",
  "eventMap[event.eventID] = event",
  "if _, ok := inDegree[event.eventID]; !ok {",
  "inDegree[event.eventID] = 0",
  "}",
  "for _, auth := range event.event.AuthEventIDs() {",
  "inDegree[auth]++",
  "}",
  "}",
  "noIncoming := make(stateResV2ConflictedPowerLevelHeap, 0, len(events))",
  "for eventID, count := range inDegree {",
  "if count == 0 {",
  "noIncoming.Push(eventMap[eventID])",
  "delete(eventMap, eventID)",
  "}",
  "}",
  "slices.SortStableFunc(noIncoming, sortStateResV2ConflictedPowerLevelHeap)",
  "for ; len(noIncoming) > 0;  {",
  "event := noIncoming.Pop()",
  "graph = append(graph, nil)",
  "copy(graph[1:], graph)",
  "graph[0] = event",
  "for _, auth := range event.event.AuthEventIDs() {",
  "inDegree[auth]--",
  "if inDegree[auth] == 0 {",
  "if _, ok := eventMap[auth]; ok {",
  "noIncoming.Push(eventMap[auth])",
  "delete(eventMap, auth)",
  "}",
  "}",
  "}",
  "slices.SortStableFunc(noIncoming, sortStateResV2ConflictedPowerLevelHeap)",
  "}",
  "if len(eventMap) > 0 {",
  "remaining := make(stateResV2ConflictedPowerLevelHeap, 0, len(events))",
  "for _, event := range eventMap {",
  "remaining.Push(event)",
  "}",
  "slices.SortStableFunc(remaining, sortStateResV2ConflictedPowerLevelHeap)",
  "graph = append(remaining, graph...)",
  "}",
  "return graph"
]

def stateresolutionv2__kahnsAlgorithmUsingPrevEvents : List String := [
  "func func(events []*stateResV2ConflictedOther) []*stateResV2ConflictedOther",
  "eventMap := make(map[string]*stateResV2ConflictedOther, len(events))",
  "graph := make([]*stateResV2ConflictedOther, 0, len(events))",
  "inDegree := make(map[string]int, len(events))",
  "for _, event := range events {",
  "if _, seen := eventMap[event.eventID]; seen {",
  "continue",
  "}",
  "eventMap[event.eventID] = event",
  "if _, ok := inDegree[event.eventID]; !ok {",
  "inDegree[event.eventID] = 0",
  "}",
  "for _, prev := range event.event.PrevEventIDs() {",
  "inDegree[prev]++",
  "}",
  "}",
  "noIncoming := make(stateResV2ConflictedOtherHeap, 0, len(events))",
  "for eventID, count := range inDegree {",
  "if count == 0 {",
  "noIncoming.Push(eventMap[eventID])",
  "delete(eventMap, eventID)",
  "}",
  "}",
  "slices.SortStableFunc(noIncoming, sortStateResV2ConflictedOtherHeap)",
  "for ; len(noIncoming) > 0;  {",
  "event := noIncoming.Pop()",
  "graph = append(graph, nil)",
  "copy(graph[1:], graph)",
  "graph[0] = event",
  "for _, prev := range event.event.PrevEventIDs() {",
  "inDegree[prev]--",
  "if inDegree[prev] == 0 {",
  "if _, ok := eventMap[prev]; ok {",
  "noIncoming.Push(eventMap[prev])",
  "delete(eventMap, prev)",
  "}",
  "}",
  "}",
  "slices.SortStableFunc(noIncoming, sortStateResV2ConflictedOtherHeap)",
  "}",
  "if len(eventMap) > 0 {",
  "remaining := make(stateResV2ConflictedOtherHeap, 0, len(events))",
  "for _, event := range eventMap {",
  "remaining = append(remaining, event)",
  "}",
  "slices.SortStableFunc(remaining, sortStateResV2ConflictedOtherHeap)",
  "graph = append(remaining, graph...)",
  "}",
  "return graph"
]

def stateresolutionv2__newPDUSet : List String := [
  "func func(pdus []PDU) *sets.HashSet[PDU, string]",
  "s := sets.NewHashSetFunc[PDU, string](len(pdus), func(p PDU) string { return p.EventID() })",
  "s.InsertSlice(pdus)",
  "return s"
]

def stateresolutionv2_stateResolverV2_applyEvents : List String := [
  "func func(events ...PDU)",
  "for _, event := range events {",
  "if st, sk := event.Type(), event.StateKey(); sk == nil {",
  "continue",
  "} else if *sk == \"\" {",
  "switch st {",
  "case spec.MRoomCreate:",
  "r.resolvedCreate = event",
  "case spec.MRoomPowerLevels:",
  "r.resolvedPowerLevels = event",
  "case spec.MRoomJoinRules:",
  "r.resolvedJoinRules = event",
  "default:",
  "r.resolvedOthers[StateKeyTuple{st, *sk}] = event",
  "}",
  "} else {",
  "switch st {",
  "case spec.MRoomThirdPartyInvite:",
  "r.resolvedThirdPartyInvites[*sk] = event",
  "case spec.MRoomMember:",
  "r.resolvedMembers[spec.SenderID(*sk)] = event",
  "default:",
  "r.resolvedOthers[StateKeyTuple{st, *sk}] = event",
  "}",
  "}",
  "}"
]

def stateresolutionv2_stateResolverV2_authAndApplyEvents : List String := [
  "func func(events ...PDU)",
  "addFromAuthEventsIfNotRejected := func(event PDU, eventType, stateKey string) { for _, authEventID := range event.AuthEventIDs() { rejected, ok := r.isRejectedCache[authEventID] if !ok { rejected = r.isRejectedFn(authEventID) r.isRejectedCache[authEventID] = rejected } if rejected { continue } authEv, ok := r.authEventMap[authEventID] if !ok { continue } if authEv.Type() != eventType || !authEv.StateKeyEquals(stateKey) { continue } _ = r.authProvider.AddEvent(authEv) } }",
  "for _, event := range events {",
  "r.authProvider.Clear()",
  "needed := StateNeededForAuth([]PDU{event})",
  "if resolved := r.resolvedCreate; needed.Create {",
  "if resolved != nil {",
  "_ = r.authProvider.AddEvent(resolved)",
  "} else {",
  "addFromAuthEventsIfNotRejected(event, spec.MRoomCreate, \"\")",
  "}",
  "}",
  "if resolved := r.resolvedJoinRules; needed.JoinRules {",
  "if resolved != nil {",
  "_ = r.authProvider.AddEvent(resolved)",
  "} else {",
  "addFromAuthEventsIfNotRejected(event, spec.MRoomJoinRules, \"\")",
  "}",
  "}",
  "if resolved := r.resolvedPowerLevels; needed.PowerLevels {",
  "if resolved != nil {",
  "_ = r.authProvider.AddEvent(resolved)",
  "} else {",
  "addFromAuthEventsIfNotRejected(event, spec.MRoomPowerLevels, \"\")",
  "}",
  "}",
  "for _, needed := range needed.Member {",
  "if resolved := r.resolvedMembers[spec.SenderID(needed)]; resolved != nil {",
  "_ = r.authProvider.AddEvent(resolved)",
  "} else {",
  "addFromAuthEventsIfNotRejected(event, spec.MRoomMember, needed)",
  "}",
  "}",
  "for _, needed := range needed.ThirdPartyInvite {",
  "if resolved := r.resolvedThirdPartyInvites[needed]; resolved != nil {",
  "_ = r.authProvider.AddEvent(resolved)",
  "} else {",
  "addFromAuthEventsIfNotRejected(event, spec.MRoomThirdPartyInvite, needed)",
  "}",
  "}",
  "r.allower.update(r.authProvider)",
  "if err := r.allower.allowed(event); err != nil {",
  "continue",
  "}",
  "r.applyEvents(event)",
  "}"
]

def stateresolutionv2_stateResolverV2_calculateAuthDifference : List String := [
  "func func() []PDU",
  "authDifference := make([]PDU, 0, len(r.conflictedEventMap)*3)",
  "authSets := make(map[string]map[string]PDU, len(r.conflictedEventMap))",
  "isInAuthList := func(k string, event PDU) bool { events, ok := authSets[k] if !ok { return false } _, ok = events[event.EventID()] return ok }",
  "isInAllAuthLists := func(event PDU) bool { for k, event := range authSets[event.EventID()] { if !isInAuthList(k, event) { return false } } return true }",
  "var iter func(eventID string, event PDU)",
  "iter = func(eventID string, event PDU) { for _, authEventID := range event.AuthEventIDs() { authEvent, ok := r.authEventMap[authEventID] if !ok { continue } if _, ok := authSets[eventID]; !ok { authSets[eventID] = map[string]PDU{} } if _, ok := authSets[eventID][authEventID]; ok { continue } authSets[eventID][authEventID] = authEvent iter(eventID, authEvent) } }",
  "for conflictedEventID, conflictedEvent := range r.conflictedEventMap {",
  "iter(conflictedEventID, conflictedEvent)",
  "}",
  "for _, event := range r.authEventMap {",
  "if !isInAllAuthLists(event) {",
  "authDifference = append(authDifference, event)",
  "}",
  "}",
  "return authDifference"
]

def stateresolutionv2_stateResolverV2_calculateAuthDifferenceNew : List String := [
  "func func(stateResAlgo StateResAlgorithm, conflictedEvents *sets.HashSet[PDU, string], stateSets [][]PDU) []PDU",
  "fullAuthChains := make([]*sets.HashSet[PDU, string], len(stateSets))",
  "completeConflictedSubgraph := newPDUSet(nil)",
  "for i, stateEvents := range stateSets {",
  "fullAuthChain, conflictedSubgraph := r.calculateFullAuthChainAndConflictedSubgraph(stateResAlgo, stateEvents, conflictedEvents)",
  "fullAuthChains[i] = fullAuthChain",
  "if stateResAlgo == StateResV2_1 {",
  "completeConflictedSubgraph.InsertSet(conflictedSubgraph)",
  "}",
  "}",
  "union := newPDUSet(nil)",
  "for _, fac := range fullAuthChains {",
  "union.InsertSet(fac)",
  "}",
  "var intersection sets.Collection[PDU] = fullAuthChains[0]",
  "for _, fac := range fullAuthChains[1:] {",
  "intersection = intersection.Intersect(fac)",
  "}",
  "authDifference := union.Difference(intersection)",
  "if stateResAlgo == StateResV2 {",
  "return authDifference.Slice()",
  "}",
  "return authDifference.Union(completeConflictedSubgraph).Slice()"
]

def stateresolutionv2_stateResolverV2_calculateFullAuthChainAndConflictedSubgraph : List String := [
  "func func(stateResAlgo StateResAlgorithm, stateSet []PDU, conflictedEvents *sets.HashSet[PDU, string]) (fullAuthChains, conflictedSubgraph *sets.HashSet[PDU, string])",
  "fullAuthChains = newPDUSet(nil)",
  "conflictedSubgraph = newPDUSet(nil)",
  "type pduVisitors struct { pdu PDU visiting [ // the current exploration path ]PDU originConflicted bool }// flag to indicate that the starting node is conflicted. // We are only interested in doing the book-keeping for 'visiting' for conflicted events.",
  "initial := make([]pduVisitors, len(stateSet))",
  "for i, p := range stateSet {",
  "initial[i] = pduVisitors{pdu: p, visiting: nil, originConflicted: conflictedEvents.Contains(p)}",
  "}",
  "stack := lane.NewStack(initial...)",
  "for ; stack.Size() > 0;  {",
  "curr, ok := stack.Pop()",
  "if !ok {",
  "break",
  "}",
  "shouldCalculateConflictedSubgraph := stateResAlgo == StateResV2_1 && curr.originConflicted",
  "if shouldCalculateConflictedSubgraph && conflictedEvents.Contains(curr.pdu) {",
  "for _, pathEvent := range curr.visiting {",
  "conflictedSubgraph.Insert(pathEvent)",
  "}",
  "conflictedSubgraph.Insert(curr.pdu)",
  "}",
  "for _, authEventID := range curr.pdu.AuthEventIDs() {",
  "authEvent, ok := r.authEventMap[authEventID]",
  "if !ok {",
  "continue",
  "}",
  "if fullAuthChains.Contains(authEvent) {",
  "if !shouldCalculateConflictedSubgraph {",
  "continue",
  "}",
  "}",
  "fullAuthChains.Insert(authEvent)",
  "if !shouldCalculateConflictedSubgraph {",
  "stack.Push(pduVisitors{pdu: authEvent, visiting: nil})",
  "continue",
  "}",
  "newVisiting := append(slices.Clone(curr.visiting), curr.pdu)",
  "stack.Push(pduVisitors{pdu: authEvent, visiting: newVisiting, originConflicted: curr.originConflicted})",
  "}",
  "}",
  "return fullAuthChains, conflictedSubgraph"
]

def stateresolutionv2_stateResolverV2_createPowerLevelMainline : List String := [
  "func func() []PDU",
  "var mainline []PDU",
  "visiting := make(map[string]struct{})",
  "var iter func(event PDU)",
  "iter = func(event PDU) { mainline = append(mainline, nil) copy(mainline[1:], mainline) mainline[0] = event for _, authEventID := range event.AuthEventIDs() { if authEvent, ok := r.authEventMap[authEventID]; ok { if authEvent.Type() == spec.MRoomPowerLevels && authEvent.StateKeyEquals(\"\") { if _, cyclic := visiting[authEventID]; cyclic { continue } visiting[authEventID] = struct{}{} iter(authEvent) delete(visiting, authEventID) } } } }",
  "if r.resolvedPowerLevels != nil {",
  "iter(r.resolvedPowerLevels)",
  "}",
  "return mainline"
]

def stateresolutionv2_stateResolverV2_getFirstPowerLevelMainlineEvent : List String := [
  "func func(event PDU) (mainlineEvent PDU, mainlinePosition int, steps int)",
  "isInMainline := func(searchEvent PDU) (int, bool) { pos, ok := r.powerLevelMainlinePos[searchEvent.EventID()] return pos, ok }",
  "visiting := make(map[string]struct{})",
  "var iter func(event PDU)",
  "iter = func(event PDU) { for _, authEventID := range event.AuthEventIDs() { authEvent, ok := r.authEventMap[authEventID] if !ok { continue } if authEvent.Type() != spec.MRoomPowerLevels || !authEvent.StateKeyEquals(\"\") { continue } if pos, isIn := isInMainline(authEvent); isIn { mainlineEvent = authEvent mainlinePosition = pos r.powerLevelMainlinePos[mainlineEvent.EventID()] = mainlinePosition return } if _, cyclic := visiting[authEventID]; cyclic { continue } steps++ visiting[authEventID] = struct{}{} iter(authEvent) delete(visiting, authEventID) } }",
  "iter(event)",
  "return"
]

def stateresolutionv2_stateResolverV2_getPowerLevelFromAuthEvents : List String := [
  "func func(event PDU) int64",
  "user := event.SenderID()",
  "verImpl := MustGetRoomVersion(event.Version())",
  "if verImpl.PrivilegedCreators() {",
  "createEvent := r.resolvedCreate",
  "if createEvent == nil {",
  "createEvent = r.createEvent",
  "}",
  "if createEvent != nil {",
  "for _, creator := range creatorsFromCreateEventOrNone(createEvent) {",
  "if creator == string(user) {",
  "return CreatorPowerLevel",
  "}",
  "}",
  "}",
  "}",
  "for _, authID := range event.AuthEventIDs() {",
  "authEvent, ok := r.authEventMap[authID]",
  "if !ok {",
  "continue",
  "}",
  "if authEvent.Type() != spec.MRoomPowerLevels || !authEvent.StateKeyEquals(\"\") {",
  "continue",
  "}",
  "content, ok := r.powerLevelContents[authID]",
  "if !ok {",
  "parsed, err := NewPowerLevelContentFromEvent(authEvent)",
  "if err != nil {",
  "return 0",
  "}",
  "content = &parsed",
  "r.powerLevelContents[authID] = content",
  "}",
  "return content.UserLevel(user)",
  "}",
  "return 0"
]

def stateresolutionv2_stateResolverV2_mainlineOrdering : List String := [
  "func func(events []PDU) []PDU",
  "block := r.wrapOtherEventsForSort(events)",
  "result := make([]PDU, 0, len(block))",
  "slices.SortStableFunc(block, sortStateResV2ConflictedOtherHeap)",
  "for _, s := range block {",
  "result = append(result, s.event)",
  "}",
  "return result"
]

def stateresolutionv2_stateResolverV2_reverseTopologicalOrdering : List String := [
  "func func(events []PDU, order TopologicalOrder) []PDU",
  "result := make([]PDU, 0, len(events))",
  "switch order {",
  "case TopologicalOrderByAuthEvents:",
  "block := r.wrapPowerLevelEventsForSort(events)",
  "for _, s := range kahnsAlgorithmUsingAuthEvents(block) {",
  "result = append(result, s.event)",
  "}",
  "case TopologicalOrderByPrevEvents:",
  "block := r.wrapOtherEventsForSort(events)",
  "for _, s := range kahnsAlgorithmUsingPrevEvents(block) {",
  "result = append(result, s.event)",
  "}",
  "default:",
  "panic(fmt.Sprintf(\"gomatrixserverlib.reverseTopologicalOrdering unknown Ordering %d\", order))",
  "}",
  "return result"
]

def stateresolutionv2_stateResolverV2_wrapOtherEventsForSort : List String := [
  "func func(events []PDU) []*stateResV2ConflictedOther",
  "block := make([]*stateResV2ConflictedOther, len(events))",
  "for i, event := range events {",
  "_, pos, steps := r.getFirstPowerLevelMainlineEvent(event)",
  "block[i] = &stateResV2ConflictedOther{mainlinePosition: pos, mainlineSteps: steps, originServerTS: event.OriginServerTS(), eventID: event.EventID(), event: event}",
  "}",
  "return block"
]

def stateresolutionv2_stateResolverV2_wrapPowerLevelEventsForSort : List String := [
  "func func(events []PDU) []*stateResV2ConflictedPowerLevel",
  "block := make([]*stateResV2ConflictedPowerLevel, len(events))",
  "for i, event := range events {",
  "block[i] = &stateResV2ConflictedPowerLevel{powerLevel: r.getPowerLevelFromAuthEvents(event), originServerTS: event.OriginServerTS(), eventID: event.EventID(), event: event}",
  "}",
  "return block"
]

def stateresolutionv2_type_IsRejected : List String := [
  "type IsRejected func(eventID string) bool"
]

def stateresolutionv2_type_TopologicalOrder : List String := [
  "type TopologicalOrder int"
]

def stateresolutionv2_type_stateResolverV2 : List String := [
  "type stateResolverV2 struct { allower *allowerContext authProvider *AuthEvents authEventMap map[string]PDU conflictedEventMap map[string]PDU powerLevelContents map[string]*PowerLevelContent powerLevelMainlinePos map[string]int resolvedCreate PDU createEvent PDU resolvedPowerLevels PDU resolvedJoinRules PDU resolvedThirdPartyInvites map[string]PDU resolvedMembers map[spec.SenderID]PDU resolvedOthers map[StateKeyTuple]PDU result []PDU isRejectedFn IsRejected isRejectedCache map[string]bool }"
]

def stateresolutionv2heaps_stateResV2ConflictedOtherHeap_Pop : List String := [
  "func func() *stateResV2ConflictedOther",
  "old := *s",
  "n := len(old)",
  "x := old[n-1]",
  "*s = old[:n-1]",
  "return x"
]

def stateresolutionv2heaps_stateResV2ConflictedOtherHeap_Push : List String := [
  "func func(x *stateResV2ConflictedOther)",
  "*s = append(*s, x)"
]

def stateresolutionv2heaps_stateResV2ConflictedPowerLevelHeap_Pop : List String := [
  "func func() *stateResV2ConflictedPowerLevel",
  "old := *s",
  "n := len(old)",
  "x := old[n-1]",
  "*s = old[:n-1]",
  "return x"
]

def stateresolutionv2heaps_stateResV2ConflictedPowerLevelHeap_Push : List String := [
  "func func(x *stateResV2ConflictedPowerLevel)",
  "*s = append(*s, x)"
]

def stateresolutionv2heaps_type_stateResV2ConflictedOther : List String := [
  "type stateResV2ConflictedOther struct { mainlinePosition int mainlineSteps int originServerTS spec.Timestamp eventID string event PDU }"
]

def stateresolutionv2heaps_type_stateResV2ConflictedOtherHeap : List String := [
  "type stateResV2ConflictedOtherHeap []*stateResV2ConflictedOther"
]

def stateresolutionv2heaps_type_stateResV2ConflictedPowerLevel : List String := [
  "type stateResV2ConflictedPowerLevel struct { powerLevel int64 originServerTS spec.Timestamp eventID string event PDU }"
]

def stateresolutionv2heaps_type_stateResV2ConflictedPowerLevelHeap : List String := [
  "type stateResV2ConflictedPowerLevelHeap []*stateResV2ConflictedPowerLevel"
]

def functions : List String := ["authstate.go:FederatedStateProvider.StateBeforeEvent", "authstate.go:FederatedStateProvider.StateIDsBeforeEvent", "authstate.go:.CheckSendJoinResponse", "authstate.go:.CheckStateResponse", "authstate.go:.LineariseStateResponse", "authstate.go:.VerifyAuthRulesAtState", "authstate.go:.checkAllowedByAuthEvents", "authstate.go:stateResponseImpl.GetAuthEvents", "authstate.go:stateResponseImpl.GetStateEvents", "authstate.go:type FederatedStateClient", "authstate.go:type FederatedStateProvider", "authstate.go:type StateIDResponse", "authstate.go:type StateProvider", "authstate.go:type StateResponse", "authstate.go:type stateResponseImpl", "backfill.go:.RequestBackfill", "backfill.go:type BackfillClient", "backfill.go:type BackfillRequester", "load.go:AuthChainErr.Error", "load.go:AuthChainErr.Is", "load.go:AuthRulesErr.Error", "load.go:AuthRulesErr.Is", "load.go:EventsLoader.LoadAndVerify", "load.go:SignatureErr.Error", "load.go:SignatureErr.Is", "load.go:.NewEventsLoader", "load.go:type AuthChainErr", "load.go:type AuthRulesErr", "load.go:type EventLoadResult", "load.go:type EventsLoader", "load.go:type SignatureErr", "stateresolution.go:.ResolveConflicts", "stateresolution.go:.ResolveConflictsNew", "stateresolution.go:.ResolveStateConflicts", "stateresolution.go:.sortConflictedEventsByDepthAndSHA1", "stateresolution.go:.splitConflictedUnconflicted", "stateresolution.go:conflictedEventSorter.Len", "stateresolution.go:conflictedEventSorter.Swap", "stateresolution.go:stateResolver.Create", "stateresolution.go:stateResolver.JoinRules", "stateresolution.go:stateResolver.Member", "stateresolution.go:stateResolver.PowerLevels", "stateresolution.go:stateResolver.ThirdPartyInvite", "stateresolution.go:stateResolver.Valid", "stateresolution.go:stateResolver.addAuthEvent", "stateresolution.go:stateResolver.addConflicted", "stateresolution.go:stateResolver.authEventAt", "stateresolution.go:stateResolver.removeAuthEvent", "stateresolution.go:stateResolver.resolveAndAddAuthBlocks", "stateresolution.go:stateResolver.resolveAuthBlock", "stateresolution.go:stateResolver.resolveNormalBlock", "stateresolution.go:type conflictedEvent", "stateresolution.go:type conflictedEventSorter", "stateresolution.go:type stateResolver", "stateresolutionv2.go:.HeaderedReverseTopologicalOrdering", "stateresolutionv2.go:.ResolveStateConflictsV2", "stateresolutionv2.go:.ResolveStateConflictsV2New", "stateresolutionv2.go:.ReverseTopologicalOrdering", "stateresolutionv2.go:.creatorsFromCreateEventOrNone", "stateresolutionv2.go:.eventMapFromEvents", "stateresolutionv2.go:.getCreateEvent", "stateresolutionv2.go:.isControlEvent", "stateresolutionv2.go:.kahnsAlgorithmUsingAuthEvents", "stateresolutionv2.go:.kahnsAlgorithmUsingPrevEvents", "stateresolutionv2.go:.newPDUSet", "stateresolutionv2.go:stateResolverV2.applyEvents", "stateresolutionv2.go:stateResolverV2.authAndApplyEvents", "stateresolutionv2.go:stateResolverV2.calculateAuthDifference", "stateresolutionv2.go:stateResolverV2.calculateAuthDifferenceNew", "stateresolutionv2.go:stateResolverV2.calculateFullAuthChainAndConflictedSubgraph", "stateresolutionv2.go:stateResolverV2.createPowerLevelMainline", "stateresolutionv2.go:stateResolverV2.getFirstPowerLevelMainlineEvent", "stateresolutionv2.go:stateResolverV2.getPowerLevelFromAuthEvents", "stateresolutionv2.go:stateResolverV2.mainlineOrdering", "stateresolutionv2.go:stateResolverV2.reverseTopologicalOrdering", "stateresolutionv2.go:stateResolverV2.wrapOtherEventsForSort", "stateresolutionv2.go:stateResolverV2.wrapPowerLevelEventsForSort", "stateresolutionv2.go:type IsRejected", "stateresolutionv2.go:type TopologicalOrder", "stateresolutionv2.go:type stateResolverV2", "stateresolutionv2heaps.go:stateResV2ConflictedOtherHeap.Pop", "stateresolutionv2heaps.go:stateResV2ConflictedOtherHeap.Push", "stateresolutionv2heaps.go:stateResV2ConflictedPowerLevelHeap.Pop", "stateresolutionv2heaps.go:stateResV2ConflictedPowerLevelHeap.Push", "stateresolutionv2heaps.go:type stateResV2ConflictedOther", "stateresolutionv2heaps.go:type stateResV2ConflictedOtherHeap", "stateresolutionv2heaps.go:type stateResV2ConflictedPowerLevel", "stateresolutionv2heaps.go:type stateResV2ConflictedPowerLevelHeap"]

end VPins.C11
