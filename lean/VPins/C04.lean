/- PINNED copy of the statement skeletons of the Go functions the C04 model mirrors (written by tools/pin.sh
   when the model was last validated against the code). Compared with the regenerated VGen.SkelC04 in VProps/PinC04.lean. -/
namespace VPins.C04

def eventV1__newEventFromTrustedJSONV1 : List String := [
  "func func(eventJSON []byte, redacted bool, roomVersion IRoomVersion) (PDU, error)",
  "res := &eventV1{}",
  "if err := json.Unmarshal(eventJSON, res); err != nil {",
  "return nil, err",
  "}",
  "if err := checkRoomIDField(res.eventFields.RoomID); err != nil {",
  "return nil, fmt.Errorf(\"RoomID is invalid: %w\", err)",
  "}",
  "res.eventJSON = eventJSON",
  "res.roomVersion = roomVersion.Version()",
  "res.redacted = redacted",
  "return res, nil"
]

def eventV1__newEventFromTrustedJSONWithEventIDV1 : List String := [
  "func func(eventID string, eventJSON []byte, redacted bool, roomVersion IRoomVersion) (PDU, error)",
  "res := &eventV1{}",
  "if err := json.Unmarshal(eventJSON, res); err != nil {",
  "return nil, err",
  "}",
  "if err := checkRoomIDField(res.eventFields.RoomID); err != nil {",
  "return nil, err",
  "}",
  "res.EventIDRaw = eventID",
  "res.eventJSON = eventJSON",
  "res.roomVersion = roomVersion.Version()",
  "res.redacted = redacted",
  "return res, nil"
]

def eventV1__newEventFromUntrustedJSONV1 : List String := [
  "func func(eventJSON []byte, roomVersion IRoomVersion) (PDU, error)",
  "if r := gjson.GetBytes(eventJSON, \"_*\"); r.Exists() {",
  "return nil, fmt.Errorf(\"gomatrixserverlib NewEventFromUntrustedJSON: found top-level '_' key, is this a headered event: %v\", string(eventJSON))",
  "}",
  "if err := roomVersion.CheckCanonicalJSON(eventJSON); err != nil {",
  "return nil, BadJSONError{err}",
  "}",
  "if err := checkUntrustedEventJSON(eventJSON); err != nil {",
  "return nil, err",
  "}",
  "res := &eventV1{}",
  "res.roomVersion = roomVersion.Version()",
  "var err error",
  "for _, key := range []string{\"outlier\", \"destinations\", \"age_ts\", \"unsigned\"} {",
  "if eventJSON, err = sjson.DeleteBytes(eventJSON, key); err != nil {",
  "return nil, err",
  "}",
  "}",
  "if err := json.Unmarshal(eventJSON, res); err != nil {",
  "return nil, err",
  "}",
  "if err := checkRoomIDField(res.eventFields.RoomID); err != nil {",
  "return nil, err",
  "}",
  "eventJSON = CanonicalJSONAssumeValid(eventJSON)",
  "if l := len(eventJSON); l > maxEventLength {",
  "return nil, EventValidationError{Code: EventValidationTooLarge, Message: fmt.Sprintf(\"gomatrixserverlib: event is too long, length %d bytes > maximum %d bytes\", l, maxEventLength)}",
  "}",
  "res.eventJSON = eventJSON",
  "if err = checkEventContentHash(eventJSON); err != nil {",
  "res.redacted = true",
  "var redactedJSON []byte",
  "if redactedJSON, err = roomVersion.RedactEventJSON(eventJSON); err != nil {",
  "return nil, err",
  "}",
  "redactedJSON = CanonicalJSONAssumeValid(redactedJSON)",
  "if !bytes.Equal(redactedJSON, eventJSON) {",
  "result, err := roomVersion.NewEventFromTrustedJSON(redactedJSON, true)",
  "if err != nil {",
  "return nil, err",
  "}",
  "err = CheckFields(result)",
  "return result, err",
  "}",
  "} else if _, err = roomVersion.RedactEventJSON(eventJSON); err != nil {",
  "return nil, err",
  "}",
  "err = CheckFields(res)",
  "return res, err"
]

def eventV1__signableEventJSON : List String := [
  "func func(eventJSON []byte) []byte",
  "signatures := gjson.GetBytes(eventJSON, \"signatures\")",
  "if !signatures.Exists() {",
  "return eventJSON",
  "}",
  "var decoded map[string]map[KeyID]spec.Base64Bytes",
  "if json.Unmarshal([]byte(signatures.Raw), &decoded) == nil {",
  "return eventJSON",
  "}",
  "if withoutSignatures, err := sjson.DeleteBytes(eventJSON, \"signatures\"); err == nil {",
  "return withoutSignatures",
  "}",
  "return eventJSON"
]

def eventV1_eventV1_AuthEventIDs : List String := [
  "func func() []string",
  "result := make([]string, 0, len(e.AuthEvents))",
  "for _, id := range e.AuthEvents {",
  "result = append(result, id.EventID)",
  "}",
  "return result"
]

def eventV1_eventV1_Content : List String := [
  "func func() []byte",
  "return e.eventFields.Content"
]

def eventV1_eventV1_Depth : List String := [
  "func func() int64",
  "return e.eventFields.Depth"
]

def eventV1_eventV1_EventID : List String := [
  "func func() string",
  "return e.EventIDRaw"
]

def eventV1_eventV1_HistoryVisibility : List String := [
  "func func() (HistoryVisibility, error)",
  "if !e.StateKeyEquals(\"\") {",
  "return \"\", fmt.Errorf(\"gomatrixserverlib: HistoryVisibility() event is not a m.room.history_visibility event, bad state key\")",
  "}",
  "var content HistoryVisibilityContent",
  "if err := json.Unmarshal(exactMembersOnly(e.eventFields.Content, &content), &content); err != nil {",
  "return \"\", err",
  "}",
  "return content.HistoryVisibility, nil"
]

def eventV1_eventV1_IsSticky : List String := [
  "func func(now time.Time, received time.Time) bool",
  "endTime := e.StickyEndTime(received)",
  "if endTime.IsZero() {",
  "return false",
  "}",
  "return endTime.After(now)"
]

def eventV1_eventV1_JSON : List String := [
  "func func() []byte",
  "return e.eventJSON"
]

def eventV1_eventV1_JoinRule : List String := [
  "func func() (string, error)",
  "if !e.StateKeyEquals(\"\") {",
  "return \"\", fmt.Errorf(\"gomatrixserverlib: JoinRule() event is not a m.room.join_rules event, bad state key\")",
  "}",
  "var content JoinRuleContent",
  "if err := json.Unmarshal(exactMembersOnly(e.eventFields.Content, &content), &content); err != nil {",
  "return \"\", err",
  "}",
  "return content.JoinRule, nil"
]

def eventV1_eventV1_MarshalJSON : List String := [
  "func func() ([]byte, error)",
  "if e.eventJSON == nil {",
  "return nil, fmt.Errorf(\"gomatrixserverlib: cannot serialise uninitialised Event\")",
  "}",
  "return e.eventJSON, nil"
]

def eventV1_eventV1_Membership : List String := [
  "func func() (string, error)",
  "var content struct { Membership string `json:\"membership\"` }",
  "if err := json.Unmarshal(exactMembersOnly(e.eventFields.Content, &content), &content); err != nil {",
  "return \"\", err",
  "}",
  "if e.StateKey() == nil {",
  "return \"\", fmt.Errorf(\"gomatrixserverlib: Membersip() event is not a m.room.member event, missing state key\")",
  "}",
  "return content.Membership, nil"
]

def eventV1_eventV1_OriginServerTS : List String := [
  "func func() spec.Timestamp",
  "return e.eventFields.OriginServerTS"
]

def eventV1_eventV1_PowerLevels : List String := [
  "func func() (*PowerLevelContent, error)",
  "if !e.StateKeyEquals(\"\") {",
  "return nil, fmt.Errorf(\"gomatrixserverlib: PowerLevels() event is not a m.room.power_levels event, bad state key\")",
  "}",
  "c, err := NewPowerLevelContentFromEvent(e)",
  "if err != nil {",
  "return nil, err",
  "}",
  "return &c, nil"
]

def eventV1_eventV1_PrevEventIDs : List String := [
  "func func() []string",
  "result := make([]string, 0, len(e.PrevEvents))",
  "for _, id := range e.PrevEvents {",
  "result = append(result, id.EventID)",
  "}",
  "return result"
]

def eventV1_eventV1_Redact : List String := [
  "func func()",
  "if e.redacted {",
  "return",
  "}",
  "verImpl, err := GetRoomVersion(e.roomVersion)",
  "if err != nil {",
  "panic(fmt.Errorf(\"gomatrixserverlib: invalid event %v\", err))",
  "}",
  "eventJSON, err := verImpl.RedactEventJSON(e.eventJSON)",
  "if err != nil {",
  "panic(fmt.Errorf(\"gomatrixserverlib: invalid event %v\", err))",
  "}",
  "if eventJSON, err = EnforcedCanonicalJSON(eventJSON, e.roomVersion); err != nil {",
  "panic(fmt.Errorf(\"gomatrixserverlib: invalid event %v\", err))",
  "}",
  "var res eventV1",
  "err = json.Unmarshal(eventJSON, &res)",
  "if err != nil {",
  "panic(fmt.Errorf(\"gomatrixserverlib: populateFieldsFromJSON failed %v\", err))",
  "}",
  "res.redacted = true",
  "res.roomVersion = e.roomVersion",
  "res.eventJSON = eventJSON",
  "*e = res"
]

def eventV1_eventV1_Redacted : List String := [
  "func func() bool",
  "return e.redacted"
]

def eventV1_eventV1_Redacts : List String := [
  "func func() string",
  "return e.eventFields.Redacts"
]

def eventV1_eventV1_RoomID : List String := [
  "func func() spec.RoomID",
  "roomID, err := spec.NewRoomID(e.eventFields.RoomID)",
  "if err != nil {",
  "panic(fmt.Errorf(\"RoomID is invalid: %w\", err))",
  "}",
  "return *roomID"
]

def eventV1_eventV1_SenderID : List String := [
  "func func() spec.SenderID",
  "return spec.SenderID(e.eventFields.SenderID)"
]

def eventV1_eventV1_SetUnsigned : List String := [
  "func func(unsigned interface{}) (PDU, error)",
  "var eventAsMap map[string]spec.RawJSON",
  "var err error",
  "if err = json.Unmarshal(e.eventJSON, &eventAsMap); err != nil {",
  "return nil, err",
  "}",
  "unsignedJSON, err := json.Marshal(unsigned)",
  "if err != nil {",
  "return nil, err",
  "}",
  "eventAsMap[\"unsigned\"] = unsignedJSON",
  "eventJSON, err := json.Marshal(eventAsMap)",
  "if err != nil {",
  "return nil, err",
  "}",
  "if eventJSON, err = EnforcedCanonicalJSON(eventJSON, e.roomVersion); err != nil {",
  "return nil, err",
  "}",
  "result := *e",
  "result.eventJSON = eventJSON",
  "result.eventFields.Unsigned = unsignedJSON",
  "return &result, nil"
]

def eventV1_eventV1_SetUnsignedField : List String := [
  "func func(path string, value interface{}) error",
  "path = \"unsigned.\" + path",
  "eventJSON, err := sjson.SetBytes(e.eventJSON, path, value)",
  "if err != nil {",
  "return err",
  "}",
  "eventJSON = CanonicalJSONAssumeValid(eventJSON)",
  "res := gjson.GetBytes(eventJSON, \"unsigned\")",
  "e.eventFields.Unsigned = []byte(res.Raw)",
  "e.eventJSON = eventJSON",
  "return nil"
]

def eventV1_eventV1_Sign : List String := [
  "func func(signingName string, keyID KeyID, privateKey ed25519.PrivateKey) PDU",
  "eventJSON, err := signEvent(signingName, keyID, privateKey, signableEventJSON(e.eventJSON), e.roomVersion)",
  "if err != nil {",
  "panic(fmt.Errorf(\"gomatrixserverlib: invalid event %v (%q)\", err, string(e.eventJSON)))",
  "}",
  "if eventJSON, err = EnforcedCanonicalJSON(eventJSON, e.roomVersion); err != nil {",
  "panic(fmt.Errorf(\"gomatrixserverlib: invalid event %v (%q)\", err, string(e.eventJSON)))",
  "}",
  "result := *e",
  "result.eventJSON = eventJSON",
  "return &result"
]

def eventV1_eventV1_StateKey : List String := [
  "func func() *string",
  "return e.eventFields.StateKey"
]

def eventV1_eventV1_StateKeyEquals : List String := [
  "func func(s string) bool",
  "if e.eventFields.StateKey == nil {",
  "return false",
  "}",
  "return *e.eventFields.StateKey == s"
]

def eventV1_eventV1_StickyEndTime : List String := [
  "func func(received time.Time) time.Time",
  "return e.calculatedStickyEndTime(e.assumedStickyStartTime(received))"
]

def eventV1_eventV1_ToHeaderedJSON : List String := [
  "func func() ([]byte, error)",
  "var err error",
  "eventJSON := e.JSON()",
  "eventJSON, err = sjson.SetBytes(eventJSON, \"_room_version\", e.Version())",
  "if err != nil {",
  "return []byte{}, err",
  "}",
  "eventJSON, err = sjson.SetBytes(eventJSON, \"_event_id\", e.EventID())",
  "if err != nil {",
  "return []byte{}, err",
  "}",
  "return eventJSON, nil"
]

def eventV1_eventV1_Type : List String := [
  "func func() string",
  "return e.eventFields.Type"
]

def eventV1_eventV1_Unsigned : List String := [
  "func func() []byte",
  "return e.eventFields.Unsigned"
]

def eventV1_eventV1_Version : List String := [
  "func func() RoomVersion",
  "return e.roomVersion"
]

def eventV1_eventV1_assumedStickyStartTime : List String := [
  "func func(received time.Time) time.Time",
  "if e.OriginServerTS().Time().Before(received) {",
  "return e.OriginServerTS().Time()",
  "}",
  "return received"
]

def eventV1_eventV1_calculatedStickyEndTime : List String := [
  "func func(startTime time.Time) time.Time",
  "durationMillis := e.StableSticky.DurationMillis",
  "if durationMillis == 0 {",
  "durationMillis = e.UnstableSticky.DurationMillis",
  "}",
  "if durationMillis == 0 {",
  "return time.Time{}",
  "}",
  "if durationMillis > 3600000 {",
  "durationMillis = 3600000",
  "}",
  "return startTime.Add(time.Duration(durationMillis) * time.Millisecond)"
]

def eventV1_type_eventV1 : List String := [
  "type eventV1 struct { redacted bool eventJSON []byte roomVersion RoomVersion eventFields EventIDRaw string `json:\"event_id,omitempty\"` PrevEvents []eventReference `json:\"prev_events\"` AuthEvents []eventReference `json:\"auth_events\"` UnstableSticky stickyEventData `json:\"msc4354_sticky,omitempty\"` StableSticky stickyEventData `json:\"sticky,omitempty\"` }"
]

def eventV1_type_stickyEventData : List String := [
  "type stickyEventData struct { DurationMillis int64 `json:\"duration_ms\"` }"
]

def eventV2__CheckFields : List String := [
  "func func(input PDU) error",
  "if input.AuthEventIDs() == nil || input.PrevEventIDs() == nil {",
  "return errors.New(\"gomatrixserverlib: auth events and prev events must not be nil\")",
  "}",
  "if l := len(input.JSON()); l > maxEventLength {",
  "return EventValidationError{Code: EventValidationTooLarge, Message: fmt.Sprintf(\"gomatrixserverlib: event is too long, length %d bytes > maximum %d bytes\", l, maxEventLength)}",
  "}",
  "if l := utf8.RuneCountInString(input.Type()); l > maxIDLength {",
  "return EventValidationError{Code: EventValidationTooLarge, Message: fmt.Sprintf(\"gomatrixserverlib: event type is too long, length %d bytes > maximum %d bytes\", l, maxIDLength)}",
  "}",
  "if input.StateKey() != nil {",
  "if l := utf8.RuneCountInString(*input.StateKey()); l > maxIDLength {",
  "return EventValidationError{Code: EventValidationTooLarge, Message: fmt.Sprintf(\"gomatrixserverlib: state key is too long, length %d bytes > maximum %d bytes\", l, maxIDLength)}",
  "}",
  "}",
  "if l := utf8.RuneCountInString(string(input.SenderID())); l > maxIDLength {",
  "return EventValidationError{Code: EventValidationTooLarge, Message: fmt.Sprintf(\"gomatrixserverlib: sender is too long, length %d > maximum %d\", l, maxIDLength)}",
  "}",
  "switch input.Version() {",
  "case RoomVersionPseudoIDs:",
  "default:",
  "if _, err := domainFromID(string(input.SenderID())); err != nil {",
  "return err",
  "}",
  "if id := string(input.SenderID()); id[0] != '@' {",
  "return checkID(id, \"user\", '@')",
  "}",
  "}",
  "_, persistable := lenientByteLimitRoomVersions[input.Version()]",
  "if l := len(input.Type()); l > maxIDLength {",
  "return EventValidationError{Code: EventValidationTooLarge, Message: fmt.Sprintf(\"gomatrixserverlib: event type is too long, length %d bytes > maximum %d bytes\", l, maxIDLength), Persistable: persistable}",
  "}",
  "if input.StateKey() != nil {",
  "if l := len(*input.StateKey()); l > maxIDLength {",
  "return EventValidationError{Code: EventValidationTooLarge, Message: fmt.Sprintf(\"gomatrixserverlib: state key is too long, length %d bytes > maximum %d bytes\", l, maxIDLength), Persistable: persistable}",
  "}",
  "}",
  "if l := len(input.SenderID()); l > maxIDLength {",
  "return EventValidationError{Code: EventValidationTooLarge, Message: fmt.Sprintf(\"gomatrixserverlib: user ID is too long, length %d bytes > maximum %d bytes\", l, maxIDLength), Persistable: true}",
  "}",
  "return nil"
]

def eventV2__newEventFromTrustedJSONV2 : List String := [
  "func func(eventJSON []byte, redacted bool, roomVersion IRoomVersion) (PDU, error)",
  "res := eventV2{}",
  "if err := json.Unmarshal(eventJSON, &res); err != nil {",
  "return nil, err",
  "}",
  "if err := checkRoomIDField(res.eventFields.RoomID); err != nil {",
  "return nil, err",
  "}",
  "res.roomVersion = roomVersion.Version()",
  "res.redacted = redacted",
  "res.eventJSON = eventJSON",
  "res.EventIDRaw = \"\"",
  "if err := res.populateEventID(roomVersion); err != nil {",
  "return nil, err",
  "}",
  "return &res, nil"
]

def eventV2__newEventFromTrustedJSONWithEventIDV2 : List String := [
  "func func(eventID string, eventJSON []byte, redacted bool, roomVersion IRoomVersion) (PDU, error)",
  "res := &eventV2{}",
  "if err := json.Unmarshal(eventJSON, res); err != nil {",
  "return nil, err",
  "}",
  "if err := checkRoomIDField(res.eventFields.RoomID); err != nil {",
  "return nil, err",
  "}",
  "res.roomVersion = roomVersion.Version()",
  "res.eventJSON = eventJSON",
  "res.EventIDRaw = eventID",
  "res.redacted = redacted",
  "return res, nil"
]

def eventV2__newEventFromUntrustedJSONV2 : List String := [
  "func func(eventJSON []byte, roomVersion IRoomVersion) (PDU, error)",
  "if r := gjson.GetBytes(eventJSON, \"_*\"); r.Exists() {",
  "return nil, fmt.Errorf(\"gomatrixserverlib NewEventFromUntrustedJSON: found top-level '_' key, is this a headered event: %v\", string(eventJSON))",
  "}",
  "if err := roomVersion.CheckCanonicalJSON(eventJSON); err != nil {",
  "return nil, BadJSONError{err}",
  "}",
  "if err := checkUntrustedEventJSON(eventJSON); err != nil {",
  "return nil, err",
  "}",
  "res := &eventV2{}",
  "var err error",
  "for _, key := range []string{\"outlier\", \"destinations\", \"age_ts\", \"unsigned\", \"event_id\"} {",
  "if eventJSON, err = sjson.DeleteBytes(eventJSON, key); err != nil {",
  "return nil, err",
  "}",
  "}",
  "if err = json.Unmarshal(eventJSON, res); err != nil {",
  "return nil, err",
  "}",
  "res.EventIDRaw = \"\"",
  "if err := checkRoomIDField(res.eventFields.RoomID); err != nil {",
  "return nil, err",
  "}",
  "res.roomVersion = roomVersion.Version()",
  "eventJSON = CanonicalJSONAssumeValid(eventJSON)",
  "if l := len(eventJSON); l > maxEventLength {",
  "return nil, EventValidationError{Code: EventValidationTooLarge, Message: fmt.Sprintf(\"gomatrixserverlib: event is too long, length %d bytes > maximum %d bytes\", l, maxEventLength)}",
  "}",
  "res.eventJSON = eventJSON",
  "if err = checkEventContentHash(eventJSON); err != nil {",
  "res.redacted = true",
  "var redactedJSON []byte",
  "if redactedJSON, err = roomVersion.RedactEventJSON(eventJSON); err != nil {",
  "return nil, err",
  "}",
  "if redactedJSON, err = sjson.DeleteBytes(redactedJSON, \"event_id\"); err != nil {",
  "return nil, err",
  "}",
  "redactedJSON = CanonicalJSONAssumeValid(redactedJSON)",
  "if !bytes.Equal(redactedJSON, eventJSON) {",
  "result, err := roomVersion.NewEventFromTrustedJSON(redactedJSON, true)",
  "if err != nil {",
  "return nil, err",
  "}",
  "err = CheckFields(result)",
  "return result, err",
  "}",
  "}",
  "if err = res.populateEventID(roomVersion); err != nil {",
  "return nil, err",
  "}",
  "err = CheckFields(res)",
  "return res, err"
]

def eventV2_eventV2_AuthEventIDs : List String := [
  "func func() []string",
  "return e.AuthEvents"
]

def eventV2_eventV2_EventID : List String := [
  "func func() string",
  "if e.EventIDRaw != \"\" {",
  "return e.EventIDRaw",
  "}",
  "ref, err := referenceOfEvent(e.eventJSON, e.roomVersion)",
  "if err != nil {",
  "panic(fmt.Errorf(\"failed to generate reference of event: %w\", err))",
  "}",
  "return ref.EventID"
]

def eventV2_eventV2_MarshalJSON : List String := [
  "func func() ([]byte, error)",
  "if e.eventJSON == nil {",
  "return nil, fmt.Errorf(\"gomatrixserverlib: cannot serialise uninitialised Event\")",
  "}",
  "return e.eventJSON, nil"
]

def eventV2_eventV2_PrevEventIDs : List String := [
  "func func() []string",
  "return e.PrevEvents"
]

def eventV2_eventV2_Redact : List String := [
  "func func()",
  "if e.redacted {",
  "return",
  "}",
  "verImpl, err := GetRoomVersion(e.roomVersion)",
  "if err != nil {",
  "panic(fmt.Errorf(\"gomatrixserverlib: invalid event %v\", err))",
  "}",
  "eventJSON, err := verImpl.RedactEventJSON(e.eventJSON)",
  "if err != nil {",
  "panic(fmt.Errorf(\"gomatrixserverlib: invalid event %v\", err))",
  "}",
  "if eventJSON, err = EnforcedCanonicalJSON(eventJSON, e.roomVersion); err != nil {",
  "panic(fmt.Errorf(\"gomatrixserverlib: invalid event %v\", err))",
  "}",
  "var res eventV2",
  "err = json.Unmarshal(eventJSON, &res)",
  "if err != nil {",
  "panic(fmt.Errorf(\"gomatrixserverlib: Redact failed %v\", err))",
  "}",
  "res.redacted = true",
  "res.eventJSON = eventJSON",
  "res.roomVersion = e.roomVersion",
  "if res.EventIDRaw == \"\" {",
  "res.EventIDRaw = e.EventIDRaw",
  "}",
  "*e = res"
]

def eventV2_eventV2_SenderID : List String := [
  "func func() spec.SenderID",
  "return spec.SenderID(e.eventFields.SenderID)"
]

def eventV2_eventV2_SetUnsigned : List String := [
  "func func(unsigned interface{}) (PDU, error)",
  "var eventAsMap map[string]spec.RawJSON",
  "var err error",
  "if err = json.Unmarshal(e.eventJSON, &eventAsMap); err != nil {",
  "return nil, err",
  "}",
  "unsignedJSON, err := json.Marshal(unsigned)",
  "if err != nil {",
  "return nil, err",
  "}",
  "eventAsMap[\"unsigned\"] = unsignedJSON",
  "eventJSON, err := json.Marshal(eventAsMap)",
  "if err != nil {",
  "return nil, err",
  "}",
  "if eventJSON, err = EnforcedCanonicalJSON(eventJSON, e.roomVersion); err != nil {",
  "return nil, err",
  "}",
  "result := *e",
  "result.eventJSON = eventJSON",
  "result.eventFields.Unsigned = unsignedJSON",
  "return &result, nil"
]

def eventV2_eventV2_Sign : List String := [
  "func func(signingName string, keyID KeyID, privateKey ed25519.PrivateKey) PDU",
  "eventJSON, err := signEvent(signingName, keyID, privateKey, signableEventJSON(e.eventJSON), e.roomVersion)",
  "if err != nil {",
  "panic(fmt.Errorf(\"gomatrixserverlib: invalid event %v (%q)\", err, string(e.eventJSON)))",
  "}",
  "if eventJSON, err = EnforcedCanonicalJSON(eventJSON, e.roomVersion); err != nil {",
  "panic(fmt.Errorf(\"gomatrixserverlib: invalid event %v (%q)\", err, string(e.eventJSON)))",
  "}",
  "result := *e",
  "result.eventJSON = eventJSON",
  "return &result"
]

def eventV2_eventV2_populateEventID : List String := [
  "func func(verImpl IRoomVersion) error",
  "if e.EventIDRaw != \"\" {",
  "return nil",
  "}",
  "ref, err := referenceOfEventForVersion(e.eventJSON, verImpl)",
  "if err != nil {",
  "return fmt.Errorf(\"failed to generate reference of event: %w\", err)",
  "}",
  "e.EventIDRaw = ref.EventID",
  "return nil"
]

def eventV2_type_eventV2 : List String := [
  "type eventV2 struct { eventV1 PrevEvents []string `json:\"prev_events\"` AuthEvents []string `json:\"auth_events\"` }"
]

def eventV3__checkRoomID : List String := [
  "func func(res *eventV3) error",
  "isCreateEvent := res.Type() == spec.MRoomCreate && res.StateKeyEquals(\"\")",
  "if isCreateEvent {",
  "if l := utf8.RuneCountInString(res.eventFields.RoomID); l > maxIDLength {",
  "return EventValidationError{Code: EventValidationTooLarge, Message: fmt.Sprintf(\"gomatrixserverlib: room ID is too long, length %d > maximum %d\", l, maxIDLength)}",
  "}",
  "if l := len(res.eventFields.RoomID); l > maxIDLength {",
  "return EventValidationError{Code: EventValidationTooLarge, Message: fmt.Sprintf(\"gomatrixserverlib: room ID is too long, length %d bytes > maximum %d bytes\", l, maxIDLength)}",
  "}",
  "}",
  "if !isCreateEvent && !strings.HasPrefix(res.eventFields.RoomID, \"!\") {",
  "return fmt.Errorf(\"gomatrixserverlib: room_id must start with !\")",
  "}",
  "if !isCreateEvent {",
  "if _, err := spec.NewRoomID(res.eventFields.RoomID); err != nil {",
  "return fmt.Errorf(\"gomatrixserverlib: invalid room ID %q: %w\", res.eventFields.RoomID, err)",
  "}",
  "}",
  "return nil"
]

def eventV3__newEventFromTrustedJSONV3 : List String := [
  "func func(eventJSON []byte, redacted bool, roomVersion IRoomVersion) (PDU, error)",
  "res := eventV3{}",
  "if err := json.Unmarshal(eventJSON, &res); err != nil {",
  "return nil, err",
  "}",
  "if err := checkRoomID(&res); err != nil {",
  "return nil, err",
  "}",
  "res.roomVersion = roomVersion.Version()",
  "res.redacted = redacted",
  "res.eventJSON = eventJSON",
  "res.EventIDRaw = \"\"",
  "if err := res.populateEventID(roomVersion); err != nil {",
  "return nil, err",
  "}",
  "return &res, nil"
]

def eventV3__newEventFromTrustedJSONWithEventIDV3 : List String := [
  "func func(eventID string, eventJSON []byte, redacted bool, roomVersion IRoomVersion) (PDU, error)",
  "res := &eventV3{}",
  "if err := json.Unmarshal(eventJSON, res); err != nil {",
  "return nil, err",
  "}",
  "if err := checkRoomID(res); err != nil {",
  "return nil, err",
  "}",
  "res.roomVersion = roomVersion.Version()",
  "res.eventJSON = eventJSON",
  "res.EventIDRaw = eventID",
  "res.redacted = redacted",
  "return res, nil"
]

def eventV3__newEventFromUntrustedJSONV3 : List String := [
  "func func(eventJSON []byte, roomVersion IRoomVersion) (PDU, error)",
  "if r := gjson.GetBytes(eventJSON, \"_*\"); r.Exists() {",
  "return nil, fmt.Errorf(\"gomatrixserverlib NewEventFromUntrustedJSON: found top-level '_' key, is this a headered event: %v\", string(eventJSON))",
  "}",
  "if err := roomVersion.CheckCanonicalJSON(eventJSON); err != nil {",
  "return nil, BadJSONError{err}",
  "}",
  "if err := checkUntrustedEventJSON(eventJSON); err != nil {",
  "return nil, err",
  "}",
  "res := &eventV3{}",
  "var err error",
  "for _, key := range []string{\"outlier\", \"destinations\", \"age_ts\", \"unsigned\", \"event_id\"} {",
  "if eventJSON, err = sjson.DeleteBytes(eventJSON, key); err != nil {",
  "return nil, err",
  "}",
  "}",
  "if err = json.Unmarshal(eventJSON, res); err != nil {",
  "return nil, err",
  "}",
  "res.EventIDRaw = \"\"",
  "if err := checkRoomID(res); err != nil {",
  "return nil, err",
  "}",
  "res.roomVersion = roomVersion.Version()",
  "eventJSON = CanonicalJSONAssumeValid(eventJSON)",
  "if l := len(eventJSON); l > maxEventLength {",
  "return nil, EventValidationError{Code: EventValidationTooLarge, Message: fmt.Sprintf(\"gomatrixserverlib: event is too long, length %d bytes > maximum %d bytes\", l, maxEventLength)}",
  "}",
  "res.eventJSON = eventJSON",
  "if err = checkEventContentHash(eventJSON); err != nil {",
  "res.redacted = true",
  "var redactedJSON []byte",
  "if redactedJSON, err = roomVersion.RedactEventJSON(eventJSON); err != nil {",
  "return nil, err",
  "}",
  "if redactedJSON, err = sjson.DeleteBytes(redactedJSON, \"event_id\"); err != nil {",
  "return nil, err",
  "}",
  "redactedJSON = CanonicalJSONAssumeValid(redactedJSON)",
  "if !bytes.Equal(redactedJSON, eventJSON) {",
  "result, err := roomVersion.NewEventFromTrustedJSON(redactedJSON, true)",
  "if err != nil {",
  "return nil, err",
  "}",
  "err = CheckFields(result)",
  "return result, err",
  "}",
  "}",
  "if err = res.populateEventID(roomVersion); err != nil {",
  "return nil, err",
  "}",
  "err = CheckFields(res)",
  "return res, err"
]

def eventV3_eventV3_AuthEventIDs : List String := [
  "func func() []string",
  "isCreateEvent := e.Type() == spec.MRoomCreate && e.StateKeyEquals(\"\")",
  "if isCreateEvent {",
  "return []string{}",
  "}",
  "createEventID := fmt.Sprintf(\"$%s\", e.eventFields.RoomID[1:])",
  "if len(e.AuthEvents) > 0 {",
  "return append([]string{createEventID}, e.AuthEvents...)",
  "}",
  "return []string{createEventID}"
]

def eventV3_eventV3_RoomID : List String := [
  "func func() spec.RoomID",
  "roomIDStr := e.eventFields.RoomID",
  "isCreateEvent := e.Type() == spec.MRoomCreate && e.StateKeyEquals(\"\")",
  "if isCreateEvent {",
  "roomIDStr = fmt.Sprintf(\"!%s\", e.EventID()[1:])",
  "}",
  "roomID, err := spec.NewRoomID(roomIDStr)",
  "if err != nil {",
  "panic(fmt.Errorf(\"RoomID is invalid: %w\", err))",
  "}",
  "return *roomID"
]

def eventV3_eventV3_SetUnsigned : List String := [
  "func func(unsigned interface{}) (PDU, error)",
  "res, err := e.eventV2.SetUnsigned(unsigned)",
  "if err != nil {",
  "return nil, err",
  "}",
  "return &eventV3{eventV2: *res.(*eventV2)}, nil"
]

def eventV3_eventV3_Sign : List String := [
  "func func(signingName string, keyID KeyID, privateKey ed25519.PrivateKey) PDU",
  "return &eventV3{eventV2: *e.eventV2.Sign(signingName, keyID, privateKey).(*eventV2)}"
]

def eventV3_type_eventV3 : List String := [
  "type eventV3 struct{ eventV2 }"
]

def eventcrypto__VerifyAllEventSignatures : List String := [
  "func func(ctx context.Context, events []PDU, verifier JSONVerifier, userIDForSender spec.UserIDForSender) []error",
  "errors := make([]error, 0, len(events))",
  "for _, e := range events {",
  "errors = append(errors, VerifyEventSignatures(ctx, e, verifier, userIDForSender))",
  "}",
  "return errors"
]

def eventcrypto__VerifyEventSignatures : List String := [
  "func func(ctx context.Context, e PDU, verifier JSONVerifier, userIDForSender spec.UserIDForSender) error",
  "if userIDForSender == nil {",
  "panic(\"UserIDForSender func is nil\")",
  "}",
  "var serverName spec.ServerName",
  "needed := map[spec.ServerName]struct{}{}",
  "verImpl, err := GetRoomVersion(e.Version())",
  "if err != nil {",
  "return err",
  "}",
  "switch e.Version() {",
  "case RoomVersionPseudoIDs:",
  "needed[spec.ServerName(e.SenderID())] = struct{}{}",
  "default:",
  "sender, err := userIDForSender(e.RoomID(), e.SenderID())",
  "if err != nil {",
  "return fmt.Errorf(\"invalid sender userID: %w\", err)",
  "}",
  "if sender != nil {",
  "serverName = sender.Domain()",
  "needed[serverName] = struct{}{}",
  "}",
  "format := verImpl.EventIDFormat()",
  "if format == EventIDFormatV1 {",
  "_, serverName, err = SplitID('$', e.EventID())",
  "if err != nil {",
  "return fmt.Errorf(\"failed to split event ID: %w\", err)",
  "}",
  "needed[serverName] = struct{}{}",
  "}",
  "}",
  "if e.Type() == spec.MRoomMember {",
  "membership, err := membershipForSignatures(e)",
  "if err != nil {",
  "return fmt.Errorf(\"failed to get membership of membership event: %w\", err)",
  "}",
  "if verImpl.Version() == RoomVersionPseudoIDs && membership == spec.Join {",
  "mapping, err := getMXIDMapping(e)",
  "if err != nil {",
  "return err",
  "}",
  "if mapping.UserRoomKey != e.SenderID() {",
  "return fmt.Errorf(\"mxid_mapping is for %q, not for the sender %q\", mapping.UserRoomKey, e.SenderID())",
  "}",
  "err = validateMXIDMappingSignatures(ctx, e, *mapping, verifier, verImpl)",
  "if err != nil {",
  "return err",
  "}",
  "}",
  "if membership == spec.Invite {",
  "switch e.Version() {",
  "case RoomVersionPseudoIDs:",
  "needed[spec.ServerName(*e.StateKey())] = struct{}{}",
  "default:",
  "_, serverName, err = SplitID('@', *e.StateKey())",
  "if err != nil {",
  "return fmt.Errorf(\"failed to split state key: %w\", err)",
  "}",
  "needed[serverName] = struct{}{}",
  "}",
  "}",
  "if membership == spec.Join {",
  "auth, err := verImpl.RestrictedJoinServername(e.Content())",
  "if err != nil {",
  "return err",
  "}",
  "if auth != \"\" {",
  "needed[auth] = struct{}{}",
  "}",
  "}",
  "}",
  "redactedJSON, err := verImpl.RedactEventJSON(e.JSON())",
  "if err != nil {",
  "return fmt.Errorf(\"failed to redact event: %w\", err)",
  "}",
  "var toVerify []VerifyJSONRequest",
  "for serverName := range needed {",
  "v := VerifyJSONRequest{Message: redactedJSON, AtTS: e.OriginServerTS(), ServerName: serverName, ValidityCheckingFunc: verImpl.SignatureValidityCheck}",
  "toVerify = append(toVerify, v)",
  "}",
  "if verImpl.Version() == RoomVersionPseudoIDs {",
  "verifier = JSONVerifierSelf{}",
  "}",
  "results, err := verifier.VerifyJSONs(ctx, toVerify)",
  "if err != nil {",
  "return fmt.Errorf(\"failed to verify JSONs: %w\", err)",
  "}",
  "for _, result := range results {",
  "if result.Error != nil {",
  "return result.Error",
  "}",
  "}",
  "return nil"
]

def eventcrypto__addContentHashesToEvent : List String := [
  "func func(eventJSON []byte) ([]byte, error)",
  "var event map[string]spec.RawJSON",
  "if err := json.Unmarshal(eventJSON, &event); err != nil {",
  "return nil, err",
  "}",
  "unsignedJSON := event[\"unsigned\"]",
  "signatures := event[\"signatures\"]",
  "delete(event, \"signatures\")",
  "delete(event, \"unsigned\")",
  "delete(event, \"hashes\")",
  "hashableEventJSON, err := json.Marshal(event)",
  "if err != nil {",
  "return nil, err",
  "}",
  "hashableEventJSON, err = CanonicalJSON(hashableEventJSON)",
  "if err != nil {",
  "return nil, err",
  "}",
  "sha256Hash := sha256.Sum256(hashableEventJSON)",
  "hashes := struct { Sha256 spec.Base64Bytes `json:\"sha256\"` }{spec.Base64Bytes(sha256Hash[:])}",
  "hashesJSON, err := json.Marshal(&hashes)",
  "if err != nil {",
  "return nil, err",
  "}",
  "if len(unsignedJSON) > 0 {",
  "event[\"unsigned\"] = unsignedJSON",
  "}",
  "if len(signatures) > 0 {",
  "event[\"signatures\"] = signatures",
  "}",
  "event[\"hashes\"] = spec.RawJSON(hashesJSON)",
  "return json.Marshal(event)"
]

def eventcrypto__checkEventContentHash : List String := [
  "func func(eventJSON []byte) error",
  "var err error",
  "result := gjson.GetBytes(eventJSON, \"hashes.sha256\")",
  "var hash spec.Base64Bytes",
  "if err = hash.Decode(result.Str); err != nil {",
  "return err",
  "}",
  "hashableEventJSON := eventJSON",
  "for _, key := range []string{\"signatures\", \"unsigned\", \"hashes\"} {",
  "if hashableEventJSON, err = sjson.DeleteBytes(hashableEventJSON, key); err != nil {",
  "return err",
  "}",
  "}",
  "sha256Hash := sha256.Sum256(hashableEventJSON)",
  "if !bytes.Equal(sha256Hash[:], []byte(hash)) {",
  "return fmt.Errorf(\"Invalid Sha256 content hash: %v != %v\", sha256Hash[:], []byte(hash))",
  "}",
  "return nil"
]

def eventcrypto__emptyAuthorisedViaServerName : List String := [
  "func func([]byte) (spec.ServerName, error)",
  "return \"\", nil"
]

def eventcrypto__extractAuthorisedViaServerName : List String := [
  "func func(content []byte) (spec.ServerName, error)",
  "var members map[string]json.RawMessage",
  "if err := json.Unmarshal(content, &members); err != nil {",
  "return \"\", fmt.Errorf(\"failed to read member content: %w\", err)",
  "}",
  "if v, ok := members[\"join_authorised_via_users_server\"]; ok {",
  "var userID string",
  "if err := json.Unmarshal(v, &userID); err != nil {",
  "return \"\", fmt.Errorf(\"failed to read authorised user: %w\", err)",
  "}",
  "_, serverName, err := SplitID('@', userID)",
  "if err != nil {",
  "return \"\", fmt.Errorf(\"failed to split authorised server: %w\", err)",
  "}",
  "if serverName == \"\" {",
  "return \"\", fmt.Errorf(\"authorised user %q has no server name\", userID)",
  "}",
  "return serverName, nil",
  "}",
  "return \"\", nil"
]

def eventcrypto__getMXIDMapping : List String := [
  "func func(e PDU) (*MXIDMapping, error)",
  "var content MemberContent",
  "exact, err := exactFieldsOnly(e.Content(), &content)",
  "if err != nil {",
  "return nil, err",
  "}",
  "err = json.Unmarshal(exact, &content)",
  "if err != nil {",
  "return nil, err",
  "}",
  "if content.MXIDMapping == nil {",
  "return nil, fmt.Errorf(\"missing mxid_mapping\")",
  "}",
  "return content.MXIDMapping, nil"
]

def eventcrypto__membershipForSignatures : List String := [
  "func func(e PDU) (string, error)",
  "var content struct { Membership string `json:\"membership\"` }",
  "exact, err := exactFieldsOnly(e.Content(), &content)",
  "if err != nil {",
  "return \"\", err",
  "}",
  "if err = json.Unmarshal(exact, &content); err != nil {",
  "return \"\", err",
  "}",
  "if e.StateKey() == nil {",
  "return \"\", fmt.Errorf(\"gomatrixserverlib: not a m.room.member event, missing state key\")",
  "}",
  "return content.Membership, nil"
]

def eventcrypto__referenceOfEvent : List String := [
  "func func(eventJSON []byte, roomVersion RoomVersion) (eventReference, error)",
  "verImpl, err := GetRoomVersion(roomVersion)",
  "if err != nil {",
  "return eventReference{}, err",
  "}",
  "return referenceOfEventForVersion(eventJSON, verImpl)"
]

def eventcrypto__referenceOfEventForVersion : List String := [
  "func func(eventJSON []byte, verImpl IRoomVersion) (eventReference, error)",
  "redactedJSON, err := verImpl.RedactEventJSON(eventJSON)",
  "if err != nil {",
  "return eventReference{}, err",
  "}",
  "var event map[string]spec.RawJSON",
  "if err = json.Unmarshal(redactedJSON, &event); err != nil {",
  "return eventReference{}, err",
  "}",
  "delete(event, \"signatures\")",
  "delete(event, \"unsigned\")",
  "hashableEventJSON, err := json.Marshal(event)",
  "if err != nil {",
  "return eventReference{}, err",
  "}",
  "hashableEventJSON, err = CanonicalJSON(hashableEventJSON)",
  "if err != nil {",
  "return eventReference{}, err",
  "}",
  "sha256Hash := sha256.Sum256(hashableEventJSON)",
  "var eventID string",
  "eventFormat := verImpl.EventFormat()",
  "eventIDFormat := verImpl.EventIDFormat()",
  "switch eventFormat {",
  "case EventFormatV1:",
  "if err = json.Unmarshal(event[\"event_id\"], &eventID); err != nil {",
  "return eventReference{}, err",
  "}",
  "case EventFormatV2:",
  "var encoder *base64.Encoding",
  "switch eventIDFormat {",
  "case EventIDFormatV2:",
  "encoder = base64.RawStdEncoding.WithPadding(base64.NoPadding)",
  "case EventIDFormatV3:",
  "encoder = base64.RawURLEncoding.WithPadding(base64.NoPadding)",
  "default:",
  "return eventReference{}, UnsupportedRoomVersionError{Version: verImpl.Version()}",
  "}",
  "eventID = fmt.Sprintf(\"$%s\", encoder.EncodeToString(sha256Hash[:]))",
  "default:",
  "return eventReference{}, UnsupportedRoomVersionError{Version: verImpl.Version()}",
  "}",
  "return eventReference{eventID, sha256Hash[:]}, nil"
]

def eventcrypto__signEvent : List String := [
  "func func(signingName string, keyID KeyID, privateKey ed25519.PrivateKey, eventJSON []byte, roomVersion RoomVersion) ([]byte, error)",
  "verImpl, err := GetRoomVersion(roomVersion)",
  "if err != nil {",
  "return nil, err",
  "}",
  "redactedJSON, err := verImpl.RedactEventJSON(eventJSON)",
  "if err != nil {",
  "return nil, err",
  "}",
  "signedJSON, err := SignJSON(signingName, keyID, privateKey, redactedJSON)",
  "if err != nil {",
  "return nil, err",
  "}",
  "var signedEvent struct { Signatures spec.RawJSON `json:\"signatures\"` }",
  "if err := json.Unmarshal(signedJSON, &signedEvent); err != nil {",
  "return nil, err",
  "}",
  "var event map[string]spec.RawJSON",
  "if err := json.Unmarshal(eventJSON, &event); err != nil {",
  "return nil, err",
  "}",
  "event[\"signatures\"] = signedEvent.Signatures",
  "return json.Marshal(event)"
]

def eventcrypto__validateMXIDMappingSignatures : List String := [
  "func func(ctx context.Context, e PDU, mapping MXIDMapping, verifier JSONVerifier, verImpl IRoomVersion) error",
  "mappingBytes, err := json.Marshal(mapping)",
  "if err != nil {",
  "return err",
  "}",
  "_, userServer, err := SplitID('@', mapping.UserID)",
  "if err != nil {",
  "return fmt.Errorf(\"failed to verify MXIDMapping: %w\", err)",
  "}",
  "if _, ok := mapping.Signatures[userServer]; !ok {",
  "return fmt.Errorf(\"failed to verify MXIDMapping: not signed by %q\", userServer)",
  "}",
  "var toVerify []VerifyJSONRequest",
  "for s := range mapping.Signatures {",
  "v := VerifyJSONRequest{Message: mappingBytes, AtTS: e.OriginServerTS(), ServerName: s, ValidityCheckingFunc: verImpl.SignatureValidityCheck}",
  "toVerify = append(toVerify, v)",
  "}",
  "results, err := verifier.VerifyJSONs(ctx, toVerify)",
  "if err != nil {",
  "return fmt.Errorf(\"failed to verify MXIDMapping: %w\", err)",
  "}",
  "for _, result := range results {",
  "if result.Error != nil {",
  "return fmt.Errorf(\"failed to verify MXIDMapping: %w\", result.Error)",
  "}",
  "}",
  "return err"
]

def redactevent__exactFieldsOnly : List String := [
  "func func(eventJSON []byte, keepStruct interface{}) ([]byte, error)",
  "var members map[string]json.RawMessage",
  "if err := json.Unmarshal(eventJSON, &members); err != nil {",
  "return nil, err",
  "}",
  "fields := reflect.TypeOf(keepStruct).Elem()",
  "exact := make(map[string]json.RawMessage, fields.NumField())",
  "for i := 0; i < fields.NumField(); i++ {",
  "name, _, _ := strings.Cut(fields.Field(i).Tag.Get(\"json\"), \",\")",
  "if value, ok := members[name]; ok {",
  "exact[name] = value",
  "}",
  "}",
  "return json.Marshal(exact)"
]

def redactevent__exactMembersOnly : List String := [
  "func func(content []byte, keepStruct interface{}) []byte",
  "if object := bytes.TrimLeft(content, \" \\t\\r\\n\"); len(object) == 0 || object[0] != '{' {",
  "return content",
  "}",
  "exact, err := exactFieldsOnly(content, keepStruct)",
  "if err != nil {",
  "return content",
  "}",
  "return exact"
]

def redactevent__redactEventJSON : List String := [
  "func func[T unredactableEvent](eventJSON []byte, unredactableEvent T, eventTypeToKeepContentFields map[string][]string) ([]byte, error)",
  "eventJSON, err := exactFieldsOnly(eventJSON, unredactableEvent)",
  "if err != nil {",
  "return nil, err",
  "}",
  "if err = json.Unmarshal(eventJSON, unredactableEvent); err != nil {",
  "return nil, err",
  "}",
  "newContent := map[string]interface{}{}",
  "keepContentFields, ok := eventTypeToKeepContentFields[unredactableEvent.GetType()]",
  "if ok && len(keepContentFields) == 0 {",
  "newContent = unredactableEvent.GetContent()",
  "} else {",
  "for _, contentKey := range keepContentFields {",
  "val, ok := unredactableEvent.GetContent()[contentKey]",
  "if ok {",
  "newContent[contentKey] = val",
  "}",
  "}",
  "}",
  "unredactableEvent.SetContent(newContent)",
  "return json.Marshal(&unredactableEvent)"
]

def redactevent__redactEventJSONV1 : List String := [
  "func func(eventJSON []byte) ([]byte, error)",
  "return redactEventJSON(eventJSON, &unredactableEventFieldsV1{}, unredactableContentFieldsV1)"
]

def redactevent__redactEventJSONV2 : List String := [
  "func func(eventJSON []byte) ([]byte, error)",
  "return redactEventJSON(eventJSON, &unredactableEventFieldsV1{}, unredactableContentFieldsV2)"
]

def redactevent__redactEventJSONV3 : List String := [
  "func func(eventJSON []byte) ([]byte, error)",
  "return redactEventJSON(eventJSON, &unredactableEventFieldsV1{}, unredactableContentFieldsV3)"
]

def redactevent__redactEventJSONV4 : List String := [
  "func func(eventJSON []byte) ([]byte, error)",
  "return redactEventJSON(eventJSON, &unredactableEventFieldsV1{}, unredactableContentFieldsV4)"
]

def redactevent__redactEventJSONV5 : List String := [
  "func func(eventJSON []byte) ([]byte, error)",
  "return redactEventJSON(eventJSON, &unredactableEventFieldsV2{}, unredactableContentFieldsV5)"
]

def redactevent_type_unredactableEvent : List String := [
  "type unredactableEvent interface { *unredactableEventFieldsV1 | *unredactableEventFieldsV2 GetType() string GetContent() map[string]interface{} SetContent(map[string]interface{}) }"
]

def redactevent_type_unredactableEventFieldsV1 : List String := [
  "type unredactableEventFieldsV1 struct { EventID spec.RawJSON `json:\"event_id,omitempty\"` Type string `json:\"type\"` RoomID spec.RawJSON `json:\"room_id,omitempty\"` Sender spec.RawJSON `json:\"sender,omitempty\"` StateKey spec.RawJSON `json:\"state_key,omitempty\"` Content map[string]interface{} `json:\"content\"` Hashes spec.RawJSON `json:\"hashes,omitempty\"` Signatures spec.RawJSON `json:\"signatures,omitempty\"` Depth spec.RawJSON `json:\"depth,omitempty\"` PrevEvents spec.RawJSON `json:\"prev_events,omitempty\"` PrevState spec.RawJSON `json:\"prev_state,omitempty\"` AuthEvents spec.RawJSON `json:\"auth_events,omitempty\"` Origin spec.RawJSON `json:\"origin,omitempty\"` OriginServerTS spec.RawJSON `json:\"origin_server_ts,omitempty\"` Membership spec.RawJSON `json:\"membership,omitempty\"` }"
]

def redactevent_type_unredactableEventFieldsV2 : List String := [
  "type unredactableEventFieldsV2 struct { EventID spec.RawJSON `json:\"event_id,omitempty\"` Type string `json:\"type\"` RoomID spec.RawJSON `json:\"room_id,omitempty\"` Sender spec.RawJSON `json:\"sender,omitempty\"` StateKey spec.RawJSON `json:\"state_key,omitempty\"` Content map[string]interface{} `json:\"content\"` Hashes spec.RawJSON `json:\"hashes,omitempty\"` Signatures spec.RawJSON `json:\"signatures,omitempty\"` Depth spec.RawJSON `json:\"depth,omitempty\"` PrevEvents spec.RawJSON `json:\"prev_events,omitempty\"` AuthEvents spec.RawJSON `json:\"auth_events,omitempty\"` OriginServerTS spec.RawJSON `json:\"origin_server_ts,omitempty\"` }"
]

def redactevent_unredactableEventFieldsV1_GetContent : List String := [
  "func func() map[string]interface{}",
  "return u.Content"
]

def redactevent_unredactableEventFieldsV1_GetType : List String := [
  "func func() string",
  "return u.Type"
]

def redactevent_unredactableEventFieldsV1_SetContent : List String := [
  "func func(content map[string]interface{})",
  "u.Content = content"
]

def redactevent_unredactableEventFieldsV2_GetContent : List String := [
  "func func() map[string]interface{}",
  "return u.Content"
]

def redactevent_unredactableEventFieldsV2_GetType : List String := [
  "func func() string",
  "return u.Type"
]

def redactevent_unredactableEventFieldsV2_SetContent : List String := [
  "func func(content map[string]interface{})",
  "u.Content = content"
]

def functions : List String := ["eventV1.go:.newEventFromTrustedJSONV1", "eventV1.go:.newEventFromTrustedJSONWithEventIDV1", "eventV1.go:.newEventFromUntrustedJSONV1", "eventV1.go:.signableEventJSON", "eventV1.go:eventV1.AuthEventIDs", "eventV1.go:eventV1.Content", "eventV1.go:eventV1.Depth", "eventV1.go:eventV1.EventID", "eventV1.go:eventV1.HistoryVisibility", "eventV1.go:eventV1.IsSticky", "eventV1.go:eventV1.JSON", "eventV1.go:eventV1.JoinRule", "eventV1.go:eventV1.MarshalJSON", "eventV1.go:eventV1.Membership", "eventV1.go:eventV1.OriginServerTS", "eventV1.go:eventV1.PowerLevels", "eventV1.go:eventV1.PrevEventIDs", "eventV1.go:eventV1.Redact", "eventV1.go:eventV1.Redacted", "eventV1.go:eventV1.Redacts", "eventV1.go:eventV1.RoomID", "eventV1.go:eventV1.SenderID", "eventV1.go:eventV1.SetUnsigned", "eventV1.go:eventV1.SetUnsignedField", "eventV1.go:eventV1.Sign", "eventV1.go:eventV1.StateKey", "eventV1.go:eventV1.StateKeyEquals", "eventV1.go:eventV1.StickyEndTime", "eventV1.go:eventV1.ToHeaderedJSON", "eventV1.go:eventV1.Type", "eventV1.go:eventV1.Unsigned", "eventV1.go:eventV1.Version", "eventV1.go:eventV1.assumedStickyStartTime", "eventV1.go:eventV1.calculatedStickyEndTime", "eventV1.go:type eventV1", "eventV1.go:type stickyEventData", "eventV2.go:.CheckFields", "eventV2.go:.newEventFromTrustedJSONV2", "eventV2.go:.newEventFromTrustedJSONWithEventIDV2", "eventV2.go:.newEventFromUntrustedJSONV2", "eventV2.go:eventV2.AuthEventIDs", "eventV2.go:eventV2.EventID", "eventV2.go:eventV2.MarshalJSON", "eventV2.go:eventV2.PrevEventIDs", "eventV2.go:eventV2.Redact", "eventV2.go:eventV2.SenderID", "eventV2.go:eventV2.SetUnsigned", "eventV2.go:eventV2.Sign", "eventV2.go:eventV2.populateEventID", "eventV2.go:type eventV2", "eventV3.go:.checkRoomID", "eventV3.go:.newEventFromTrustedJSONV3", "eventV3.go:.newEventFromTrustedJSONWithEventIDV3", "eventV3.go:.newEventFromUntrustedJSONV3", "eventV3.go:eventV3.AuthEventIDs", "eventV3.go:eventV3.RoomID", "eventV3.go:eventV3.SetUnsigned", "eventV3.go:eventV3.Sign", "eventV3.go:type eventV3", "eventcrypto.go:.VerifyAllEventSignatures", "eventcrypto.go:.VerifyEventSignatures", "eventcrypto.go:.addContentHashesToEvent", "eventcrypto.go:.checkEventContentHash", "eventcrypto.go:.emptyAuthorisedViaServerName", "eventcrypto.go:.extractAuthorisedViaServerName", "eventcrypto.go:.getMXIDMapping", "eventcrypto.go:.membershipForSignatures", "eventcrypto.go:.referenceOfEvent", "eventcrypto.go:.referenceOfEventForVersion", "eventcrypto.go:.signEvent", "eventcrypto.go:.validateMXIDMappingSignatures", "redactevent.go:.exactFieldsOnly", "redactevent.go:.exactMembersOnly", "redactevent.go:.redactEventJSON", "redactevent.go:.redactEventJSONV1", "redactevent.go:.redactEventJSONV2", "redactevent.go:.redactEventJSONV3", "redactevent.go:.redactEventJSONV4", "redactevent.go:.redactEventJSONV5", "redactevent.go:type unredactableEvent", "redactevent.go:type unredactableEventFieldsV1", "redactevent.go:type unredactableEventFieldsV2", "redactevent.go:unredactableEventFieldsV1.GetContent", "redactevent.go:unredactableEventFieldsV1.GetType", "redactevent.go:unredactableEventFieldsV1.SetContent", "redactevent.go:unredactableEventFieldsV2.GetContent", "redactevent.go:unredactableEventFieldsV2.GetType", "redactevent.go:unredactableEventFieldsV2.SetContent"]

end VPins.C04
