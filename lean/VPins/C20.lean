/- PINNED copy of the statement skeletons of the Go functions the C20 model mirrors (written by tools/pin.sh
   when the model was last validated against the code). Compared with the regenerated VGen.SkelC20 in VProps/PinC20.lean. -/
namespace VPins.C20

def tokens_tokens__GenerateLoginToken : List String := [
  "func func(op TokenOptions) (string, error)",
  "if !isValidTokenOptions(op) {",
  "return \"\", errors.New(\"The given TokenOptions is invalid\")",
  "}",
  "mac, err := generateBaseMacaroon(op.ServerPrivateKey, op.ServerName, op.UserID)",
  "if err != nil {",
  "return \"\", err",
  "}",
  "if op.Duration == 0 {",
  "op.Duration = defaultDuration",
  "}",
  "now := int(time.Now().Unix())",
  "expiryCaveat := TimePrefix + strconv.Itoa(now+op.Duration)",
  "err = mac.AddFirstPartyCaveat([]byte(expiryCaveat))",
  "if err != nil {",
  "return \"\", macaroonError(err)",
  "}",
  "urlSafeEncode, err := serializeMacaroon(*mac)",
  "if err != nil {",
  "return \"\", macaroonError(err)",
  "}",
  "return urlSafeEncode, nil"
]

def tokens_tokens__deSerializeMacaroon : List String := [
  "func func(urlSafeEncode string) (macaroon.Macaroon, error)",
  "var mac macaroon.Macaroon",
  "bin, err := base64.RawURLEncoding.DecodeString(urlSafeEncode)",
  "if err != nil {",
  "return mac, err",
  "}",
  "err = mac.UnmarshalBinary(bin)",
  "return mac, err"
]

def tokens_tokens__generateBaseMacaroon : List String := [
  "func func(secret []byte, ServerName string, userID string) (*macaroon.Macaroon, error)",
  "mac, err := macaroon.New(secret, []byte(userID), ServerName, macaroonVersion)",
  "if err != nil {",
  "return nil, macaroonError(err)",
  "}",
  "err = mac.AddFirstPartyCaveat([]byte(Gen))",
  "if err != nil {",
  "return nil, macaroonError(err)",
  "}",
  "err = mac.AddFirstPartyCaveat([]byte(UserPrefix + userID))",
  "if err != nil {",
  "return nil, macaroonError(err)",
  "}",
  "return mac, nil"
]

def tokens_tokens__isValidTokenOptions : List String := [
  "func func(op TokenOptions) bool",
  "if op.ServerPrivateKey == nil || op.ServerName == \"\" || op.UserID == \"\" {",
  "return false",
  "}",
  "return true"
]

def tokens_tokens__macaroonError : List String := [
  "func func(err error) error",
  "return fmt.Errorf(\"Macaroon creation failed: %s\", err.Error())"
]

def tokens_tokens__serializeMacaroon : List String := [
  "func func(m macaroon.Macaroon) (string, error)",
  "bin, err := m.MarshalBinary()",
  "if err != nil {",
  "return \"\", err",
  "}",
  "urlSafeEncode := base64.RawURLEncoding.EncodeToString(bin)",
  "return urlSafeEncode, nil"
]

def tokens_tokens_handlers__GetUserFromToken : List String := [
  "func func(token string) (user string, err error)",
  "mac, err := deSerializeMacaroon(token)",
  "if err != nil {",
  "return",
  "}",
  "user = string(mac.Id()[:])",
  "return"
]

def tokens_tokens_handlers__ValidateToken : List String := [
  "func func(op TokenOptions, token string) error",
  "mac, err := deSerializeMacaroon(token)",
  "if err != nil {",
  "return errors.New(\"Token does not represent a valid macaroon\")",
  "}",
  "caveats, err := mac.VerifySignature(op.ServerPrivateKey, nil)",
  "if err != nil {",
  "return errors.New(\"Provided token was not issued by this server\")",
  "}",
  "err = verifyCaveats(caveats, op.UserID)",
  "if err != nil {",
  "return errors.New(\"Provided token not authorized\")",
  "}",
  "return nil"
]

def tokens_tokens_handlers__verifyCaveats : List String := [
  "func func(caveats []string, userID string) error",
  "var verified uint8",
  "now := int(time.Now().Unix())",
  "for _, caveat := range caveats {",
  "var bit uint8",
  "switch {",
  "case caveat == Gen:",
  "bit = 1",
  "case strings.HasPrefix(caveat, UserPrefix):",
  "if caveat[len(UserPrefix):] != userID {",
  "return errors.New(\"Token was issued for a different user\")",
  "}",
  "bit = 2",
  "case strings.HasPrefix(caveat, TimePrefix):",
  "if !verifyExpiry(caveat[len(TimePrefix):], now) {",
  "return errors.New(\"Token has expired\")",
  "}",
  "bit = 4",
  "default:",
  "return errors.New(\"Unknown caveat present\")",
  "}",
  "if verified&bit != 0 {",
  "return errors.New(\"Duplicate caveat present\")",
  "}",
  "verified |= bit",
  "}",
  "if verified == 7 {",
  "return nil",
  "}",
  "return errors.New(\"Required caveats not present\")"
]

def tokens_tokens_type_TokenOptions : List String := [
  "type TokenOptions struct { ServerPrivateKey []byte `yaml:\"private_key\"` ServerName string `yaml:\"server_name\"` UserID string `json:\"user_id\"` Duration int }"
]

def functions : List String := ["tokens/tokens.go:.GenerateLoginToken", "tokens/tokens.go:.deSerializeMacaroon", "tokens/tokens.go:.generateBaseMacaroon", "tokens/tokens.go:.isValidTokenOptions", "tokens/tokens.go:.macaroonError", "tokens/tokens.go:.serializeMacaroon", "tokens/tokens_handlers.go:.GetUserFromToken", "tokens/tokens_handlers.go:.ValidateToken", "tokens/tokens_handlers.go:.verifyCaveats", "tokens/tokens.go:type TokenOptions"]

end VPins.C20
