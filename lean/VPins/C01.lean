/- PINNED copy of the statement skeletons of the Go functions the C01 model mirrors (written by tools/pin.sh
   when the model was last validated against the code). Compared with the regenerated VGen.SkelC01 in VProps/PinC01.lean. -/
namespace VPins.C01

def eventversion_RoomVersionImpl_CheckCanonicalJSON : List String := [
  "func func(eventJSON []byte) error",
  "return v.canonicalJSONCheck(eventJSON)"
]

def json_EventJSONs_TrustedEvents : List String := [
  "func func(roomVersion RoomVersion, redacted bool) []PDU",
  "verImpl, err := GetRoomVersion(roomVersion)",
  "if err != nil {",
  "return nil",
  "}",
  "events := make([]PDU, 0, len(e))",
  "for _, js := range e {",
  "event, err := verImpl.NewEventFromTrustedJSON(js, redacted)",
  "if err != nil {",
  "continue",
  "}",
  "events = append(events, event)",
  "}",
  "return events"
]

def json_EventJSONs_UntrustedEvents : List String := [
  "func func(roomVersion RoomVersion) []PDU",
  "verImpl, err := GetRoomVersion(roomVersion)",
  "if err != nil {",
  "return nil",
  "}",
  "events := make([]PDU, 0, len(e))",
  "for _, js := range e {",
  "event, err := verImpl.NewEventFromUntrustedJSON(js)",
  "switch e := err.(type) { case EventValidationError: if !e.Persistable { continue } case nil: default: continue }",
  "if event == nil {",
  "continue",
  "}",
  "events = append(events, event)",
  "}",
  "return events"
]

def json__CanonicalJSON : List String := [
  "func func(input []byte) ([]byte, error)",
  "if !gjson.Valid(string(input)) {",
  "return nil, BadJSONError{errors.New(\"gjson validation failed\")}",
  "}",
  "return CanonicalJSONAssumeValid(input), nil"
]

def json__CanonicalJSONAssumeValid : List String := [
  "func func(input []byte) []byte",
  "input = CompactJSON(input, make([]byte, 0, len(input)))",
  "return SortJSON(input, make([]byte, 0, len(input)))"
]

def json__CompactJSON : List String := [
  "func func(input, output []byte) []byte",
  "var i int",
  "for ; i < len(input);  {",
  "c := input[i]",
  "i++",
  "if c <= ' ' {",
  "continue",
  "}",
  "if c == '-' && isNegativeZeroLiteral(input, i) {",
  "continue",
  "}",
  "output = append(output, c)",
  "if c == '\"' {",
  "for ; i < len(input);  {",
  "c = input[i]",
  "i++",
  "if c == '\\\\' {",
  "escape := input[i]",
  "i++",
  "if escape == 'u' {",
  "output, i = compactUnicodeEscape(input, output, i)",
  "} else if escape == '/' {",
  "output = append(output, escape)",
  "} else {",
  "output = append(output, '\\\\', escape)",
  "}",
  "} else {",
  "output = append(output, c)",
  "}",
  "if c == '\"' {",
  "break",
  "}",
  "}",
  "}",
  "}",
  "return output"
]

def json__EnforcedCanonicalJSON : List String := [
  "func func(input []byte, roomVersion RoomVersion) ([]byte, error)",
  "roomVersionImpl, err := GetRoomVersion(roomVersion)",
  "if err != nil {",
  "return nil, err",
  "}",
  "if err := roomVersionImpl.CheckCanonicalJSON(input); err != nil {",
  "return nil, BadJSONError{err}",
  "}",
  "return CanonicalJSON(input)"
]

def json__NewEventJSONsFromEvents : List String := [
  "func func(he []PDU) EventJSONs",
  "events := make(EventJSONs, len(he))",
  "for i := range he {",
  "events[i] = he[i].JSON()",
  "}",
  "return events"
]

def json__SortJSON : List String := [
  "func func(input, output []byte) []byte",
  "result := gjson.ParseBytes(input)",
  "return sortJSONValue(result, output)"
]

def json__compactUnicodeEscape : List String := [
  "func func(input, output []byte, index int) ([]byte, int)",
  "appendUTF8 := func(c rune) { var buffer [4]byte n := utf8.EncodeRune(buffer[:], c) output = append(output, buffer[:n]...) }",
  "const ( ESCAPES = \"uuuuuuuubtnufruuuuuuuuuuuuuuuuuu\" HEX = \"0123456789abcdef\" )",
  "if len(input)-index < 4 {",
  "return output, len(input)",
  "}",
  "c := readHexDigits(input[index : index+4])",
  "index += 4",
  "if c < ' ' {",
  "escape := ESCAPES[c]",
  "output = append(output, '\\\\', escape)",
  "if escape == 'u' {",
  "output = append(output, '0', '0', byte('0'+(c>>4)), HEX[c&0xF])",
  "}",
  "} else if c == '\\\\' || c == '\"' {",
  "output = append(output, '\\\\', byte(c))",
  "} else if utf16.IsSurrogate(c) {",
  "if input[index] != '\\\\' || input[index+1] != 'u' {",
  "return output, index",
  "}",
  "index += 2",
  "if len(input)-index < 4 {",
  "return output, index",
  "}",
  "c2 := readHexDigits(input[index : index+4])",
  "index += 4",
  "appendUTF8(utf16.DecodeRune(c, c2))",
  "} else {",
  "appendUTF8(c)",
  "}",
  "return output, index"
]

def json__noVerifyCanonicalJSON : List String := [
  "func func(input []byte) error",
  "return nil"
]

def json__sortJSONArray : List String := [
  "func func(input gjson.Result, output []byte) []byte",
  "sep := byte('[')",
  "input.ForEach(func(_, value gjson.Result) bool { output = append(output, sep) sep = ',' output = sortJSONValue(value, output) return true })",
  "if sep == '[' {",
  "output = append(output, '[', ']')",
  "} else {",
  "output = append(output, ']')",
  "}",
  "return output"
]

def json__sortJSONObject : List String := [
  "func func(input gjson.Result, output []byte) []byte",
  "type entry struct { key string raw string value gjson.Result }// The parsed key string // The raw (still escaped, quoted) key as it appears in the input",
  "var _entries [128]entry",
  "entries := _entries[:0]",
  "input.ForEach(func(key, value gjson.Result) bool { entries = append(entries, entry{key: key.String(), raw: key.Raw, value: value}) return true })",
  "slices.SortFunc(entries, func(a, b entry) int { return strings.Compare(a.key, b.key) })",
  "sep := byte('{')",
  "for _, entry := range entries {",
  "output = append(output, sep)",
  "sep = ','",
  "output = append(output, entry.raw...)",
  "output = append(output, ':')",
  "output = sortJSONValue(entry.value, output)",
  "}",
  "if sep == '{' {",
  "output = append(output, '{', '}')",
  "} else {",
  "output = append(output, '}')",
  "}",
  "return output"
]

def json__sortJSONValue : List String := [
  "func func(input gjson.Result, output []byte) []byte",
  "if input.IsArray() {",
  "return sortJSONArray(input, output)",
  "}",
  "if input.IsObject() {",
  "return sortJSONObject(input, output)",
  "}",
  "return append(output, input.Raw...)"
]

def json__verifyEnforcedCanonicalJSON : List String := [
  "func func(input []byte) error",
  "valid := true",
  "res := gjson.ParseBytes(input)",
  "var iter func(key, value gjson.Result) bool",
  "iter = func(_, value gjson.Result) bool { if value.IsArray() || value.IsObject() { value.ForEach(iter) return true } if value.Num < -9007199254740991 || value.Num > 9007199254740991 { valid = false return false } if value.Type == gjson.Number && strings.ContainsAny(value.Raw, \".eE\") { valid = false return false } if value.Num == 0 && value.Raw == \"-0\" { valid = false return false } return true }",
  "res.ForEach(iter)",
  "if !valid {",
  "return ErrCanonicalJSON",
  "}",
  "return nil"
]

def json_type_EventJSONs : List String := [
  "type EventJSONs []spec.RawJSON"
]

def functions : List String := ["eventversion.go:RoomVersionImpl.CheckCanonicalJSON", "json.go:EventJSONs.TrustedEvents", "json.go:EventJSONs.UntrustedEvents", "json.go:.CanonicalJSON", "json.go:.CanonicalJSONAssumeValid", "json.go:.CompactJSON", "json.go:.EnforcedCanonicalJSON", "json.go:.NewEventJSONsFromEvents", "json.go:.SortJSON", "json.go:.compactUnicodeEscape", "json.go:.noVerifyCanonicalJSON", "json.go:.sortJSONArray", "json.go:.sortJSONObject", "json.go:.sortJSONValue", "json.go:.verifyEnforcedCanonicalJSON", "json.go:type EventJSONs"]

end VPins.C01
