/- PINNED copy of the statement skeletons of the Go functions the C19 model mirrors (written by tools/pin.sh
   when the model was last validated against the code). Compared with the regenerated VGen.SkelC19 in VProps/PinC19.lean. -/
namespace VPins.C19

def eventV2__CheckFields : List String := [
  "func func(input PDU) error",
  "if input.AuthEventIDs() == nil || input.PrevEventIDs() == nil {",
  "return errors.New(\"gomatrixserverlib: auth events and prev events must not be nil\")",
  "}",
  "if l := len(input.JSON()); l > maxEventLength {",
  "return EventValidationError{Code: EventValidationTooLarge, Message: fmt.Sprintf(\"gomatrixserverlib: event is too long, length %d bytes > maximum %d bytes\", l, maxEventLength)}",
  "}",
  "if l := utf8.RuneCountInString(input.Type()); l > maxIDLength {",
  "return EventValidationError{Code: EventValidationTooLarge, Message: fmt.Sprintf(\"gomatrixserverlib: event type is too long, length %d bytes > maximum %d bytes\", l, maxIDLength)}",
  "}",
  "if input.StateKey() != nil {",
  "if l := utf8.RuneCountInString(*input.StateKey()); l > maxIDLength {",
  "return EventValidationError{Code: EventValidationTooLarge, Message: fmt.Sprintf(\"gomatrixserverlib: state key is too long, length %d bytes > maximum %d bytes\", l, maxIDLength)}",
  "}",
  "}",
  "if l := utf8.RuneCountInString(string(input.SenderID())); l > maxIDLength {",
  "return EventValidationError{Code: EventValidationTooLarge, Message: fmt.Sprintf(\"gomatrixserverlib: sender is too long, length %d > maximum %d\", l, maxIDLength)}",
  "}",
  "switch input.Version() {",
  "case RoomVersionPseudoIDs:",
  "default:",
  "if _, err := domainFromID(string(input.SenderID())); err != nil {",
  "return err",
  "}",
  "if id := string(input.SenderID()); id[0] != '@' {",
  "return checkID(id, \"user\", '@')",
  "}",
  "}",
  "_, persistable := lenientByteLimitRoomVersions[input.Version()]",
  "if l := len(input.Type()); l > maxIDLength {",
  "return EventValidationError{Code: EventValidationTooLarge, Message: fmt.Sprintf(\"gomatrixserverlib: event type is too long, length %d bytes > maximum %d bytes\", l, maxIDLength), Persistable: persistable}",
  "}",
  "if input.StateKey() != nil {",
  "if l := len(*input.StateKey()); l > maxIDLength {",
  "return EventValidationError{Code: EventValidationTooLarge, Message: fmt.Sprintf(\"gomatrixserverlib: state key is too long, length %d bytes > maximum %d bytes\", l, maxIDLength), Persistable: persistable}",
  "}",
  "}",
  "if l := len(input.SenderID()); l > maxIDLength {",
  "return EventValidationError{Code: EventValidationTooLarge, Message: fmt.Sprintf(\"gomatrixserverlib: user ID is too long, length %d bytes > maximum %d bytes\", l, maxIDLength), Persistable: true}",
  "}",
  "return nil"
]

def eventV2__newEventFromTrustedJSONV2 : List String := [
  "func func(eventJSON []byte, redacted bool, roomVersion IRoomVersion) (PDU, error)",
  "res := eventV2{}",
  "if err := json.Unmarshal(eventJSON, &res); err != nil {",
  "return nil, err",
  "}",
  "if err := checkRoomIDField(res.eventFields.RoomID); err != nil {",
  "return nil, err",
  "}",
  "res.roomVersion = roomVersion.Version()",
  "res.redacted = redacted",
  "res.eventJSON = eventJSON",
  "res.EventIDRaw = \"\"",
  "if err := res.populateEventID(roomVersion); err != nil {",
  "return nil, err",
  "}",
  "return &res, nil"
]

def eventV2__newEventFromTrustedJSONWithEventIDV2 : List String := [
  "func func(eventID string, eventJSON []byte, redacted bool, roomVersion IRoomVersion) (PDU, error)",
  "res := &eventV2{}",
  "if err := json.Unmarshal(eventJSON, res); err != nil {",
  "return nil, err",
  "}",
  "if err := checkRoomIDField(res.eventFields.RoomID); err != nil {",
  "return nil, err",
  "}",
  "res.roomVersion = roomVersion.Version()",
  "res.eventJSON = eventJSON",
  "res.EventIDRaw = eventID",
  "res.redacted = redacted",
  "return res, nil"
]

def eventV2__newEventFromUntrustedJSONV2 : List String := [
  "func func(eventJSON []byte, roomVersion IRoomVersion) (PDU, error)",
  "if r := gjson.GetBytes(eventJSON, \"_*\"); r.Exists() {",
  "return nil, fmt.Errorf(\"gomatrixserverlib NewEventFromUntrustedJSON: found top-level '_' key, is this a headered event: %v\", string(eventJSON))",
  "}",
  "if err := roomVersion.CheckCanonicalJSON(eventJSON); err != nil {",
  "return nil, BadJSONError{err}",
  "}",
  "if err := checkUntrustedEventJSON(eventJSON); err != nil {",
  "return nil, err",
  "}",
  "res := &eventV2{}",
  "var err error",
  "for _, key := range []string{\"outlier\", \"destinations\", \"age_ts\", \"unsigned\", \"event_id\"} {",
  "if eventJSON, err = sjson.DeleteBytes(eventJSON, key); err != nil {",
  "return nil, err",
  "}",
  "}",
  "if err = json.Unmarshal(eventJSON, res); err != nil {",
  "return nil, err",
  "}",
  "res.EventIDRaw = \"\"",
  "if err := checkRoomIDField(res.eventFields.RoomID); err != nil {",
  "return nil, err",
  "}",
  "res.roomVersion = roomVersion.Version()",
  "eventJSON = CanonicalJSONAssumeValid(eventJSON)",
  "if l := len(eventJSON); l > maxEventLength {",
  "return nil, EventValidationError{Code: EventValidationTooLarge, Message: fmt.Sprintf(\"gomatrixserverlib: event is too long, length %d bytes > maximum %d bytes\", l, maxEventLength)}",
  "}",
  "res.eventJSON = eventJSON",
  "if err = checkEventContentHash(eventJSON); err != nil {",
  "res.redacted = true",
  "var redactedJSON []byte",
  "if redactedJSON, err = roomVersion.RedactEventJSON(eventJSON); err != nil {",
  "return nil, err",
  "}",
  "if redactedJSON, err = sjson.DeleteBytes(redactedJSON, \"event_id\"); err != nil {",
  "return nil, err",
  "}",
  "redactedJSON = CanonicalJSONAssumeValid(redactedJSON)",
  "if !bytes.Equal(redactedJSON, eventJSON) {",
  "result, err := roomVersion.NewEventFromTrustedJSON(redactedJSON, true)",
  "if err != nil {",
  "return nil, err",
  "}",
  "err = CheckFields(result)",
  "return result, err",
  "}",
  "}",
  "if err = res.populateEventID(roomVersion); err != nil {",
  "return nil, err",
  "}",
  "err = CheckFields(res)",
  "return res, err"
]

def eventV2_eventV2_AuthEventIDs : List String := [
  "func func() []string",
  "return e.AuthEvents"
]

def eventV2_eventV2_EventID : List String := [
  "func func() string",
  "if e.EventIDRaw != \"\" {",
  "return e.EventIDRaw",
  "}",
  "ref, err := referenceOfEvent(e.eventJSON, e.roomVersion)",
  "if err != nil {",
  "panic(fmt.Errorf(\"failed to generate reference of event: %w\", err))",
  "}",
  "return ref.EventID"
]

def eventV2_eventV2_MarshalJSON : List String := [
  "func func() ([]byte, error)",
  "if e.eventJSON == nil {",
  "return nil, fmt.Errorf(\"gomatrixserverlib: cannot serialise uninitialised Event\")",
  "}",
  "return e.eventJSON, nil"
]

def eventV2_eventV2_PrevEventIDs : List String := [
  "func func() []string",
  "return e.PrevEvents"
]

def eventV2_eventV2_Redact : List String := [
  "func func()",
  "if e.redacted {",
  "return",
  "}",
  "verImpl, err := GetRoomVersion(e.roomVersion)",
  "if err != nil {",
  "panic(fmt.Errorf(\"gomatrixserverlib: invalid event %v\", err))",
  "}",
  "eventJSON, err := verImpl.RedactEventJSON(e.eventJSON)",
  "if err != nil {",
  "panic(fmt.Errorf(\"gomatrixserverlib: invalid event %v\", err))",
  "}",
  "if eventJSON, err = EnforcedCanonicalJSON(eventJSON, e.roomVersion); err != nil {",
  "panic(fmt.Errorf(\"gomatrixserverlib: invalid event %v\", err))",
  "}",
  "var res eventV2",
  "err = json.Unmarshal(eventJSON, &res)",
  "if err != nil {",
  "panic(fmt.Errorf(\"gomatrixserverlib: Redact failed %v\", err))",
  "}",
  "res.redacted = true",
  "res.eventJSON = eventJSON",
  "res.roomVersion = e.roomVersion",
  "if res.EventIDRaw == \"\" {",
  "res.EventIDRaw = e.EventIDRaw",
  "}",
  "*e = res"
]

def eventV2_eventV2_SenderID : List String := [
  "func func() spec.SenderID",
  "return spec.SenderID(e.eventFields.SenderID)"
]

def eventV2_eventV2_SetUnsigned : List String := [
  "func func(unsigned interface{}) (PDU, error)",
  "var eventAsMap map[string]spec.RawJSON",
  "var err error",
  "if err = json.Unmarshal(e.eventJSON, &eventAsMap); err != nil {",
  "return nil, err",
  "}",
  "unsignedJSON, err := json.Marshal(unsigned)",
  "if err != nil {",
  "return nil, err",
  "}",
  "eventAsMap[\"unsigned\"] = unsignedJSON",
  "eventJSON, err := json.Marshal(eventAsMap)",
  "if err != nil {",
  "return nil, err",
  "}",
  "if eventJSON, err = EnforcedCanonicalJSON(eventJSON, e.roomVersion); err != nil {",
  "return nil, err",
  "}",
  "result := *e",
  "result.eventJSON = eventJSON",
  "result.eventFields.Unsigned = unsignedJSON",
  "return &result, nil"
]

def eventV2_eventV2_Sign : List String := [
  "func func(signingName string, keyID KeyID, privateKey ed25519.PrivateKey) PDU",
  "eventJSON, err := signEvent(signingName, keyID, privateKey, signableEventJSON(e.eventJSON), e.roomVersion)",
  "if err != nil {",
  "panic(fmt.Errorf(\"gomatrixserverlib: invalid event %v (%q)\", err, string(e.eventJSON)))",
  "}",
  "if eventJSON, err = EnforcedCanonicalJSON(eventJSON, e.roomVersion); err != nil {",
  "panic(fmt.Errorf(\"gomatrixserverlib: invalid event %v (%q)\", err, string(e.eventJSON)))",
  "}",
  "result := *e",
  "result.eventJSON = eventJSON",
  "return &result"
]

def eventV2_eventV2_populateEventID : List String := [
  "func func(verImpl IRoomVersion) error",
  "if e.EventIDRaw != \"\" {",
  "return nil",
  "}",
  "ref, err := referenceOfEventForVersion(e.eventJSON, verImpl)",
  "if err != nil {",
  "return fmt.Errorf(\"failed to generate reference of event: %w\", err)",
  "}",
  "e.EventIDRaw = ref.EventID",
  "return nil"
]

def eventV2_type_eventV2 : List String := [
  "type eventV2 struct { eventV1 PrevEvents []string `json:\"prev_events\"` AuthEvents []string `json:\"auth_events\"` }"
]

def fclient_client_Client_CreateMediaDownloadRequest : List String := [
  "func func(ctx context.Context, matrixServer spec.ServerName, mediaID string) (*http.Response, error)",
  "requestURL := \"matrix://\" + string(matrixServer) + \"/_matrix/media/v3/download/\" + string(matrixServer) + \"/\" + mediaID + \"?allow_remote=false\"",
  "req, err := http.NewRequest(\"GET\", requestURL, nil)",
  "if err != nil {",
  "return nil, err",
  "}",
  "return fc.DoHTTPRequest(ctx, req)"
]

def fclient_client_Client_DoHTTPRequest : List String := [
  "func func(ctx context.Context, req *http.Request) (*http.Response, error)",
  "reqID := util.RandomString(12)",
  "logger := util.GetLogger(ctx).WithFields(logrus.Fields{\"out.req.ID\": reqID, \"out.req.method\": req.Method, \"out.req.uri\": req.URL})",
  "logger.Trace(\"Outgoing request\")",
  "newCtx := util.ContextWithLogger(ctx, logger)",
  "if fc.userAgent != \"\" {",
  "req.Header.Set(\"User-Agent\", fc.userAgent)",
  "}",
  "start := time.Now()",
  "resp, err := fc.client.Do(req.WithContext(newCtx))",
  "if err != nil {",
  "logger.WithContext(ctx).WithField(\"error\", err).Debug(\"Outgoing request failed\")",
  "return nil, err",
  "}",
  "logger.WithFields(logrus.Fields{\"out.req.code\": resp.StatusCode, \"out.req.duration_ms\": int(time.Since(start) / time.Millisecond)}).Trace(\"Outgoing request returned\")",
  "return resp, nil"
]

def fclient_client_Client_DoRequestAndParseResponse : List String := [
  "func func(ctx context.Context, req *http.Request, result interface{}) error",
  "response, err := fc.DoHTTPRequest(ctx, req)",
  "if response != nil {",
  "defer response.Body.Close()",
  "}",
  "if err != nil {",
  "return err",
  "}",
  "if response.StatusCode/100 != 2 {",
  "var contents []byte",
  "contents, err = io.ReadAll(response.Body)",
  "if err != nil {",
  "return err",
  "}",
  "var wrap error",
  "var respErr gomatrix.RespError",
  "if _ = json.Unmarshal(contents, &respErr); respErr.ErrCode != \"\" {",
  "wrap = respErr",
  "}",
  "msg := fmt.Sprintf(\"Failed to %s JSON (hostname %q path %q)\", req.Method, req.Host, req.URL.Path)",
  "if wrap == nil {",
  "msg += \": \" + string(contents)",
  "}",
  "return gomatrix.HTTPError{Code: response.StatusCode, Message: msg, WrappedError: wrap, Contents: contents}",
  "}",
  "if err = json.NewDecoder(response.Body).Decode(result); err != nil {",
  "return err",
  "}",
  "return nil"
]

def fclient_client_Client_GetServerKeys : List String := [
  "func func(ctx context.Context, matrixServer spec.ServerName) (gomatrixserverlib.ServerKeys, error)",
  "url := url.URL{Scheme: \"matrix\", Host: string(matrixServer), Path: \"/_matrix/key/v2/server\"}",
  "var body gomatrixserverlib.ServerKeys",
  "req, err := http.NewRequest(\"GET\", url.String(), nil)",
  "if err != nil {",
  "return body, err",
  "}",
  "err = fc.DoRequestAndParseResponse(ctx, req, &body)",
  "return body, err"
]

def fclient_client_Client_GetVersion : List String := [
  "func func(ctx context.Context, s spec.ServerName) (res Version, err error)",
  "url := url.URL{Scheme: \"matrix\", Host: string(s), Path: \"/_matrix/federation/v1/version\"}",
  "req, err := http.NewRequest(\"GET\", url.String(), nil)",
  "if err != nil {",
  "return",
  "}",
  "err = fc.DoRequestAndParseResponse(ctx, req, &res)",
  "return"
]

def fclient_client_Client_LookupServerKeys : List String := [
  "func func(ctx context.Context, matrixServer spec.ServerName, keyRequests map[gomatrixserverlib.PublicKeyLookupRequest]spec.Timestamp) ([]gomatrixserverlib.ServerKeys, error)",
  "url := url.URL{Scheme: \"matrix\", Host: string(matrixServer), Path: \"/_matrix/key/v2/query\"}",
  "type keyreq struct { MinimumValidUntilTS spec.Timestamp `json:\"minimum_valid_until_ts\"` }",
  "request := struct { ServerKeyMap map[spec.ServerName]map[gomatrixserverlib.KeyID]keyreq `json:\"server_keys\"` }{map[spec.ServerName]map[gomatrixserverlib.KeyID]keyreq{}}",
  "for k, ts := range keyRequests {",
  "server := request.ServerKeyMap[k.ServerName]",
  "if server == nil {",
  "server = map[gomatrixserverlib.KeyID]keyreq{}",
  "request.ServerKeyMap[k.ServerName] = server",
  "}",
  "if k.KeyID != \"\" {",
  "server[k.KeyID] = keyreq{ts}",
  "}",
  "}",
  "requestBytes, err := json.Marshal(request)",
  "if err != nil {",
  "return nil, err",
  "}",
  "var body struct { ServerKeyList []json.RawMessage `json:\"server_keys\"` }",
  "var res struct { ServerKeyList []gomatrixserverlib.ServerKeys }",
  "req, err := http.NewRequest(\"POST\", url.String(), bytes.NewBuffer(requestBytes))",
  "if err != nil {",
  "return nil, err",
  "}",
  "req.Header.Add(\"Content-Type\", \"application/json\")",
  "err = fc.DoRequestAndParseResponse(ctx, req, &body)",
  "if err != nil {",
  "return nil, err",
  "}",
  "for _, field := range body.ServerKeyList {",
  "var keys gomatrixserverlib.ServerKeys",
  "if err := json.Unmarshal(field, &keys); err == nil {",
  "res.ServerKeyList = append(res.ServerKeyList, keys)",
  "}",
  "}",
  "return res.ServerKeyList, nil"
]

def fclient_client_Client_LookupUserInfo : List String := [
  "func func(ctx context.Context, matrixServer spec.ServerName, token string) (u UserInfo, err error)",
  "url := url.URL{Scheme: \"matrix\", Host: string(matrixServer), Path: \"/_matrix/federation/v1/openid/userinfo\", RawQuery: url.Values{\"access_token\": []string{token}}.Encode()}",
  "req, err := http.NewRequest(\"GET\", url.String(), nil)",
  "if err != nil {",
  "return",
  "}",
  "var response *http.Response",
  "response, err = fc.DoHTTPRequest(ctx, req)",
  "if response != nil {",
  "defer response.Body.Close()",
  "}",
  "if err != nil {",
  "return",
  "}",
  "if response.StatusCode < 200 || response.StatusCode >= 300 {",
  "var errorOutput []byte",
  "errorOutput, err = io.ReadAll(response.Body)",
  "if err != nil {",
  "return",
  "}",
  "err = fmt.Errorf(\"HTTP %d : %s\", response.StatusCode, errorOutput)",
  "return",
  "}",
  "err = json.NewDecoder(response.Body).Decode(&u)",
  "if err != nil {",
  "return",
  "}",
  "userParts := strings.SplitN(u.Sub, \":\", 2)",
  "if len(userParts) != 2 || userParts[1] != string(matrixServer) {",
  "err = fmt.Errorf(\"userID doesn't match server name '%v' != '%v'\", u.Sub, matrixServer)",
  "return",
  "}",
  "return"
]

def fclient_client_Client_SetUserAgent : List String := [
  "func func(ua string)",
  "fc.userAgent = ua"
]

def fclient_client__NewClient : List String := [
  "func func(options ...ClientOption) *Client",
  "clientOpts := &clientOptions{timeout: requestTimeout}",
  "for _, option := range options {",
  "option(clientOpts)",
  "}",
  "if clientOpts.transport == nil {",
  "clientOpts.transport = newDestinationTripper(clientOpts.skipVerify, clientOpts.dnsCache, clientOpts.keepAlives, clientOpts.wellKnownSRV, clientOpts.allowNetworks, clientOpts.denyNetworks)",
  "}",
  "client := &Client{client: http.Client{Transport: clientOpts.transport, Timeout: clientOpts.timeout}, userAgent: clientOpts.userAgent}",
  "return client"
]

def fclient_client__WithAllowDenyNetworks : List String := [
  "func func(allowCIDRs []string, denyCIDRs []string) ClientOption",
  "return func(options *clientOptions) { options.allowNetworks = allowCIDRs options.denyNetworks = denyCIDRs }"
]

def fclient_client__WithDNSCache : List String := [
  "func func(cache *DNSCache) ClientOption",
  "return func(options *clientOptions) { options.dnsCache = cache }"
]

def fclient_client__WithKeepAlives : List String := [
  "func func(keepAlives bool) ClientOption",
  "return func(options *clientOptions) { options.keepAlives = keepAlives }"
]

def fclient_client__WithSkipVerify : List String := [
  "func func(skipVerify bool) ClientOption",
  "return func(options *clientOptions) { options.skipVerify = skipVerify }"
]

def fclient_client__WithTimeout : List String := [
  "func func(duration time.Duration) ClientOption",
  "return func(options *clientOptions) { options.timeout = duration }"
]

def fclient_client__WithTransport : List String := [
  "func func(transport http.RoundTripper) ClientOption",
  "return func(options *clientOptions) { options.transport = transport }"
]

def fclient_client__WithUserAgent : List String := [
  "func func(userAgent string) ClientOption",
  "return func(options *clientOptions) { options.userAgent = userAgent }"
]

def fclient_client__WithWellKnownSRVLookups : List String := [
  "func func(wellKnownSRV bool) ClientOption",
  "return func(options *clientOptions) { options.wellKnownSRV = wellKnownSRV }"
]

def fclient_client__allowDenyNetworksControl : List String := [
  "func func(allowNetworks, denyNetworks []string) func(_ context.Context, network string, address string, conn syscall.RawConn) error",
  "return func(_ context.Context, network string, address string, conn syscall.RawConn) error { if network != \"tcp4\" && network != \"tcp6\" { return fmt.Errorf(\"%s is not a safe network type\", network) } host, _, err := net.SplitHostPort(address) if err != nil { return fmt.Errorf(\"%s is not a valid host/port pair: %s\", address, err) } ipaddress := net.ParseIP(host) if ipaddress == nil { return fmt.Errorf(\"%s is not a valid IP address\", host) } if !isAllowed(ipaddress, allowNetworks, denyNetworks) { return fmt.Errorf(\"%s is denied\", address) } return nil }"
]

def fclient_client__inRange : List String := [
  "func func(ip net.IP, CIDRs []string) bool",
  "for i := 0; i < len(CIDRs); i++ {",
  "cidr := CIDRs[i]",
  "_, network, err := net.ParseCIDR(cidr)",
  "if err != nil {",
  "continue",
  "}",
  "if network.Contains(ip) {",
  "return true",
  "}",
  "}",
  "return false"
]

def fclient_client__isAllowed : List String := [
  "func func(ip net.IP, allowCIDRs []string, denyCIDRs []string) bool",
  "if inRange(ip, denyCIDRs) {",
  "return false",
  "}",
  "if inRange(ip, allowCIDRs) {",
  "return true",
  "}",
  "return false"
]

def fclient_client__makeHTTPSURL : List String := [
  "func func(u *url.URL, addr string) (httpsURL url.URL)",
  "httpsURL = *u",
  "httpsURL.Scheme = \"https\"",
  "httpsURL.Host = addr",
  "return"
]

def fclient_client__newDestinationTripper : List String := [
  "func func(skipVerify bool, dnsCache *DNSCache, keepAlives, wellKnownSRV bool, allowCIDRs []string, denyCIDRs []string) *destinationTripper",
  "tripper := &destinationTripper{transports: make(map[string]*destinationTripperTransport), skipVerify: skipVerify, dnsCache: dnsCache, keepAlives: keepAlives, wellKnownSRV: wellKnownSRV, dialer: newDestinationTripperDialer(allowCIDRs, denyCIDRs)}",
  "time.AfterFunc(destinationTripperReapInterval, tripper.reaper)",
  "return tripper"
]

def fclient_client__newDestinationTripperDialer : List String := [
  "func func(allowNetworks []string, denyNetworks []string) *net.Dialer",
  "if len(allowNetworks) == 0 && len(denyNetworks) == 0 {",
  "return &net.Dialer{Timeout: time.Second * 5}",
  "}",
  "return &net.Dialer{Timeout: time.Second * 5, ControlContext: allowDenyNetworksControl(allowNetworks, denyNetworks)}"
]

def fclient_client_destinationTripper_RoundTrip : List String := [
  "func func(r *http.Request) (*http.Response, error)",
  "var err error",
  "serverName := spec.ServerName(r.URL.Host)",
  "resolutionRetried := false",
  "resolutionResults := []ResolutionResult{}",
  "retryResolution: if f.wellKnownSRV { if cached, ok := f.resolutionCache.Load(serverName); ok { if results, ok := cached.([]ResolutionResult); ok { resolutionResults = results } } if len(resolutionResults) == 0 { ctx := withWellKnownTransport(r.Context(), f.wellKnownTransport()) resolutionResults, err = ResolveServer(ctx, serverName) if err != nil { return nil, err } f.resolutionCache.Store(serverName, resolutionResults) } } else { resolutionResults = append(resolutionResults, ResolutionResult{Destination: r.URL.Host, Host: spec.ServerName(r.Host), TLSServerName: r.Host}) }",
  "if len(resolutionResults) == 0 {",
  "return nil, fmt.Errorf(\"no address found for matrix host %v\", serverName)",
  "}",
  "var resp *http.Response",
  "for _, result := range resolutionResults {",
  "u := makeHTTPSURL(r.URL, result.Destination)",
  "r.URL = &u",
  "r.Host = string(result.Host)",
  "resp, err = f.getTransport(result.TLSServerName, f.dialer).RoundTrip(r)",
  "if err == nil {",
  "return resp, nil",
  "}",
  "util.GetLogger(r.Context()).Debugf(\"Error sending request to %s: %v\", u.String(), err)",
  "}",
  "f.resolutionCache.Delete(serverName)",
  "if !resolutionRetried {",
  "resolutionRetried = true",
  "goto retryResolution",
  "}",
  "return nil, err"
]

def fclient_client_destinationTripper_getTransport : List String := [
  "func func(tlsServerName string, dialer *net.Dialer) http.RoundTripper",
  "f.transportsMutex.Lock()",
  "defer f.transportsMutex.Unlock()",
  "transport, ok := f.transports[tlsServerName]",
  "if !ok {",
  "tr := &destinationTripperTransport{Transport: &http.Transport{DisableKeepAlives: !f.keepAlives, MaxIdleConnsPerHost: 1, IdleConnTimeout: destinationTripperLifetime, TLSClientConfig: &tls.Config{ServerName: tlsServerName, InsecureSkipVerify: f.skipVerify, ClientSessionCache: tls.NewLRUClientSessionCache(0)}, Dial: dialer.Dial, DialContext: dialer.DialContext, Proxy: http.ProxyFromEnvironment, ForceAttemptHTTP2: true}}",
  "if f.dnsCache != nil {",
  "tr.DialContext = f.dnsCache.dialContextVia(dialer)",
  "}",
  "transport, f.transports[tlsServerName] = tr, tr",
  "}",
  "transport.lastUsed.Store(time.Now())",
  "return transport"
]

def fclient_client_destinationTripper_reaper : List String := [
  "func func()",
  "f.transportsMutex.Lock()",
  "defer f.transportsMutex.Unlock()",
  "for serverName, transport := range f.transports {",
  "since := transport.lastUsed.Load().(time.Time)",
  "if time.Since(since) > destinationTripperLifetime {",
  "delete(f.transports, serverName)",
  "}",
  "}",
  "time.AfterFunc(destinationTripperReapInterval, f.reaper)"
]

def fclient_client_destinationTripper_wellKnownTransport : List String := [
  "func func() http.RoundTripper",
  "if f.dialer.ControlContext == nil && f.dnsCache == nil {",
  "return nil",
  "}",
  "f.transportsMutex.Lock()",
  "defer f.transportsMutex.Unlock()",
  "if f.wellKnown == nil {",
  "var tr *http.Transport",
  "if def, ok := http.DefaultTransport.(*http.Transport); ok {",
  "tr = def.Clone()",
  "} else {",
  "tr = &http.Transport{Proxy: http.ProxyFromEnvironment}",
  "}",
  "tr.DialContext = f.dialer.DialContext",
  "if f.dnsCache != nil {",
  "tr.DialContext = f.dnsCache.dialContextVia(f.dialer)",
  "}",
  "tr.DialTLSContext = nil",
  "tr.Dial, tr.DialTLS = nil, nil",
  "f.wellKnown = tr",
  "}",
  "return f.wellKnown"
]

def fclient_client_type_Client : List String := [
  "type Client struct { client http.Client userAgent string }"
]

def fclient_client_type_ClientOption : List String := [
  "type ClientOption func(*clientOptions)"
]

def fclient_client_type_UserInfo : List String := [
  "type UserInfo struct { Sub string `json:\"sub\"` }"
]

def fclient_client_type_clientOptions : List String := [
  "type clientOptions struct { transport http.RoundTripper dnsCache *DNSCache timeout time.Duration skipVerify bool keepAlives bool wellKnownSRV bool userAgent string allowNetworks []string denyNetworks []string }"
]

def fclient_client_type_destinationTripper : List String := [
  "type destinationTripper struct { transports map[string]*destinationTripperTransport transportsMutex sync.Mutex skipVerify bool resolutionCache sync.Map dnsCache *DNSCache keepAlives bool wellKnownSRV bool dialer *net.Dialer wellKnown *http.Transport }"
]

def fclient_client_type_destinationTripperTransport : List String := [
  "type destinationTripperTransport struct { *http.Transport lastUsed atomic.Value }"
]

def fclient_dnscache_DNSCache_DialContext : List String := [
  "func func(ctx context.Context, network, address string) (net.Conn, error)",
  "return c.dialContext(ctx, &c.dialer, address)"
]

def fclient_dnscache_DNSCache_dialContext : List String := [
  "func func(ctx context.Context, dialer *net.Dialer, address string) (net.Conn, error)",
  "host, port, err := net.SplitHostPort(address)",
  "if err != nil {",
  "return nil, fmt.Errorf(\"net.SplitHostPort: %w\", err)",
  "}",
  "retried := false",
  "retryLookup: entry, cached := c.lookup(ctx, host)",
  "if entry == nil {",
  "return nil, fmt.Errorf(\"lookup failed for %q\", host)",
  "}",
  "for _, addr := range entry.addrs {",
  "conn, err := dialer.DialContext(ctx, \"tcp\", net.JoinHostPort(addr.String(), port))",
  "if err != nil {",
  "continue",
  "}",
  "return conn, nil",
  "}",
  "if cached && !retried {",
  "retried = true",
  "c.mutex.Lock()",
  "delete(c.entries, host)",
  "c.mutex.Unlock()",
  "goto retryLookup",
  "}",
  "return nil, fmt.Errorf(\"connection failed to %q via %d addresses\", host, len(entry.addrs))"
]

def fclient_dnscache_DNSCache_dialContextVia : List String := [
  "func func(dialer *net.Dialer) func(ctx context.Context, network, address string) (net.Conn, error)",
  "chained := *dialer",
  "chained.ControlContext = chainControls(c.dialer.ControlContext, dialer.ControlContext)",
  "return func(ctx context.Context, network, address string) (net.Conn, error) { return c.dialContext(ctx, &chained, address) }"
]

def fclient_dnscache_DNSCache_lookup : List String := [
  "func func(ctx context.Context, name string) (*dnsCacheEntry, bool)",
  "c.mutex.Lock()",
  "if entry, ok := c.entries[name]; ok {",
  "if time.Now().Before(entry.expires) {",
  "c.mutex.Unlock()",
  "return entry, true",
  "}",
  "delete(c.entries, name)",
  "}",
  "c.mutex.Unlock()",
  "addrs, err := c.resolver.LookupIPAddr(ctx, name)",
  "if err != nil {",
  "return nil, false",
  "}",
  "if c.size <= 0 {",
  "return &dnsCacheEntry{addrs: addrs, expires: time.Now().Add(c.duration)}, false",
  "}",
  "c.mutex.Lock()",
  "defer c.mutex.Unlock()",
  "for ; len(c.entries) >= c.size;  {",
  "name, ts := \"\", time.Now().Add(c.duration)",
  "for n, e := range c.entries {",
  "if e.expires.Before(ts) {",
  "ts, name = e.expires, n",
  "}",
  "}",
  "delete(c.entries, name)",
  "}",
  "entry := &dnsCacheEntry{addrs: addrs, expires: time.Now().Add(c.duration)}",
  "c.entries[name] = entry",
  "return entry, false"
]

def fclient_dnscache__NewDNSCache : List String := [
  "func func(size int, duration time.Duration, allowNetworks, denyNetworks []string) *DNSCache",
  "return &DNSCache{resolver: net.DefaultResolver, size: size, duration: duration, entries: make(map[string]*dnsCacheEntry), dialer: net.Dialer{ControlContext: allowDenyNetworksControl(allowNetworks, denyNetworks)}}"
]

def fclient_dnscache__chainControls : List String := [
  "func func(controls ...controlFunc) controlFunc",
  "return func(ctx context.Context, network, address string, conn syscall.RawConn) error { for _, control := range controls { if control == nil { continue } if err := control(ctx, network, address, conn); err != nil { return err } } return nil }"
]

def fclient_dnscache_type_DNSCache : List String := [
  "type DNSCache struct { resolver netResolver mutex sync.Mutex size int duration time.Duration entries map[string]*dnsCacheEntry dialer net.Dialer }"
]

def fclient_dnscache_type_controlFunc : List String := [
  "type controlFunc func(ctx context.Context, network, address string, conn syscall.RawConn) error"
]

def fclient_dnscache_type_dnsCacheEntry : List String := [
  "type dnsCacheEntry struct { addrs []net.IPAddr expires time.Time }"
]

def fclient_dnscache_type_netResolver : List String := [
  "type netResolver interface { LookupIPAddr(context.Context, string) ([]net.IPAddr, error) }"
]

def keyring_DirectKeyFetcher_FetchKeys : List String := [
  "func func(ctx context.Context, requests map[PublicKeyLookupRequest]spec.Timestamp) (map[PublicKeyLookupRequest]PublicKeyLookupResult, error)",
  "localServerRequests := []PublicKeyLookupRequest{}",
  "byServer := map[spec.ServerName]map[PublicKeyLookupRequest]spec.Timestamp{}",
  "for req, ts := range requests {",
  "if d.IsLocalServerName(req.ServerName) {",
  "localServerRequests = append(localServerRequests, req)",
  "continue",
  "}",
  "server := byServer[req.ServerName]",
  "if server == nil {",
  "server = map[PublicKeyLookupRequest]spec.Timestamp{}",
  "byServer[req.ServerName] = server",
  "}",
  "server[req] = ts",
  "}",
  "numWorkers := 64",
  "if len(byServer) < numWorkers {",
  "numWorkers = len(byServer)",
  "}",
  "results := map[PublicKeyLookupRequest]PublicKeyLookupResult{}",
  "localKey := &PublicKeyLookupResult{VerifyKey: VerifyKey{Key: d.LocalPublicKey}, ExpiredTS: PublicKeyNotExpired, ValidUntilTS: spec.AsTimestamp(time.Unix(1<<37, 0))}",
  "for _, req := range localServerRequests {",
  "results[req] = *localKey",
  "}",
  "var resultsMutex sync.Mutex",
  "var wait sync.WaitGroup",
  "wait.Add(numWorkers)",
  "pending := make(chan spec.ServerName, len(byServer))",
  "for serverName := range byServer {",
  "pending <- serverName",
  "}",
  "close(pending)",
  "worker := func(ch <-chan spec.ServerName) { defer wait.Done() for server := range ch { serverResults, err := d.fetchKeysForServer(ctx, server) if err != nil { serverResults, err = d.fetchNotaryKeysForServer(ctx, server) if err != nil { continue } } resultsMutex.Lock() for req, keys := range serverResults { results[req] = keys } resultsMutex.Unlock() } }",
  "for i := 0; i < numWorkers; i++ {",
  "go worker(pending)",
  "}",
  "wait.Wait()",
  "return results, nil"
]

def keyring_DirectKeyFetcher_FetcherName : List String := [
  "func func() string",
  "return \"DirectKeyFetcher\""
]

def keyring_DirectKeyFetcher_fetchKeysForServer : List String := [
  "func func(ctx context.Context, serverName spec.ServerName) (map[PublicKeyLookupRequest]PublicKeyLookupResult, error)",
  "ctx, cancel := context.WithTimeout(ctx, time.Second*15)",
  "defer cancel()",
  "keys, err := d.Client.GetServerKeys(ctx, serverName)",
  "if err != nil {",
  "if err != nil {",
  "return nil, err",
  "}",
  "}",
  "checks, _ := CheckKeys(serverName, time.Unix(0, 0), keys)",
  "if !checks.AllChecksOK {",
  "return nil, fmt.Errorf(\"gomatrixserverlib: key response direct from %q failed checks\", serverName)",
  "}",
  "results := map[PublicKeyLookupRequest]PublicKeyLookupResult{}",
  "mapServerKeysToPublicKeyLookupResult(keys, results)",
  "return results, nil"
]

def keyring_DirectKeyFetcher_fetchNotaryKeysForServer : List String := [
  "func func(ctx context.Context, serverName spec.ServerName) (map[PublicKeyLookupRequest]PublicKeyLookupResult, error)",
  "ctx, cancel := context.WithTimeout(ctx, time.Second*15)",
  "defer cancel()",
  "var keys ServerKeys",
  "allKeys, err := d.Client.LookupServerKeys(ctx, serverName, map[PublicKeyLookupRequest]spec.Timestamp{{serverName, \"\"}: spec.AsTimestamp(time.Now())})",
  "if err != nil {",
  "return nil, err",
  "}",
  "found := false",
  "for _, serverKeys := range allKeys {",
  "if serverKeys.ServerName == serverName {",
  "keys = serverKeys",
  "found = true",
  "break",
  "}",
  "}",
  "if !found {",
  "return nil, fmt.Errorf(\"gomatrixserverlib: notary key response contained no results for %q\", serverName)",
  "}",
  "checks, _ := CheckKeys(serverName, time.Unix(0, 0), keys)",
  "if !checks.AllChecksOK {",
  "return nil, fmt.Errorf(\"gomatrixserverlib: notary key response direct from %q failed checks\", serverName)",
  "}",
  "results := map[PublicKeyLookupRequest]PublicKeyLookupResult{}",
  "mapServerKeysToPublicKeyLookupResult(keys, results)",
  "return results, nil"
]

def keyring_JSONVerifierSelf_VerifyJSONs : List String := [
  "func func(ctx context.Context, requests []VerifyJSONRequest) ([]VerifyJSONResult, error)",
  "results := make([]VerifyJSONResult, len(requests))",
  "for i := range requests {",
  "key, err := spec.SenderID(requests[i].ServerName).RawBytes()",
  "if err != nil {",
  "results[i].Error = fmt.Errorf(\"unable to get key from senderID for %s: %w\", requests[i].ServerName, err)",
  "continue",
  "}",
  "if err = VerifyJSON(string(requests[i].ServerName), \"ed25519:1\", ed25519.PublicKey(key), requests[i].Message); err != nil {",
  "results[i].Error = err",
  "continue",
  "}",
  "}",
  "return results, nil"
]

def keyring_KeyRing_VerifyJSONs : List String := [
  "func func(ctx context.Context, requests []VerifyJSONRequest) ([]VerifyJSONResult, error)",
  "logger := util.GetLogger(ctx)",
  "results := make([]VerifyJSONResult, len(requests))",
  "keyIDs := make([][]KeyID, len(requests))",
  "numRequests := len(requests)",
  "for i := range requests {",
  "ids, err := ListKeyIDs(string(requests[i].ServerName), requests[i].Message)",
  "if err != nil {",
  "results[i].Error = fmt.Errorf(\"gomatrixserverlib: error extracting key IDs\")",
  "continue",
  "}",
  "for _, keyID := range ids {",
  "if k.isAlgorithmSupported(keyID) {",
  "keyIDs[i] = append(keyIDs[i], keyID)",
  "}",
  "}",
  "if len(keyIDs[i]) == 0 {",
  "results[i].Error = fmt.Errorf(\"gomatrixserverlib: not signed by %q with a supported algorithm\", requests[i].ServerName)",
  "continue",
  "}",
  "results[i].Error = fmt.Errorf(\"gomatrixserverlib: could not download key for %q\", requests[i].ServerName)",
  "}",
  "keyRequests := k.publicKeyRequests(requests, results, keyIDs)",
  "if len(keyRequests) == 0 {",
  "return results, nil",
  "}",
  "keysFromDatabase, err := k.KeyDatabase.FetchKeys(ctx, keyRequests)",
  "if err != nil {",
  "return nil, err",
  "}",
  "keysFetched := map[PublicKeyLookupRequest]PublicKeyLookupResult{}",
  "keysToStore := map[PublicKeyLookupRequest]PublicKeyLookupResult{}",
  "now := spec.AsTimestamp(time.Now())",
  "for req, res := range keysFromDatabase {",
  "if res.ExpiredTS != PublicKeyNotExpired {",
  "keysFetched[req] = res",
  "delete(keyRequests, req)",
  "continue",
  "}",
  "keysFetched[req] = res",
  "if now < res.ValidUntilTS && res.ExpiredTS == PublicKeyNotExpired {",
  "delete(keyRequests, req)",
  "}",
  "}",
  "if len(keysFetched) == numRequests {",
  "k.checkUsingKeys(requests, results, keyIDs, keysFetched)",
  "errored := false",
  "for _, r := range results {",
  "if r.Error != nil {",
  "errored = true",
  "break",
  "}",
  "}",
  "if !errored {",
  "return results, nil",
  "}",
  "}",
  "for _, fetcher := range k.KeyFetchers {",
  "if len(keyRequests) == 0 {",
  "break",
  "}",
  "fetcherLogger := logger.WithField(\"fetcher\", fetcher.FetcherName())",
  "fetcherLogger.WithField(\"num_key_requests\", len(keyRequests)).Debug(\"Requesting keys from fetcher\")",
  "fetched, err := fetcher.FetchKeys(ctx, keyRequests)",
  "if err != nil {",
  "continue",
  "}",
  "if len(fetched) == 0 {",
  "continue",
  "}",
  "fetcherLogger.WithField(\"num_keys_fetched\", len(fetched)).Debug(\"Got keys from fetcher\")",
  "for req, res := range fetched {",
  "if _, requested := keyRequests[req]; !requested {",
  "if _, have := keysFetched[req]; have {",
  "continue",
  "}",
  "}",
  "keysFetched[req] = res",
  "keysToStore[req] = res",
  "delete(keyRequests, req)",
  "}",
  "}",
  "if len(keyRequests) > 0 {",
  "requestedServers := make([]string, 0, len(keyRequests))",
  "for reqs := range keyRequests {",
  "requestedServers = append(requestedServers, string(reqs.ServerName))",
  "}",
  "logger.WithFields(logrus.Fields{\"servers\": requestedServers, \"fetchers\": len(k.KeyFetchers)}).Warn(\"failed to fetch keys for some servers\")",
  "}",
  "k.checkUsingKeys(requests, results, keyIDs, keysFetched)",
  "if err := k.KeyDatabase.StoreKeys(ctx, keysToStore); err != nil {",
  "return nil, err",
  "}",
  "return results, nil"
]

def keyring_KeyRing_checkUsingKeys : List String := [
  "func func(requests []VerifyJSONRequest, results []VerifyJSONResult, keyIDs [][]KeyID, keys map[PublicKeyLookupRequest]PublicKeyLookupResult)",
  "for i := range requests {",
  "if results[i].Error == nil {",
  "continue",
  "}",
  "for _, keyID := range keyIDs[i] {",
  "serverKey, ok := keys[PublicKeyLookupRequest{requests[i].ServerName, keyID}]",
  "if !ok {",
  "continue",
  "}",
  "if !serverKey.WasValidAt(requests[i].AtTS, requests[i].ValidityCheckingFunc) {",
  "results[i].Error = fmt.Errorf(\"gomatrixserverlib: key with ID %q for %q not valid at %d\", keyID, requests[i].ServerName, requests[i].AtTS)",
  "continue",
  "}",
  "if err := VerifyJSON(string(requests[i].ServerName), keyID, ed25519.PublicKey(serverKey.Key), requests[i].Message); err != nil {",
  "results[i].Error = err",
  "continue",
  "}",
  "results[i].Error = nil",
  "break",
  "}",
  "}"
]

def keyring_KeyRing_isAlgorithmSupported : List String := [
  "func func(keyID KeyID) bool",
  "return strings.HasPrefix(string(keyID), \"ed25519:\")"
]

def keyring_KeyRing_publicKeyRequests : List String := [
  "func func(requests []VerifyJSONRequest, results []VerifyJSONResult, keyIDs [][]KeyID) map[PublicKeyLookupRequest]spec.Timestamp",
  "keyRequests := map[PublicKeyLookupRequest]spec.Timestamp{}",
  "for i := range requests {",
  "if results[i].Error == nil {",
  "continue",
  "}",
  "for _, keyID := range keyIDs[i] {",
  "k := PublicKeyLookupRequest{requests[i].ServerName, keyID}",
  "maxTS := keyRequests[k]",
  "if maxTS <= requests[i].AtTS {",
  "keyRequests[k] = requests[i].AtTS",
  "}",
  "}",
  "}",
  "return keyRequests"
]

def keyring_PerspectiveKeyFetcher_FetchKeys : List String := [
  "func func(ctx context.Context, requests map[PublicKeyLookupRequest]spec.Timestamp) (map[PublicKeyLookupRequest]PublicKeyLookupResult, error)",
  "serverKeys, err := p.Client.LookupServerKeys(ctx, p.PerspectiveServerName, requests)",
  "if err != nil {",
  "return nil, fmt.Errorf(\"gomatrixserverlib: unable to lookup server keys: %w\", err)",
  "}",
  "results := map[PublicKeyLookupRequest]PublicKeyLookupResult{}",
  "for _, keys := range serverKeys {",
  "var valid bool",
  "keyIDs, err := ListKeyIDs(string(p.PerspectiveServerName), keys.Raw)",
  "if err != nil {",
  "return nil, fmt.Errorf(\"gomatrixserverlib: unable to list key IDs: %w\", err)",
  "}",
  "for _, keyID := range keyIDs {",
  "perspectiveKey, ok := p.PerspectiveServerKeys[keyID]",
  "if !ok {",
  "continue",
  "}",
  "if err := VerifyJSON(string(p.PerspectiveServerName), keyID, perspectiveKey, keys.Raw); err != nil {",
  "return nil, fmt.Errorf(\"gomatrixserverlib: unable to verify response: %w\", err)",
  "}",
  "valid = true",
  "break",
  "}",
  "if !valid {",
  "return nil, fmt.Errorf(\"gomatrixserverlib: not signed with a known key for the perspective server\")",
  "}",
  "checks, _ := CheckKeys(keys.ServerName, time.Unix(0, 0), keys)",
  "if !checks.AllChecksOK {",
  "return nil, fmt.Errorf(\"gomatrixserverlib: key response from perspective server failed checks\")",
  "}",
  "mapServerKeysToPublicKeyLookupResult(keys, results)",
  "}",
  "return results, nil"
]

def keyring_PerspectiveKeyFetcher_FetcherName : List String := [
  "func func() string",
  "return fmt.Sprintf(\"perspective server %s\", p.PerspectiveServerName)"
]

def keyring_PublicKeyLookupRequest_MarshalText : List String := [
  "func func() ([]byte, error)",
  "return []byte(fmt.Sprintf(\"%s/%s\", r.ServerName, r.KeyID)), nil"
]

def keyring_PublicKeyLookupRequest_UnmarshalText : List String := [
  "func func(text []byte) error",
  "parts := strings.SplitN(string(text), \"/\", 2)",
  "if len(parts) < 2 {",
  "return errors.New(\"expected at least one / separator in \" + string(text))",
  "}",
  "r.ServerName, r.KeyID = spec.ServerName(parts[0]), KeyID(parts[1])",
  "return nil"
]

def keyring_PublicKeyLookupResult_WasValidAt : List String := [
  "func func(atTs spec.Timestamp, signatureValidityCheck SignatureValidityCheckFunc) bool",
  "if r.ExpiredTS != PublicKeyNotExpired {",
  "return atTs < r.ExpiredTS",
  "}",
  "return signatureValidityCheck(atTs, r.ValidUntilTS)"
]

def keyring__NoStrictValidityCheck : List String := [
  "func func(_, _ spec.Timestamp) bool",
  "return true"
]

def keyring__StrictValiditySignatureCheck : List String := [
  "func func(atTs, validUntil spec.Timestamp) bool",
  "if validUntil == PublicKeyNotValid {",
  "return false",
  "}",
  "sevenDaysFuture := time.Now().Add(time.Hour * 24 * 7)",
  "validUntilTS := validUntil",
  "if sevenDaysFutureTS := spec.AsTimestamp(sevenDaysFuture); validUntilTS > sevenDaysFutureTS {",
  "validUntilTS = sevenDaysFutureTS",
  "}",
  "if atTs > validUntilTS {",
  "return false",
  "}",
  "return true"
]

def keyring__mapServerKeysToPublicKeyLookupResult : List String := [
  "func func(serverKeys ServerKeys, results map[PublicKeyLookupRequest]PublicKeyLookupResult)",
  "for keyID, key := range serverKeys.VerifyKeys {",
  "results[PublicKeyLookupRequest{ServerName: serverKeys.ServerName, KeyID: keyID}] = PublicKeyLookupResult{VerifyKey: key, ValidUntilTS: serverKeys.ValidUntilTS, ExpiredTS: PublicKeyNotExpired}",
  "}",
  "for keyID, key := range serverKeys.OldVerifyKeys {",
  "results[PublicKeyLookupRequest{ServerName: serverKeys.ServerName, KeyID: keyID}] = PublicKeyLookupResult{VerifyKey: key.VerifyKey, ValidUntilTS: PublicKeyNotValid, ExpiredTS: key.ExpiredTS}",
  "}"
]

def keyring_type_DirectKeyFetcher : List String := [
  "type DirectKeyFetcher struct { Client KeyClient IsLocalServerName func(server spec.ServerName) bool LocalPublicKey spec.Base64Bytes }"
]

def keyring_type_JSONVerifier : List String := [
  "type JSONVerifier interface { VerifyJSONs(ctx context.Context, requests []VerifyJSONRequest) ([]VerifyJSONResult, error) }"
]

def keyring_type_JSONVerifierSelf : List String := [
  "type JSONVerifierSelf struct{}"
]

def keyring_type_KeyClient : List String := [
  "type KeyClient interface { GetServerKeys(ctx context.Context, matrixServer spec.ServerName) (ServerKeys, error) LookupServerKeys(ctx context.Context, matrixServer spec.ServerName, keyRequests map[PublicKeyLookupRequest]spec.Timestamp) ([]ServerKeys, error) }"
]

def keyring_type_KeyDatabase : List String := [
  "type KeyDatabase interface { KeyFetcher StoreKeys(ctx context.Context, results map[PublicKeyLookupRequest]PublicKeyLookupResult) error }"
]

def keyring_type_KeyFetcher : List String := [
  "type KeyFetcher interface { FetchKeys(ctx context.Context, requests map[PublicKeyLookupRequest]spec.Timestamp) (map[PublicKeyLookupRequest]PublicKeyLookupResult, error) FetcherName() string }"
]

def keyring_type_KeyRing : List String := [
  "type KeyRing struct { KeyFetchers []KeyFetcher KeyDatabase KeyDatabase }"
]

def keyring_type_PerspectiveKeyFetcher : List String := [
  "type PerspectiveKeyFetcher struct { PerspectiveServerName spec.ServerName PerspectiveServerKeys map[KeyID]ed25519.PublicKey Client KeyClient }"
]

def keyring_type_PublicKeyLookupRequest : List String := [
  "type PublicKeyLookupRequest struct { ServerName spec.ServerName `json:\"server_name\"` KeyID KeyID `json:\"key_id\"` }"
]

def keyring_type_PublicKeyLookupResult : List String := [
  "type PublicKeyLookupResult struct { VerifyKey ExpiredTS spec.Timestamp `json:\"expired_ts\"` ValidUntilTS spec.Timestamp `json:\"valid_until_ts\"` }"
]

def keyring_type_PublicKeyNotaryLookupRequest : List String := [
  "type PublicKeyNotaryLookupRequest struct { ServerKeys map[spec.ServerName]map[KeyID]PublicKeyNotaryQueryCriteria `json:\"server_keys\"` }"
]

def keyring_type_PublicKeyNotaryQueryCriteria : List String := [
  "type PublicKeyNotaryQueryCriteria struct { MinimumValidUntilTS spec.Timestamp `json:\"minimum_valid_until_ts\"` }"
]

def keyring_type_SignatureValidityCheckFunc : List String := [
  "type SignatureValidityCheckFunc func(atTS, validUntil spec.Timestamp) bool"
]

def keyring_type_VerifyJSONRequest : List String := [
  "type VerifyJSONRequest struct { ServerName spec.ServerName AtTS spec.Timestamp Message []byte ValidityCheckingFunc SignatureValidityCheckFunc }"
]

def keyring_type_VerifyJSONResult : List String := [
  "type VerifyJSONResult struct{ Error error }"
]

def functions : List String := ["eventV2.go:.CheckFields", "eventV2.go:.newEventFromTrustedJSONV2", "eventV2.go:.newEventFromTrustedJSONWithEventIDV2", "eventV2.go:.newEventFromUntrustedJSONV2", "eventV2.go:eventV2.AuthEventIDs", "eventV2.go:eventV2.EventID", "eventV2.go:eventV2.MarshalJSON", "eventV2.go:eventV2.PrevEventIDs", "eventV2.go:eventV2.Redact", "eventV2.go:eventV2.SenderID", "eventV2.go:eventV2.SetUnsigned", "eventV2.go:eventV2.Sign", "eventV2.go:eventV2.populateEventID", "eventV2.go:type eventV2", "fclient/client.go:Client.CreateMediaDownloadRequest", "fclient/client.go:Client.DoHTTPRequest", "fclient/client.go:Client.DoRequestAndParseResponse", "fclient/client.go:Client.GetServerKeys", "fclient/client.go:Client.GetVersion", "fclient/client.go:Client.LookupServerKeys", "fclient/client.go:Client.LookupUserInfo", "fclient/client.go:Client.SetUserAgent", "fclient/client.go:.NewClient", "fclient/client.go:.WithAllowDenyNetworks", "fclient/client.go:.WithDNSCache", "fclient/client.go:.WithKeepAlives", "fclient/client.go:.WithSkipVerify", "fclient/client.go:.WithTimeout", "fclient/client.go:.WithTransport", "fclient/client.go:.WithUserAgent", "fclient/client.go:.WithWellKnownSRVLookups", "fclient/client.go:.allowDenyNetworksControl", "fclient/client.go:.inRange", "fclient/client.go:.isAllowed", "fclient/client.go:.makeHTTPSURL", "fclient/client.go:.newDestinationTripper", "fclient/client.go:.newDestinationTripperDialer", "fclient/client.go:destinationTripper.RoundTrip", "fclient/client.go:destinationTripper.getTransport", "fclient/client.go:destinationTripper.reaper", "fclient/client.go:destinationTripper.wellKnownTransport", "fclient/client.go:type Client", "fclient/client.go:type ClientOption", "fclient/client.go:type UserInfo", "fclient/client.go:type clientOptions", "fclient/client.go:type destinationTripper", "fclient/client.go:type destinationTripperTransport", "fclient/dnscache.go:DNSCache.DialContext", "fclient/dnscache.go:DNSCache.dialContext", "fclient/dnscache.go:DNSCache.dialContextVia", "fclient/dnscache.go:DNSCache.lookup", "fclient/dnscache.go:.NewDNSCache", "fclient/dnscache.go:.chainControls", "fclient/dnscache.go:type DNSCache", "fclient/dnscache.go:type controlFunc", "fclient/dnscache.go:type dnsCacheEntry", "fclient/dnscache.go:type netResolver", "keyring.go:DirectKeyFetcher.FetchKeys", "keyring.go:DirectKeyFetcher.FetcherName", "keyring.go:DirectKeyFetcher.fetchKeysForServer", "keyring.go:DirectKeyFetcher.fetchNotaryKeysForServer", "keyring.go:JSONVerifierSelf.VerifyJSONs", "keyring.go:KeyRing.VerifyJSONs", "keyring.go:KeyRing.checkUsingKeys", "keyring.go:KeyRing.isAlgorithmSupported", "keyring.go:KeyRing.publicKeyRequests", "keyring.go:PerspectiveKeyFetcher.FetchKeys", "keyring.go:PerspectiveKeyFetcher.FetcherName", "keyring.go:PublicKeyLookupRequest.MarshalText", "keyring.go:PublicKeyLookupRequest.UnmarshalText", "keyring.go:PublicKeyLookupResult.WasValidAt", "keyring.go:.NoStrictValidityCheck", "keyring.go:.StrictValiditySignatureCheck", "keyring.go:.mapServerKeysToPublicKeyLookupResult", "keyring.go:type DirectKeyFetcher", "keyring.go:type JSONVerifier", "keyring.go:type JSONVerifierSelf", "keyring.go:type KeyClient", "keyring.go:type KeyDatabase", "keyring.go:type KeyFetcher", "keyring.go:type KeyRing", "keyring.go:type PerspectiveKeyFetcher", "keyring.go:type PublicKeyLookupRequest", "keyring.go:type PublicKeyLookupResult", "keyring.go:type PublicKeyNotaryLookupRequest", "keyring.go:type PublicKeyNotaryQueryCriteria", "keyring.go:type SignatureValidityCheckFunc", "keyring.go:type VerifyJSONRequest", "keyring.go:type VerifyJSONResult"]

end VPins.C19
