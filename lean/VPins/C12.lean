/- PINNED copy of the statement skeletons of the Go functions the C12 model mirrors (written by tools/pin.sh
   when the model was last validated against the code). Compared with the regenerated VGen.SkelC12 in VProps/PinC12.lean. -/
namespace VPins.C12

def keyring_DirectKeyFetcher_FetchKeys : List String := [
  "func func(ctx context.Context, requests map[PublicKeyLookupRequest]spec.Timestamp) (map[PublicKeyLookupRequest]PublicKeyLookupResult, error)",
  "localServerRequests := []PublicKeyLookupRequest{}",
  "byServer := map[spec.ServerName]map[PublicKeyLookupRequest]spec.Timestamp{}",
  "for req, ts := range requests {",
  "if d.IsLocalServerName(req.ServerName) {",
  "localServerRequests = append(localServerRequests, req)",
  "continue",
  "}",
  "server := byServer[req.ServerName]",
  "if server == nil {",
  "server = map[PublicKeyLookupRequest]spec.Timestamp{}",
  "byServer[req.ServerName] = server",
  "}",
  "server[req] = ts",
  "}",
  "numWorkers := 64",
  "if len(byServer) < numWorkers {",
  "numWorkers = len(byServer)",
  "}",
  "results := map[PublicKeyLookupRequest]PublicKeyLookupResult{}",
  "localKey := &PublicKeyLookupResult{VerifyKey: VerifyKey{Key: d.LocalPublicKey}, ExpiredTS: PublicKeyNotExpired, ValidUntilTS: spec.AsTimestamp(time.Unix(1<<37, 0))}",
  "for _, req := range localServerRequests {",
  "results[req] = *localKey",
  "}",
  "var resultsMutex sync.Mutex",
  "var wait sync.WaitGroup",
  "wait.Add(numWorkers)",
  "pending := make(chan spec.ServerName, len(byServer))",
  "for serverName := range byServer {",
  "pending <- serverName",
  "}",
  "close(pending)",
  "worker := func(ch <-chan spec.ServerName) { defer wait.Done() for server := range ch { serverResults, err := d.fetchKeysForServer(ctx, server) if err != nil { serverResults, err = d.fetchNotaryKeysForServer(ctx, server) if err != nil { continue } } resultsMutex.Lock() for req, keys := range serverResults { results[req] = keys } resultsMutex.Unlock() } }",
  "for i := 0; i < numWorkers; i++ {",
  "go worker(pending)",
  "}",
  "wait.Wait()",
  "return results, nil"
]

def keyring_DirectKeyFetcher_FetcherName : List String := [
  "func func() string",
  "return \"DirectKeyFetcher\""
]

def keyring_DirectKeyFetcher_fetchKeysForServer : List String := [
  "func func(ctx context.Context, serverName spec.ServerName) (map[PublicKeyLookupRequest]PublicKeyLookupResult, error)",
  "ctx, cancel := context.WithTimeout(ctx, time.Second*15)",
  "defer cancel()",
  "keys, err := d.Client.GetServerKeys(ctx, serverName)",
  "if err != nil {",
  "if err != nil {",
  "return nil, err",
  "}",
  "}",
  "checks, _ := CheckKeys(serverName, time.Unix(0, 0), keys)",
  "if !checks.AllChecksOK {",
  "return nil, fmt.Errorf(\"gomatrixserverlib: key response direct from %q failed checks\", serverName)",
  "}",
  "results := map[PublicKeyLookupRequest]PublicKeyLookupResult{}",
  "mapServerKeysToPublicKeyLookupResult(keys, results)",
  "return results, nil"
]

def keyring_DirectKeyFetcher_fetchNotaryKeysForServer : List String := [
  "func func(ctx context.Context, serverName spec.ServerName) (map[PublicKeyLookupRequest]PublicKeyLookupResult, error)",
  "ctx, cancel := context.WithTimeout(ctx, time.Second*15)",
  "defer cancel()",
  "var keys ServerKeys",
  "allKeys, err := d.Client.LookupServerKeys(ctx, serverName, map[PublicKeyLookupRequest]spec.Timestamp{{serverName, \"\"}: spec.AsTimestamp(time.Now())})",
  "if err != nil {",
  "return nil, err",
  "}",
  "found := false",
  "for _, serverKeys := range allKeys {",
  "if serverKeys.ServerName == serverName {",
  "keys = serverKeys",
  "found = true",
  "break",
  "}",
  "}",
  "if !found {",
  "return nil, fmt.Errorf(\"gomatrixserverlib: notary key response contained no results for %q\", serverName)",
  "}",
  "checks, _ := CheckKeys(serverName, time.Unix(0, 0), keys)",
  "if !checks.AllChecksOK {",
  "return nil, fmt.Errorf(\"gomatrixserverlib: notary key response direct from %q failed checks\", serverName)",
  "}",
  "results := map[PublicKeyLookupRequest]PublicKeyLookupResult{}",
  "mapServerKeysToPublicKeyLookupResult(keys, results)",
  "return results, nil"
]

def keyring_JSONVerifierSelf_VerifyJSONs : List String := [
  "func func(ctx context.Context, requests []VerifyJSONRequest) ([]VerifyJSONResult, error)",
  "results := make([]VerifyJSONResult, len(requests))",
  "for i := range requests {",
  "key, err := spec.SenderID(requests[i].ServerName).RawBytes()",
  "if err != nil {",
  "results[i].Error = fmt.Errorf(\"unable to get key from senderID for %s: %w\", requests[i].ServerName, err)",
  "continue",
  "}",
  "if err = VerifyJSON(string(requests[i].ServerName), \"ed25519:1\", ed25519.PublicKey(key), requests[i].Message); err != nil {",
  "results[i].Error = err",
  "continue",
  "}",
  "}",
  "return results, nil"
]

def keyring_KeyRing_VerifyJSONs : List String := [
  "func func(ctx context.Context, requests []VerifyJSONRequest) ([]VerifyJSONResult, error)",
  "logger := util.GetLogger(ctx)",
  "results := make([]VerifyJSONResult, len(requests))",
  "keyIDs := make([][]KeyID, len(requests))",
  "numRequests := len(requests)",
  "for i := range requests {",
  "ids, err := ListKeyIDs(string(requests[i].ServerName), requests[i].Message)",
  "if err != nil {",
  "results[i].Error = fmt.Errorf(\"gomatrixserverlib: error extracting key IDs\")",
  "continue",
  "}",
  "for _, keyID := range ids {",
  "if k.isAlgorithmSupported(keyID) {",
  "keyIDs[i] = append(keyIDs[i], keyID)",
  "}",
  "}",
  "if len(keyIDs[i]) == 0 {",
  "results[i].Error = fmt.Errorf(\"gomatrixserverlib: not signed by %q with a supported algorithm\", requests[i].ServerName)",
  "continue",
  "}",
  "results[i].Error = fmt.Errorf(\"gomatrixserverlib: could not download key for %q\", requests[i].ServerName)",
  "}",
  "keyRequests := k.publicKeyRequests(requests, results, keyIDs)",
  "if len(keyRequests) == 0 {",
  "return results, nil",
  "}",
  "keysFromDatabase, err := k.KeyDatabase.FetchKeys(ctx, keyRequests)",
  "if err != nil {",
  "return nil, err",
  "}",
  "keysFetched := map[PublicKeyLookupRequest]PublicKeyLookupResult{}",
  "keysToStore := map[PublicKeyLookupRequest]PublicKeyLookupResult{}",
  "now := spec.AsTimestamp(time.Now())",
  "for req, res := range keysFromDatabase {",
  "if res.ExpiredTS != PublicKeyNotExpired {",
  "keysFetched[req] = res",
  "delete(keyRequests, req)",
  "continue",
  "}",
  "keysFetched[req] = res",
  "if now < res.ValidUntilTS && res.ExpiredTS == PublicKeyNotExpired {",
  "delete(keyRequests, req)",
  "}",
  "}",
  "if len(keysFetched) == numRequests {",
  "k.checkUsingKeys(requests, results, keyIDs, keysFetched)",
  "errored := false",
  "for _, r := range results {",
  "if r.Error != nil {",
  "errored = true",
  "break",
  "}",
  "}",
  "if !errored {",
  "return results, nil",
  "}",
  "}",
  "for _, fetcher := range k.KeyFetchers {",
  "if len(keyRequests) == 0 {",
  "break",
  "}",
  "fetcherLogger := logger.WithField(\"fetcher\", fetcher.FetcherName())",
  "fetcherLogger.WithField(\"num_key_requests\", len(keyRequests)).Debug(\"Requesting keys from fetcher\")",
  "fetched, err := fetcher.FetchKeys(ctx, keyRequests)",
  "if err != nil {",
  "continue",
  "}",
  "if len(fetched) == 0 {",
  "continue",
  "}",
  "fetcherLogger.WithField(\"num_keys_fetched\", len(fetched)).Debug(\"Got keys from fetcher\")",
  "for req, res := range fetched {",
  "if _, requested := keyRequests[req]; !requested {",
  "if _, have := keysFetched[req]; have {",
  "continue",
  "}",
  "}",
  "keysFetched[req] = res",
  "keysToStore[req] = res",
  "delete(keyRequests, req)",
  "}",
  "}",
  "if len(keyRequests) > 0 {",
  "requestedServers := make([]string, 0, len(keyRequests))",
  "for reqs := range keyRequests {",
  "requestedServers = append(requestedServers, string(reqs.ServerName))",
  "}",
  "logger.WithFields(logrus.Fields{\"servers\": requestedServers, \"fetchers\": len(k.KeyFetchers)}).Warn(\"failed to fetch keys for some servers\")",
  "}",
  "k.checkUsingKeys(requests, results, keyIDs, keysFetched)",
  "if err := k.KeyDatabase.StoreKeys(ctx, keysToStore); err != nil {",
  "return nil, err",
  "}",
  "return results, nil"
]

def keyring_KeyRing_checkUsingKeys : List String := [
  "func func(requests []VerifyJSONRequest, results []VerifyJSONResult, keyIDs [][]KeyID, keys map[PublicKeyLookupRequest]PublicKeyLookupResult)",
  "for i := range requests {",
  "if results[i].Error == nil {",
  "continue",
  "}",
  "for _, keyID := range keyIDs[i] {",
  "serverKey, ok := keys[PublicKeyLookupRequest{requests[i].ServerName, keyID}]",
  "if !ok {",
  "continue",
  "}",
  "if !serverKey.WasValidAt(requests[i].AtTS, requests[i].ValidityCheckingFunc) {",
  "results[i].Error = fmt.Errorf(\"gomatrixserverlib: key with ID %q for %q not valid at %d\", keyID, requests[i].ServerName, requests[i].AtTS)",
  "continue",
  "}",
  "if err := VerifyJSON(string(requests[i].ServerName), keyID, ed25519.PublicKey(serverKey.Key), requests[i].Message); err != nil {",
  "results[i].Error = err",
  "continue",
  "}",
  "results[i].Error = nil",
  "break",
  "}",
  "}"
]

def keyring_KeyRing_isAlgorithmSupported : List String := [
  "func func(keyID KeyID) bool",
  "return strings.HasPrefix(string(keyID), \"ed25519:\")"
]

def keyring_KeyRing_publicKeyRequests : List String := [
  "func func(requests []VerifyJSONRequest, results []VerifyJSONResult, keyIDs [][]KeyID) map[PublicKeyLookupRequest]spec.Timestamp",
  "keyRequests := map[PublicKeyLookupRequest]spec.Timestamp{}",
  "for i := range requests {",
  "if results[i].Error == nil {",
  "continue",
  "}",
  "for _, keyID := range keyIDs[i] {",
  "k := PublicKeyLookupRequest{requests[i].ServerName, keyID}",
  "maxTS := keyRequests[k]",
  "if maxTS <= requests[i].AtTS {",
  "keyRequests[k] = requests[i].AtTS",
  "}",
  "}",
  "}",
  "return keyRequests"
]

def keyring_PerspectiveKeyFetcher_FetchKeys : List String := [
  "func func(ctx context.Context, requests map[PublicKeyLookupRequest]spec.Timestamp) (map[PublicKeyLookupRequest]PublicKeyLookupResult, error)",
  "serverKeys, err := p.Client.LookupServerKeys(ctx, p.PerspectiveServerName, requests)",
  "if err != nil {",
  "return nil, fmt.Errorf(\"gomatrixserverlib: unable to lookup server keys: %w\", err)",
  "}",
  "results := map[PublicKeyLookupRequest]PublicKeyLookupResult{}",
  "for _, keys := range serverKeys {",
  "var valid bool",
  "keyIDs, err := ListKeyIDs(string(p.PerspectiveServerName), keys.Raw)",
  "if err != nil {",
  "return nil, fmt.Errorf(\"gomatrixserverlib: unable to list key IDs: %w\", err)",
  "}",
  "for _, keyID := range keyIDs {",
  "perspectiveKey, ok := p.PerspectiveServerKeys[keyID]",
  "if !ok {",
  "continue",
  "}",
  "if err := VerifyJSON(string(p.PerspectiveServerName), keyID, perspectiveKey, keys.Raw); err != nil {",
  "return nil, fmt.Errorf(\"gomatrixserverlib: unable to verify response: %w\", err)",
  "}",
  "valid = true",
  "break",
  "}",
  "if !valid {",
  "return nil, fmt.Errorf(\"gomatrixserverlib: not signed with a known key for the perspective server\")",
  "}",
  "checks, _ := CheckKeys(keys.ServerName, time.Unix(0, 0), keys)",
  "if !checks.AllChecksOK {",
  "return nil, fmt.Errorf(\"gomatrixserverlib: key response from perspective server failed checks\")",
  "}",
  "mapServerKeysToPublicKeyLookupResult(keys, results)",
  "}",
  "return results, nil"
]

def keyring_PerspectiveKeyFetcher_FetcherName : List String := [
  "func func() string",
  "return fmt.Sprintf(\"perspective server %s\", p.PerspectiveServerName)"
]

def keyring_PublicKeyLookupRequest_MarshalText : List String := [
  "func func() ([]byte, error)",
  "return []byte(fmt.Sprintf(\"%s/%s\", r.ServerName, r.KeyID)), nil"
]

def keyring_PublicKeyLookupRequest_UnmarshalText : List String := [
  "func func(text []byte) error",
  "parts := strings.SplitN(string(text), \"/\", 2)",
  "if len(parts) < 2 {",
  "return errors.New(\"expected at least one / separator in \" + string(text))",
  "}",
  "r.ServerName, r.KeyID = spec.ServerName(parts[0]), KeyID(parts[1])",
  "return nil"
]

def keyring__NoStrictValidityCheck : List String := [
  "func func(_, _ spec.Timestamp) bool",
  "return true"
]

def keyring__StrictValiditySignatureCheck : List String := [
  "func func(atTs, validUntil spec.Timestamp) bool",
  "if validUntil == PublicKeyNotValid {",
  "return false",
  "}",
  "sevenDaysFuture := time.Now().Add(time.Hour * 24 * 7)",
  "validUntilTS := validUntil",
  "if sevenDaysFutureTS := spec.AsTimestamp(sevenDaysFuture); validUntilTS > sevenDaysFutureTS {",
  "validUntilTS = sevenDaysFutureTS",
  "}",
  "if atTs > validUntilTS {",
  "return false",
  "}",
  "return true"
]

def keyring__mapServerKeysToPublicKeyLookupResult : List String := [
  "func func(serverKeys ServerKeys, results map[PublicKeyLookupRequest]PublicKeyLookupResult)",
  "for keyID, key := range serverKeys.VerifyKeys {",
  "results[PublicKeyLookupRequest{ServerName: serverKeys.ServerName, KeyID: keyID}] = PublicKeyLookupResult{VerifyKey: key, ValidUntilTS: serverKeys.ValidUntilTS, ExpiredTS: PublicKeyNotExpired}",
  "}",
  "for keyID, key := range serverKeys.OldVerifyKeys {",
  "results[PublicKeyLookupRequest{ServerName: serverKeys.ServerName, KeyID: keyID}] = PublicKeyLookupResult{VerifyKey: key.VerifyKey, ValidUntilTS: PublicKeyNotValid, ExpiredTS: key.ExpiredTS}",
  "}"
]

def keyring_type_DirectKeyFetcher : List String := [
  "type DirectKeyFetcher struct { Client KeyClient IsLocalServerName func(server spec.ServerName) bool LocalPublicKey spec.Base64Bytes }"
]

def keyring_type_JSONVerifier : List String := [
  "type JSONVerifier interface { VerifyJSONs(ctx context.Context, requests []VerifyJSONRequest) ([]VerifyJSONResult, error) }"
]

def keyring_type_JSONVerifierSelf : List String := [
  "type JSONVerifierSelf struct{}"
]

def keyring_type_KeyClient : List String := [
  "type KeyClient interface { GetServerKeys(ctx context.Context, matrixServer spec.ServerName) (ServerKeys, error) LookupServerKeys(ctx context.Context, matrixServer spec.ServerName, keyRequests map[PublicKeyLookupRequest]spec.Timestamp) ([]ServerKeys, error) }"
]

def keyring_type_KeyDatabase : List String := [
  "type KeyDatabase interface { KeyFetcher StoreKeys(ctx context.Context, results map[PublicKeyLookupRequest]PublicKeyLookupResult) error }"
]

def keyring_type_KeyFetcher : List String := [
  "type KeyFetcher interface { FetchKeys(ctx context.Context, requests map[PublicKeyLookupRequest]spec.Timestamp) (map[PublicKeyLookupRequest]PublicKeyLookupResult, error) FetcherName() string }"
]

def keyring_type_KeyRing : List String := [
  "type KeyRing struct { KeyFetchers []KeyFetcher KeyDatabase KeyDatabase }"
]

def keyring_type_PerspectiveKeyFetcher : List String := [
  "type PerspectiveKeyFetcher struct { PerspectiveServerName spec.ServerName PerspectiveServerKeys map[KeyID]ed25519.PublicKey Client KeyClient }"
]

def keyring_type_PublicKeyLookupRequest : List String := [
  "type PublicKeyLookupRequest struct { ServerName spec.ServerName `json:\"server_name\"` KeyID KeyID `json:\"key_id\"` }"
]

def keyring_type_PublicKeyLookupResult : List String := [
  "type PublicKeyLookupResult struct { VerifyKey ExpiredTS spec.Timestamp `json:\"expired_ts\"` ValidUntilTS spec.Timestamp `json:\"valid_until_ts\"` }"
]

def keyring_type_PublicKeyNotaryLookupRequest : List String := [
  "type PublicKeyNotaryLookupRequest struct { ServerKeys map[spec.ServerName]map[KeyID]PublicKeyNotaryQueryCriteria `json:\"server_keys\"` }"
]

def keyring_type_PublicKeyNotaryQueryCriteria : List String := [
  "type PublicKeyNotaryQueryCriteria struct { MinimumValidUntilTS spec.Timestamp `json:\"minimum_valid_until_ts\"` }"
]

def keyring_type_SignatureValidityCheckFunc : List String := [
  "type SignatureValidityCheckFunc func(atTS, validUntil spec.Timestamp) bool"
]

def keyring_type_VerifyJSONRequest : List String := [
  "type VerifyJSONRequest struct { ServerName spec.ServerName AtTS spec.Timestamp Message []byte ValidityCheckingFunc SignatureValidityCheckFunc }"
]

def keyring_type_VerifyJSONResult : List String := [
  "type VerifyJSONResult struct{ Error error }"
]

def keys_ServerKeys_MarshalJSON : List String := [
  "func func() ([]byte, error)",
  "if len(keys.Raw) == 0 {",
  "js, err := json.Marshal(keys.ServerKeyFields)",
  "if err != nil {",
  "return nil, err",
  "}",
  "return js, nil",
  "}",
  "return keys.Raw, nil"
]

def keys_ServerKeys_PublicKey : List String := [
  "func func(keyID KeyID, atTS spec.Timestamp) []byte",
  "if currentKey, ok := keys.VerifyKeys[keyID]; ok && (atTS <= keys.ValidUntilTS) {",
  "return currentKey.Key",
  "}",
  "if oldKey, ok := keys.OldVerifyKeys[keyID]; ok && (atTS < oldKey.ExpiredTS) {",
  "return oldKey.Key",
  "}",
  "return nil"
]

def keys_ServerKeys_UnmarshalJSON : List String := [
  "func func(data []byte) error",
  "keys.Raw = data",
  "return json.Unmarshal(data, &keys.ServerKeyFields)"
]

def keys__CheckKeys : List String := [
  "func func(serverName spec.ServerName, now time.Time, keys ServerKeys) (checks KeyChecks, ed25519Keys map[KeyID]spec.Base64Bytes)",
  "checks.MatchingServerName = serverName == keys.ServerName",
  "checks.FutureValidUntilTS = keys.ValidUntilTS.Time().After(now)",
  "checks.AllChecksOK = checks.MatchingServerName && checks.FutureValidUntilTS",
  "ed25519Keys = checkVerifyKeys(keys, &checks)",
  "if !checks.AllChecksOK {",
  "ed25519Keys = nil",
  "}",
  "return"
]

def keys__checkVerifyKeys : List String := [
  "func func(keys ServerKeys, checks *KeyChecks) map[KeyID]spec.Base64Bytes",
  "allEd25519ChecksOK := true",
  "checks.Ed25519Checks = map[KeyID]Ed25519Checks{}",
  "verifyKeys := map[KeyID]spec.Base64Bytes{}",
  "for keyID, keyData := range keys.VerifyKeys {",
  "algorithm := strings.SplitN(string(keyID), \":\", 2)[0]",
  "publicKey := keyData.Key",
  "if algorithm == \"ed25519\" {",
  "checks.HasEd25519Key = true",
  "checks.AllEd25519ChecksOK = &allEd25519ChecksOK",
  "entry := Ed25519Checks{ValidEd25519: len(publicKey) == 32}",
  "if entry.ValidEd25519 {",
  "err := VerifyJSON(string(keys.ServerName), keyID, []byte(publicKey), keys.Raw)",
  "entry.MatchingSignature = err == nil",
  "}",
  "checks.Ed25519Checks[keyID] = entry",
  "if entry.MatchingSignature {",
  "verifyKeys[keyID] = publicKey",
  "} else {",
  "allEd25519ChecksOK = false",
  "}",
  "}",
  "}",
  "if checks.AllChecksOK {",
  "checks.AllChecksOK = checks.HasEd25519Key && allEd25519ChecksOK",
  "}",
  "return verifyKeys"
]

def keys_type_Ed25519Checks : List String := [
  "type Ed25519Checks struct { ValidEd25519 bool MatchingSignature bool }"
]

def keys_type_KeyChecks : List String := [
  "type KeyChecks struct { AllChecksOK bool MatchingServerName bool FutureValidUntilTS bool HasEd25519Key bool AllEd25519ChecksOK *bool Ed25519Checks map[KeyID]Ed25519Checks }"
]

def keys_type_OldVerifyKey : List String := [
  "type OldVerifyKey struct { VerifyKey ExpiredTS spec.Timestamp `json:\"expired_ts\"` }"
]

def keys_type_ServerKeyFields : List String := [
  "type ServerKeyFields struct { ServerName spec.ServerName `json:\"server_name\"` VerifyKeys map[KeyID]VerifyKey `json:\"verify_keys\"` ValidUntilTS spec.Timestamp `json:\"valid_until_ts\"` OldVerifyKeys map[KeyID]OldVerifyKey `json:\"old_verify_keys\"` }"
]

def keys_type_ServerKeys : List String := [
  "type ServerKeys struct { Raw []byte ServerKeyFields }"
]

def keys_type_VerifyKey : List String := [
  "type VerifyKey struct { Key spec.Base64Bytes `json:\"key\"` }"
]

def signing__ListKeyIDs : List String := [
  "func func(signingName string, message []byte) ([]KeyID, error)",
  "var members map[string]json.RawMessage",
  "if err := json.Unmarshal(message, &members); err != nil {",
  "return nil, err",
  "}",
  "var object struct { Signatures map[string]map[KeyID]json.RawMessage }",
  "if raw, ok := members[\"signatures\"]; ok {",
  "if err := json.Unmarshal(raw, &object.Signatures); err != nil {",
  "return nil, err",
  "}",
  "}",
  "var result []KeyID",
  "for keyID := range object.Signatures[signingName] {",
  "result = append(result, keyID)",
  "}",
  "return result, nil"
]

def signing__SignJSON : List String := [
  "func func(signingName string, keyID KeyID, privateKey ed25519.PrivateKey, message []byte) (signed []byte, err error)",
  "preserve := struct { Signatures map[string]map[KeyID]spec.Base64Bytes `json:\"signatures\"` Unsigned spec.RawJSON `json:\"unsigned\"` }{Signatures: map[string]map[KeyID]spec.Base64Bytes{}}",
  "if err = checkStrictJSON(message, false, false); err != nil {",
  "return nil, err",
  "}",
  "var object map[string]json.RawMessage",
  "if err = json.Unmarshal(message, &object); err != nil {",
  "return nil, err",
  "}",
  "if raw, ok := object[\"signatures\"]; ok {",
  "if err = json.Unmarshal(raw, &preserve.Signatures); err != nil {",
  "return nil, err",
  "}",
  "}",
  "preserve.Unsigned = spec.RawJSON(object[\"unsigned\"])",
  "if message, err = sjson.DeleteBytes(message, \"signatures\"); err != nil {",
  "return nil, err",
  "}",
  "if message, err = sjson.DeleteBytes(message, \"unsigned\"); err != nil {",
  "return nil, err",
  "}",
  "canonical, err := CanonicalJSON(message)",
  "if err != nil {",
  "return nil, err",
  "}",
  "signature := spec.Base64Bytes(ed25519.Sign(privateKey, canonical))",
  "if preserve.Signatures == nil {",
  "preserve.Signatures = map[string]map[KeyID]spec.Base64Bytes{}",
  "}",
  "if existing := preserve.Signatures[signingName]; existing != nil {",
  "existing[keyID] = signature",
  "} else {",
  "preserve.Signatures[signingName] = map[KeyID]spec.Base64Bytes{keyID: signature}",
  "}",
  "signatures, err := json.Marshal(preserve.Signatures)",
  "if err != nil {",
  "return nil, err",
  "}",
  "if signed, err = sjson.SetRawBytes(canonical, \"signatures\", signatures); err != nil {",
  "return nil, err",
  "}",
  "if len(preserve.Unsigned) > 0 {",
  "if signed, err = sjson.SetRawBytes(signed, \"unsigned\", preserve.Unsigned); err != nil {",
  "return nil, err",
  "}",
  "}",
  "if signed, err = CanonicalJSON(signed); err != nil {",
  "return nil, err",
  "}",
  "return"
]

def signing__VerifyJSON : List String := [
  "func func(signingName string, keyID KeyID, publicKey ed25519.PublicKey, message []byte) error",
  "var object map[string]*json.RawMessage",
  "var signatures map[string]map[KeyID]spec.Base64Bytes",
  "if err := checkStrictJSON(message, true, true); err != nil {",
  "return err",
  "}",
  "if err := json.Unmarshal(message, &object); err != nil {",
  "return err",
  "}",
  "if object[\"signatures\"] == nil {",
  "return fmt.Errorf(\"No signatures\")",
  "}",
  "if err := json.Unmarshal(*object[\"signatures\"], &signatures); err != nil {",
  "return err",
  "}",
  "signature, ok := signatures[signingName][keyID]",
  "if !ok {",
  "return fmt.Errorf(\"No signature from %q with ID %q\", signingName, keyID)",
  "}",
  "if len(signature) != ed25519.SignatureSize {",
  "return fmt.Errorf(\"Bad signature length from %q with ID %q\", signingName, keyID)",
  "}",
  "if len(publicKey) != ed25519.PublicKeySize {",
  "return fmt.Errorf(\"Bad public key length for %q with ID %q\", signingName, keyID)",
  "}",
  "delete(object, \"unsigned\")",
  "delete(object, \"signatures\")",
  "unsorted, err := json.Marshal(object)",
  "if err != nil {",
  "return err",
  "}",
  "canonical, err := CanonicalJSON(unsorted)",
  "if err != nil {",
  "return err",
  "}",
  "if !ed25519.Verify(publicKey, canonical, signature) {",
  "return fmt.Errorf(\"Bad signature from %q with ID %q\", signingName, keyID)",
  "}",
  "return nil"
]

def signing__checkStrictJSON : List String := [
  "func func(message []byte, requireUTF8, skipUnsigned bool) error",
  "if !json.Valid(message) || !gjson.ValidBytes(message) {",
  "return fmt.Errorf(\"gomatrixserverlib: invalid JSON\")",
  "}",
  "walk := jsonWalk{decodeName: func(raw []byte, escaped bool) (string, bool) { if !escaped { return string(raw[1 : len(raw)-1]), true } return gjson.ParseBytes(raw).Str, true }, checkString: func(raw []byte) error { return checkStrictString(string(raw), requireUTF8) }}",
  "if skipUnsigned {",
  "walk.skipMember = func(name string) bool { return name == \"unsigned\" }",
  "}",
  "name, duplicate, err := walk.duplicateName(message)",
  "if err != nil {",
  "return err",
  "}",
  "if duplicate {",
  "return fmt.Errorf(\"gomatrixserverlib: duplicate object member %q\", name)",
  "}",
  "return nil"
]

def signing__checkStrictString : List String := [
  "func func(raw string, requireUTF8 bool) error",
  "if requireUTF8 && !utf8.ValidString(raw) {",
  "return fmt.Errorf(\"gomatrixserverlib: JSON string is not valid UTF-8\")",
  "}",
  "for i := 0; i+1 < len(raw); i++ {",
  "if raw[i] != '\\\\' {",
  "continue",
  "}",
  "i++",
  "if raw[i] != 'u' || i+4 >= len(raw) {",
  "continue",
  "}",
  "high := readHexDigits([]byte(raw[i+1 : i+5]))",
  "i += 4",
  "if !utf16.IsSurrogate(high) {",
  "continue",
  "}",
  "if i+6 >= len(raw) || raw[i+1] != '\\\\' || raw[i+2] != 'u' || utf16.DecodeRune(high, readHexDigits([]byte(raw[i+3:i+7]))) == utf8.RuneError {",
  "return fmt.Errorf(\"gomatrixserverlib: JSON string has an unpaired surrogate escape\")",
  "}",
  "i += 6",
  "}",
  "return nil"
]

def signing_type_KeyID : List String := [
  "type KeyID string"
]

def functions : List String := ["keyring.go:DirectKeyFetcher.FetchKeys", "keyring.go:DirectKeyFetcher.FetcherName", "keyring.go:DirectKeyFetcher.fetchKeysForServer", "keyring.go:DirectKeyFetcher.fetchNotaryKeysForServer", "keyring.go:JSONVerifierSelf.VerifyJSONs", "keyring.go:KeyRing.VerifyJSONs", "keyring.go:KeyRing.checkUsingKeys", "keyring.go:KeyRing.isAlgorithmSupported", "keyring.go:KeyRing.publicKeyRequests", "keyring.go:PerspectiveKeyFetcher.FetchKeys", "keyring.go:PerspectiveKeyFetcher.FetcherName", "keyring.go:PublicKeyLookupRequest.MarshalText", "keyring.go:PublicKeyLookupRequest.UnmarshalText", "keyring.go:.NoStrictValidityCheck", "keyring.go:.StrictValiditySignatureCheck", "keyring.go:.mapServerKeysToPublicKeyLookupResult", "keyring.go:type DirectKeyFetcher", "keyring.go:type JSONVerifier", "keyring.go:type JSONVerifierSelf", "keyring.go:type KeyClient", "keyring.go:type KeyDatabase", "keyring.go:type KeyFetcher", "keyring.go:type KeyRing", "keyring.go:type PerspectiveKeyFetcher", "keyring.go:type PublicKeyLookupRequest", "keyring.go:type PublicKeyLookupResult", "keyring.go:type PublicKeyNotaryLookupRequest", "keyring.go:type PublicKeyNotaryQueryCriteria", "keyring.go:type SignatureValidityCheckFunc", "keyring.go:type VerifyJSONRequest", "keyring.go:type VerifyJSONResult", "keys.go:ServerKeys.MarshalJSON", "keys.go:ServerKeys.PublicKey", "keys.go:ServerKeys.UnmarshalJSON", "keys.go:.CheckKeys", "keys.go:.checkVerifyKeys", "keys.go:type Ed25519Checks", "keys.go:type KeyChecks", "keys.go:type OldVerifyKey", "keys.go:type ServerKeyFields", "keys.go:type ServerKeys", "keys.go:type VerifyKey", "signing.go:.ListKeyIDs", "signing.go:.SignJSON", "signing.go:.VerifyJSON", "signing.go:.checkStrictJSON", "signing.go:.checkStrictString", "signing.go:type KeyID"]

end VPins.C12
